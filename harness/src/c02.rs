//! C02 — on each node the replicated metadata and the persisted store never disagree.

use std::collections::BTreeMap;

use serde_json::{json, Value};

use crate::core::{Outcome, Pass, Prop, Src};
use crate::e2::{self, actor_view, store_view};
use crate::ensure;
use crate::model::Stamp;
use crate::registry::{DynPart, Gen};
use crate::store::{Fault, ModelStore};

#[derive(Debug, Clone)]
pub struct W {
    pub key: u64,
    pub stamp: Stamp,
    pub len: usize,
}

#[derive(Debug, Clone)]
pub enum Req {
    Set { ks: usize, source: usize, w: W },
    MultiSet { ks: usize, source: usize, ws: Vec<W> },
    Del { ks: usize, source: usize, w: W },
    MultiDel { ks: usize, source: usize, ws: Vec<W> },
    Purge { ks: usize },
}

#[derive(Debug, Clone)]
pub struct Case {
    pub reqs: Vec<(Req, Option<Fault>)>,
    /// request i is issued together with request i+1 (both sit in the keyspace's mailbox before either is answered),
    /// the oracle runs when the whole group has been answered
    pub glue: Vec<bool>,
    /// the store performs its k-th write `pattern[k % len]` simulated ms after it was asked to (empty = at once)
    pub write_delay: Vec<u64>,
}

pub struct C02;

pub struct ReqGen {
    pub base: u64,
    pub nodes: Vec<u8>,
    pub n_keys: u64,
    pub n_ks: usize,
    /// document ids spread over the whole u64 range (byte order != numeric order in a little-endian key, sign bit set,
    /// the extremes) instead of 1..=50: irrelevant to the set, not to a backend underneath it
    pub wide_ids: bool,
    used: std::collections::BTreeSet<Stamp>,
}

/// Injective map from the small key numbers the generator draws to ids spread over the u64 range.
pub fn wide_id(k: u64) -> u64 {
    match k % 4 {
        0 => k,
        1 => k << 8,
        2 => (1u64 << 63) | k,
        _ => u64::MAX - k,
    }
}

impl ReqGen {
    pub fn new(src: &mut Src) -> Self {
        let nodes = match src.below(3) {
            0 => vec![1u8, 2],
            1 => vec![1, 2, 3],
            _ => vec![5],
        };
        ReqGen {
            base: *src.pick(&[100_000u64, 3_700, 50_000_000]),
            nodes,
            n_keys: 1 + src.below64(4),
            n_ks: 1 + src.below(2),
            wide_ids: src.chance(1, 2),
            used: Default::default(),
        }
    }

    pub fn stamp(&mut self, src: &mut Src) -> Stamp {
        let off = match src.weighted(&[3, 3, 2]) {
            0 => *src.pick(&[0u64, 1, 600, 1_800, 3_599, 3_600, 3_601, 7_200, 10_800, 21_600]),
            1 => src.below64(3_000),
            _ => src.below64(21_600),
        };
        let mut s = Stamp {
            secs: self.base + off,
            frac: *src.pick(&[0u8, 0, 1, 249]),
            counter: *src.pick(&[0u16, 0, 1, 2]),
            node: *src.pick(&self.nodes),
        };
        while !self.used.insert(s) {
            s.counter += 1;
        }
        s
    }

    pub fn w(&mut self, src: &mut Src) -> W {
        let k = 1 + src.below64(self.n_keys);
        W { key: if self.wide_ids { wide_id(k) } else { k }, stamp: self.stamp(src), len: *src.pick(&[0usize, 1, 5, 40]) }
    }

    /// bulk content: distinct ids, or repeated ids in ascending / descending stamp order
    pub fn bulk(&mut self, src: &mut Src) -> Vec<W> {
        // mostly small bulks; one in eight is large (5-40 entries over up to 50 ids: the message's small-vector
        // spills, storage sees long batches, a partial failure can stop anywhere)
        let large = src.chance(1, 8);
        let n = if large { 5 + src.below(36) } else { src.below(5) };
        let mut ws: Vec<W> = (0..n)
            .map(|_| {
                let mut w = self.w(src);
                if large {
                    let k = 1 + src.below64(50);
                    w.key = if self.wide_ids { wide_id(k) } else { k };
                }
                w
            })
            .collect();
        if src.chance(1, 2) {
            // what put_many / del_many produce: distinct ids sharing ONE timestamp
            let shared = self.stamp(src);
            let mut seen = std::collections::BTreeSet::new();
            ws.retain(|w| seen.insert(w.key));
            for w in &mut ws {
                w.stamp = shared;
            }
            return ws;
        }
        match src.weighted(&[3, 2, 1, 1]) {
            0 => {
                // distinct ids
                let mut seen = std::collections::BTreeSet::new();
                ws.retain(|w| seen.insert(w.key));
            },
            1 => ws.sort_by_key(|w| w.stamp),
            2 => {
                ws.sort_by_key(|w| w.stamp);
                ws.reverse();
            },
            _ => {},
        }
        ws
    }

    pub fn req(&mut self, src: &mut Src) -> Req {
        let ks = src.below(self.n_ks);
        let source = src.below(2);
        match src.weighted(&[4, 3, 3, 3, 2]) {
            0 => Req::Set { ks, source, w: self.w(src) },
            1 => Req::Del { ks, source, w: self.w(src) },
            2 => Req::MultiSet { ks, source, ws: self.bulk(src) },
            3 => Req::MultiDel { ks, source, ws: self.bulk(src) },
            _ => Req::Purge { ks },
        }
    }
}

/// Per-call latency of the store before a write lands: none (three cases in five), uniform, or varying from call to call
/// (a later call overtakes an earlier one unless the caller awaited it).
pub fn gen_write_delay(src: &mut Src) -> Vec<u64> {
    match src.below(10) {
        0..=5 => vec![],
        6 => vec![1],
        7 => vec![4, 0],
        8 => vec![0, 5, 1],
        _ => vec![7, 0, 0, 2],
    }
}

pub fn gen_fault(src: &mut Src) -> Option<Fault> {
    match src.weighted(&[8, 1, 1, 1]) {
        0 => None,
        1 => Some(Fault::FailBefore),
        2 => Some(Fault::Partial(*src.pick(&[0usize, 1, 2, 3, 3, 5, 9, 20]))),
        // the rows storage managed to write need not be a prefix of the request
        _ => Some(Fault::Subset(src.word())),
    }
}

pub fn w_json(w: &W) -> Value {
    json!({"key": w.key, "ts": w.stamp.json(), "len": w.len})
}

pub fn req_json(r: &Req) -> Value {
    match r {
        Req::Set { ks, source, w } => json!({"set": w_json(w), "ks": ks, "source": source}),
        Req::Del { ks, source, w } => json!({"del": w_json(w), "ks": ks, "source": source}),
        Req::MultiSet { ks, source, ws } => json!({"multi_set": ws.iter().map(w_json).collect::<Vec<_>>(), "ks": ks, "source": source}),
        Req::MultiDel { ks, source, ws } => json!({"multi_del": ws.iter().map(w_json).collect::<Vec<_>>(), "ks": ks, "source": source}),
        Req::Purge { ks } => json!({"purge": ks}),
    }
}

pub fn ks_name(i: usize) -> String {
    format!("ks{i}")
}

/// Sends one request to the group; returns whether the call reported success.
pub async fn send_req(group: &e2::Group, req: &Req) -> bool {
    match req {
        Req::Set { ks, source, w } => {
            let m = group.get_or_create_keyspace(&ks_name(*ks)).await;
            m.send(e2::msg_set(*source, e2::doc(w.key, w.stamp, w.len))).await.is_ok()
        },
        Req::Del { ks, source, w } => {
            let m = group.get_or_create_keyspace(&ks_name(*ks)).await;
            m.send(e2::msg_del(*source, e2::meta(w.key, w.stamp))).await.is_ok()
        },
        Req::MultiSet { ks, source, ws } => {
            let m = group.get_or_create_keyspace(&ks_name(*ks)).await;
            let docs = ws.iter().map(|w| e2::doc(w.key, w.stamp, w.len)).collect();
            m.send(e2::msg_multi_set(*source, docs)).await.is_ok()
        },
        Req::MultiDel { ks, source, ws } => {
            let m = group.get_or_create_keyspace(&ks_name(*ks)).await;
            let docs = ws.iter().map(|w| e2::meta(w.key, w.stamp)).collect();
            m.send(e2::msg_multi_del(*source, docs)).await.is_ok()
        },
        Req::Purge { ks } => {
            let m = group.get_or_create_keyspace(&ks_name(*ks)).await;
            m.send(e2::msg_purge()).await.is_ok()
        },
    }
}

impl Prop for C02 {
    type Case = Case;

    fn id(&self) -> &'static str {
        "C02"
    }

    fn part(&self) -> &'static str {
        "set-vs-store"
    }

    fn width(&self) -> usize {
        25 * 26 + 8
    }

    fn gen(&self, src: &mut Src) -> Case {
        let mut g = ReqGen::new(src);
        let n = 1 + src.below(25);
        let reqs: Vec<_> = (0..n).map(|_| (g.req(src), gen_fault(src))).collect();
        let pipelined = src.chance(1, 3);
        let glue = (0..n).map(|_| pipelined && src.chance(1, 2)).collect();
        let write_delay = gen_write_delay(src);
        Case { reqs, glue, write_delay }
    }

    fn run(&self, case: &Case) -> Outcome {
        e2::block_on_sim(60_000_000, e2::no_skew(), run(case))
    }

    fn describe(&self, case: &Case) -> Value {
        json!({"store_write_delay_ms_per_call": case.write_delay, "requests": case
            .reqs
            .iter()
            .enumerate()
            .map(|(i, (r, f))| {
                let mut j = req_json(r);
                if let Some(f) = f {
                    j["storage_fault"] = json!(format!("{:?}", f));
                }
                if case.glue[i] {
                    j["issued_together_with_the_next"] = json!(true);
                }
                j
            })
            .collect::<Vec<_>>()})
    }

    fn rule(&self) -> &'static str {
        "one real KeyspaceGroup (actors + clock) on an inspectable fault-injecting store; 1-25 requests \
         Set|MultiSet|Del|MultiDel|Purge over 1-2 keyspaces with stamps from 1-3 origins spread over up to 6 h in any \
         arrival order, both sources; bulk requests with distinct ids sharing one stamp (what put_many/del_many send), distinct ids with own stamps, \
         or repeated ids in ascending / descending stamp order; storage faults: fail before writing, write the first j items and report exactly those, or write an arbitrary subset of the items and report exactly those; \
         in a third of the cases runs of 2-4 fault-free requests are issued together (all in the mailbox before any is answered) and judged when all are answered; \
         in two cases out of five the store performs its writes 0-7 simulated ms after being asked (uniform or varying from call to call); \
         oracle after EVERY request: {(id,stamp,tombstone)} held by storage == live+tombstone entries of the \
         deserialised Serialize reply, and live ids have bytes in storage; non-trivial = a request older than an \
         applied stamp of the same origin on the same source, or an injected failure, or an effective purge"
    }
}

async fn run(case: &Case) -> Outcome {
    let store = ModelStore::default();
    let group = e2::new_group(store.clone(), 9).await;
    let mut newest: BTreeMap<(usize, usize, u8), Stamp> = BTreeMap::new();
    let (mut late, mut faulted, mut purged, mut dup_desc, mut dup_asc) = (false, false, false, false, false);

    store.inner.lock().write_delay_pattern = case.write_delay.clone();
    let mut pipelined = false;
    let mut skip_until = 0usize;
    for (i, (req, fault)) in case.reqs.iter().enumerate() {
        if i < skip_until {
            continue;
        }
        // a run of fault-free requests glued together is issued at once
        let mut j = i;
        while j + 1 < case.reqs.len() && j - i < 3 && case.glue[j] && case.reqs[j].1.is_none() && case.reqs[j + 1].1.is_none() {
            j += 1;
        }
        if j > i {
            pipelined = true;
            skip_until = j + 1;
            for (r, _) in &case.reqs[i..=j] {
                match r {
                    Req::Set { ks, source, w } | Req::Del { ks, source, w } => {
                        let e = newest.entry((*ks, *source, w.stamp.node)).or_insert(w.stamp);
                        if *e > w.stamp { late = true } else { *e = w.stamp }
                    },
                    Req::MultiSet { ks, source, ws } | Req::MultiDel { ks, source, ws } => {
                        for w in ws {
                            let e = newest.entry((*ks, *source, w.stamp.node)).or_insert(w.stamp);
                            if *e > w.stamp { late = true } else { *e = w.stamp }
                        }
                    },
                    Req::Purge { .. } => {},
                }
            }
            let tomb_before: usize = (0..2).map(|k| store_view(&store, &ks_name(k)).dead.len()).sum();
            futures::future::join_all(case.reqs[i..=j].iter().map(|(r, _)| send_req(&group, r))).await;
            let tomb_after: usize = (0..2).map(|k| store_view(&store, &ks_name(k)).dead.len()).sum();
            if case.reqs[i..=j].iter().any(|(r, _)| matches!(r, Req::Purge { .. })) && tomb_after < tomb_before {
                purged = true;
            }
            let what = format!("requests {i}..={j} issued together ({})", case.reqs[i..=j].iter().map(|(r, _)| req_json(r).to_string()).collect::<Vec<_>>().join(", "));
            compare(&group, &store, &what).await?;
            continue;
        }
        // bookkeeping for labels
        let mut note = |ks: usize, source: usize, s: Stamp| {
            let e = newest.entry((ks, source, s.node)).or_insert(s);
            if *e > s {
                late = true;
            } else {
                *e = s;
            }
        };
        match req {
            Req::Set { ks, source, w } | Req::Del { ks, source, w } => note(*ks, *source, w.stamp),
            Req::MultiSet { ks, source, ws } | Req::MultiDel { ks, source, ws } => {
                for (a, wa) in ws.iter().enumerate() {
                    for wb in ws.iter().skip(a + 1) {
                        if wa.key == wb.key {
                            if wa.stamp > wb.stamp {
                                dup_desc = true;
                            } else {
                                dup_asc = true;
                            }
                        }
                    }
                }
                for w in ws {
                    note(*ks, *source, w.stamp);
                }
            },
            Req::Purge { .. } => {},
        }

        let injected_before = store.inner.lock().injected;
        let tomb_before: usize = (0..2).map(|k| store_view(&store, &ks_name(k)).dead.len()).sum();
        if let Some(f) = fault {
            let mut g = store.inner.lock();
            let idx = g.mutating_calls;
            g.faults.insert(idx, *f);
        }
        // what the set held before the request: needed to decide which items the request had to apply
        let pre_set = match req {
            Req::Purge { .. } => None,
            Req::Set { ks, .. } | Req::Del { ks, .. } | Req::MultiSet { ks, .. } | Req::MultiDel { ks, .. } => {
                Some(e2::actor_set(&group, &ks_name(*ks)).await.unwrap_or_default())
            },
        };
        let ok = send_req(&group, req).await;
        store.inner.lock().faults.clear();
        if store.inner.lock().injected > injected_before {
            faulted = true;
            if ok {
                // Success after a storage failure is legitimate only if the node made up for it (e.g. retried): every
                // item the set was ready to apply must now be in storage at its stamp or a newer one. Otherwise the
                // failure was swallowed: the caller is told "done" for a mutation applied to neither side.
                let (ks, items, del): (usize, Vec<&W>, bool) = match req {
                    Req::Set { ks, w, .. } => (*ks, vec![w], false),
                    Req::Del { ks, w, .. } => (*ks, vec![w], true),
                    Req::MultiSet { ks, ws, .. } => (*ks, ws.iter().collect(), false),
                    Req::MultiDel { ks, ws, .. } => (*ks, ws.iter().collect(), true),
                    Req::Purge { .. } => (0, vec![], false),
                };
                let st = store_view(&store, &ks_name(ks));
                let pre = pre_set.clone().unwrap_or_default();
                for w in items {
                    if !pre.will_apply(w.key, w.stamp.hlc()) {
                        continue;
                    }
                    let held = st.live.get(&w.key).into_iter().chain(st.dead.get(&w.key)).max().copied();
                    ensure!(
                        held.map_or(false, |h| h >= w.stamp),
                        "failure-swallowed",
                        "request {i} ({}) reported success although storage failed and {} of key {} at {:?} is not in storage (holds {:?})",
                        req_json(req),
                        if del { "the delete" } else { "the write" },
                        w.key,
                        w.stamp,
                        held
                    );
                }
            }
        }
        let tomb_after: usize = (0..2).map(|k| store_view(&store, &ks_name(k)).dead.len()).sum();
        if matches!(req, Req::Purge { .. }) && tomb_after < tomb_before {
            purged = true;
        }

        compare(&group, &store, &format!("request {i} ({})", req_json(req))).await?;
    }
    // whatever the node still does in the background once everything was answered must not undo the agreement
    if !case.write_delay.is_empty() {
        tokio::time::sleep(std::time::Duration::from_millis(50)).await;
        compare(&group, &store, "50 ms after the last request was answered").await?;
    }

    let mut labels = vec![];
    if late {
        labels.push("late_same_origin_same_source");
    }
    if faulted {
        labels.push("storage_failure");
    }
    if purged {
        labels.push("purged>=1");
    }
    if dup_asc {
        labels.push("dup_asc");
    }
    if dup_desc {
        labels.push("dup_desc");
    }
    if pipelined {
        labels.push("requests_issued_together");
    }
    if !case.write_delay.is_empty() {
        labels.push("store_writes_late");
    }
    Ok(Pass { nontrivial: late || faulted || purged, labels })
}

async fn compare(group: &e2::Group, store: &ModelStore, what: &str) -> Result<(), crate::core::Fail> {
    ensure!(
        store.inner.lock().removed_live == 0,
        "purge-removed-live-document",
        "{what} made the node ask storage to remove the tombstone of an id that holds a live document"
    );
    for k in 0..2 {
        let name = ks_name(k);
        let set = actor_view(group, &name).await;
        let st = store_view(store, &name);
        ensure!(set == st, "set-store-disagree", "after {what} keyspace {name}: set {:?} but storage {:?}", set, st);
        let docs = store.docs(&name);
        for id in set.live.keys() {
            ensure!(docs.contains_key(id), "live-without-bytes", "after {what}: id {id} is live but storage has no bytes");
        }
    }
    Ok(())
}

/// Exhaustive small scope: every history of 1-4 requests of `c07::small_histories` (set / delete of keys {1,2} at four
/// stamps of two origins through either source, each stamp once, purges anywhere) with no request or any one request hitting
/// a storage failure. Words: [len, fault mask, slot x len].
pub struct C02Small;

pub fn small_space() -> Vec<Vec<u64>> {
    let mut out = vec![];
    for h in crate::c07::small_histories() {
        if h.len() > 4 {
            continue;
        }
        // no storage failure, or exactly one request failing
        for mask in std::iter::once(0u64).chain((0..h.len()).map(|i| 1u64 << i)) {
            let mut w = vec![h.len() as u64, mask];
            w.extend(&h);
            out.push(w);
        }
    }
    out
}

impl Prop for C02Small {
    type Case = Case;

    fn id(&self) -> &'static str {
        "C02"
    }

    fn part(&self) -> &'static str {
        "small-scope-histories"
    }

    fn width(&self) -> usize {
        6
    }

    fn shrink_budget(&self) -> usize {
        200
    }

    fn gen(&self, src: &mut Src) -> Case {
        let len = src.word().clamp(1, 4) as usize;
        let mask = src.word();
        let reqs = (0..len).map(|i| (crate::c07::small_req(src.word()), if (mask >> i) & 1 == 1 { Some(Fault::FailBefore) } else { None })).collect();
        Case { reqs, glue: vec![false; len], write_delay: vec![] }
    }

    fn run(&self, case: &Case) -> Outcome {
        C02.run(case)
    }

    fn describe(&self, case: &Case) -> Value {
        C02.describe(case)
    }

    fn rule(&self) -> &'static str {
        "exhaustive: every history of 1-4 requests on one keyspace (set / delete of keys {1,2} at four stamps of two origins, two of \
         them more than a forgiveness period after another of the same origin, each stamp used at most once, either source; purges \
         anywhere), none or any one of the requests hitting a storage failure; same oracle as set-vs-store after every request"
    }
}

pub fn parts() -> Vec<Box<dyn DynPart>> {
    vec![Box::new(Gen::new(C02, 300_000, 10_000_000)), Box::new(Gen::listed(C02Small, small_space))]
}

// ---------------------------------------------------------------------------------------
// Parts `sqlite-backend` / `lmdb-backend`: the same oracle with the bundled backends underneath (no fault
// injection: a real backend cannot be made to fail part-way on demand).

pub mod backend {
    use datacake_lmdb::LmdbStorage;
    use datacake_sqlite::SqliteStorage;
    use serde_json::{json, Value};

    use super::{req_json, Req, ReqGen};
    use crate::core::{Outcome, Prop, Src};
    use crate::registry::{DynPart, Gen};

    #[derive(Debug, Clone)]
    pub struct Case {
        pub reqs: Vec<Req>,
    }

    pub struct OnBackend {
        pub lmdb: bool,
    }

    impl Prop for OnBackend {
        type Case = Case;

        fn id(&self) -> &'static str {
            "C02"
        }

        fn part(&self) -> &'static str {
            if self.lmdb {
                "lmdb-backend"
            } else {
                "sqlite-backend"
            }
        }

        fn width(&self) -> usize {
            25 * 26 + 8
        }

        fn breadcrumbs(&self) -> bool {
            true
        }

        fn process_isolated(&self) -> bool {
            self.lmdb
        }

        fn shrink_budget(&self) -> usize {
            400
        }

        fn gen(&self, src: &mut Src) -> Case {
            let mut g = ReqGen::new(src);
            g.n_ks = 1 + src.below(3);
            let n = 1 + src.below(25);
            Case { reqs: (0..n).map(|_| g.req(src)).collect() }
        }

        fn run(&self, case: &Case) -> Outcome {
            let dir = crate::c17::scratch_dir();
            let lives = vec![case.reqs.clone()];
            let r = if self.lmdb {
                crate::c07::backend::run_lives_with::<LmdbStorage, _, _>(
                    &lives, &[],
                    &dir,
                    |d| async move { LmdbStorage::open(&d).await.map_err(|e| e.to_string()) },
                    |s: &LmdbStorage| Some(s.handle().env().clone()),
                    true,
                )
            } else {
                crate::c07::backend::run_lives_with::<SqliteStorage, _, _>(
                    &lives, &[],
                    &dir,
                    |d| async move { SqliteStorage::open(format!("{d}/db.sqlite")).await.map_err(|e| e.to_string()) },
                    |_| None,
                    true,
                )
            };
            let _ = std::fs::remove_dir_all(&dir);
            r
        }

        fn describe(&self, case: &Case) -> Value {
            json!(case.reqs.iter().map(req_json).collect::<Vec<_>>())
        }

        fn rule(&self) -> &'static str {
            "1-25 keyspace requests (set / del / bulk / purge with generated stamps, origins, sources, 1-3 keyspaces) on \
             a real KeyspaceGroup over the real SqliteStorage (file) / LmdbStorage in /dev/shm; oracle: after every \
             request and for every keyspace the deserialised set (live ids, tombstones, stamps) equals what \
             iter_metadata of the backend returns, and the same again after closing, reopening and reloading; \
             non-trivial = the final state holds >=1 tombstone and >=1 live id"
        }
    }

    // -----------------------------------------------------------------------------------------------------------
    // Part `lmdb-map-full` (after the seeded change `C02m`): the one storage fault a real backend produces on demand.
    // The LMDB backend opens its environment with a 10 MiB map; a bulk request whose documents do not fit fails with
    // MDB_MAP_FULL somewhere inside the call. Whatever the backend then reports as written — nothing, for a backend
    // that writes a bulk in one transaction — is what the set has to show.

    #[derive(Debug, Clone)]
    pub struct BigBulk {
        pub ks: usize,
        pub source: usize,
        pub first_key: u64,
        pub n: usize,
        pub len: usize,
        pub shared_stamp: bool,
        pub delete: bool,
        pub wide: bool,
    }

    #[derive(Debug, Clone)]
    pub struct FullCase {
        pub pre: Vec<Req>,
        pub bulks: Vec<BigBulk>,
        pub between: Vec<Req>,
        pub restart_after: Option<usize>,
    }

    pub struct MapFull;

    fn expand(i: usize, b: &BigBulk) -> Req {
        let ws: Vec<super::W> = (0..b.n)
            .map(|j| {
                let k = b.first_key + j as u64;
                super::W {
                    key: if b.wide { super::wide_id(k) } else { k },
                    stamp: crate::model::Stamp { secs: 200_000 + 10 * i as u64, frac: 0, counter: if b.shared_stamp { 0 } else { j as u16 }, node: 1 },
                    len: b.len,
                }
            })
            .collect();
        if b.delete {
            Req::MultiDel { ks: b.ks, source: b.source, ws }
        } else {
            Req::MultiSet { ks: b.ks, source: b.source, ws }
        }
    }

    impl Prop for MapFull {
        type Case = FullCase;

        fn id(&self) -> &'static str {
            "C02"
        }

        fn part(&self) -> &'static str {
            "lmdb-map-full"
        }

        fn width(&self) -> usize {
            4 * 26 + 60
        }

        fn breadcrumbs(&self) -> bool {
            true
        }

        fn process_isolated(&self) -> bool {
            true
        }

        fn shrink_budget(&self) -> usize {
            60
        }

        fn gen(&self, src: &mut Src) -> FullCase {
            let mut g = ReqGen::new(src);
            g.n_ks = 1 + src.below(2);
            let pre = (0..src.below(3)).map(|_| g.req(src)).collect();
            let n_bulks = 2 + src.below(3);
            let mut bulks = vec![];
            for _ in 0..n_bulks {
                let delete = !bulks.is_empty() && src.chance(1, 4);
                bulks.push(BigBulk {
                    ks: src.below(g.n_ks),
                    source: src.below(2),
                    first_key: *src.pick(&[1u64, 1, 500, 3_001, 6_000]),
                    n: *src.pick(&[1_025usize, 1_100, 1_500, 2_048, 2_049, 3_000, 700]),
                    len: if delete { 0 } else { *src.pick(&[3_000usize, 5_000, 9_000, 2_000, 40]) },
                    shared_stamp: src.chance(1, 2),
                    delete,
                    wide: src.chance(1, 3),
                });
            }
            let between = (0..src.below(3)).map(|_| g.req(src)).collect();
            let restart_after = if src.chance(1, 2) { Some(src.below(n_bulks)) } else { None };
            FullCase { pre, bulks, between, restart_after }
        }

        fn run(&self, case: &FullCase) -> Outcome {
            let dir = crate::c17::scratch_dir();
            let mut lives: Vec<Vec<Req>> = vec![case.pre.clone()];
            for (i, b) in case.bulks.iter().enumerate() {
                lives.last_mut().unwrap().push(expand(i, b));
                if i == 0 {
                    lives.last_mut().unwrap().extend(case.between.iter().cloned());
                }
                if case.restart_after == Some(i) {
                    lives.push(vec![]);
                }
            }
            let r = crate::c07::backend::run_lives_with::<LmdbStorage, _, _>(
                &lives, &[],
                &dir,
                |d| async move { LmdbStorage::open(&d).await.map_err(|e| e.to_string()) },
                |s: &LmdbStorage| Some(s.handle().env().clone()),
                true,
            );
            let _ = std::fs::remove_dir_all(&dir);
            let mut pass = r?;
            let bytes: usize = case.bulks.iter().filter(|b| !b.delete).map(|b| b.n * b.len).sum();
            pass.labels.clear();
            if bytes > 10 << 20 {
                pass.labels.push("documents_exceed_the_10MiB_map");
            }
            if case.bulks.iter().any(|b| !b.delete && b.n > 1024 && b.n * b.len > 10 << 20) {
                pass.labels.push("one_bulk_alone_exceeds_the_map");
            }
            if case.bulks.iter().any(|b| b.delete) {
                pass.labels.push("bulk_delete");
            }
            if case.restart_after.is_some() {
                pass.labels.push("restart");
            }
            pass.nontrivial = bytes > 10 << 20;
            Ok(pass)
        }

        fn describe(&self, case: &FullCase) -> Value {
            json!({
                "small_requests_first": case.pre.iter().map(req_json).collect::<Vec<_>>(),
                "bulk_requests": case.bulks.iter().map(|b| json!({
                    "ks": b.ks, "source": b.source, "kind": if b.delete { "multi_del" } else { "multi_set" }, "first_id": b.first_key, "ids": b.n,
                    "bytes_per_document": b.len, "one_shared_stamp": b.shared_stamp, "ids_spread_over_u64": b.wide,
                })).collect::<Vec<_>>(),
                "small_requests_after_the_first_bulk": case.between.iter().map(req_json).collect::<Vec<_>>(),
                "restart_after_bulk": case.restart_after,
            })
        }

        fn rule(&self) -> &'static str {
            "a real KeyspaceGroup over the real LmdbStorage (10 MiB map) in /dev/shm; 0-2 small requests, then 2-4 bulk requests of 700-3000              documents of 40-9000 bytes each (multi_set; one in four after the first is a multi_del of as many ids) on 1-2 keyspaces, both sources,              ids consecutive or spread over the u64 range, one shared stamp or one per document, small requests in between, optionally a restart              after one of the bulks; the documents of a case often exceed the map, so a bulk fails inside the backend (MDB_MAP_FULL); oracle as in              part lmdb-backend: after EVERY request, failed ones included, the set equals iter_metadata and every live document is readable at its              stamp, and the same after close + reopen + reload; non-trivial = the documents of the case exceed 10 MiB"
        }
    }

    pub fn parts() -> Vec<Box<dyn DynPart>> {
        vec![
            Box::new(Gen::new(OnBackend { lmdb: false }, 6_000, 200_000)),
            Box::new(Gen::new(OnBackend { lmdb: true }, 20_000, 600_000)),
            Box::new(Gen::new(MapFull, 400, 12_000)),
        ]
    }
}

pub fn parts_all() -> Vec<Box<dyn DynPart>> {
    let mut p = parts();
    p.extend(backend::parts());
    p
}
