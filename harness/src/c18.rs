//! C18 — a keyspace has one state, even when first used by many tasks at once.

use serde_json::{json, Value};

use crate::core::{Outcome, Pass, Prop, Src};
use crate::e2::{self, actor_view};
use crate::ensure;
use crate::model::Stamp;
use crate::registry::{DynPart, Gen};
use crate::store::ModelStore;

#[derive(Debug, Clone, Copy, PartialEq, Eq)]
pub enum Kind {
    /// local client write (source 0)
    Put,
    /// local client delete
    Del,
    /// incoming replication batch (MultiSet on source 0)
    Batch,
    /// read repair (MultiSet on source 1)
    Repair,
    /// a peer polling the state (get_or_create + Serialize), no mutation
    Poll,
}

#[derive(Debug, Clone)]
pub struct Task {
    pub kind: Kind,
    pub pre_yields: usize,
    pub mid_yields: usize,
    pub ks: usize,
}

#[derive(Debug, Clone)]
pub struct Case {
    pub tasks: Vec<Task>,
    pub multi_thread: bool,
}

pub struct C18 {
    pub multi_thread: bool,
}

impl Prop for C18 {
    type Case = Case;

    fn id(&self) -> &'static str {
        "C18"
    }

    fn part(&self) -> &'static str {
        if self.multi_thread {
            "first-use-4-workers"
        } else {
            "first-use-owned-schedule"
        }
    }

    fn width(&self) -> usize {
        40
    }

    fn gen(&self, src: &mut Src) -> Case {
        let k = 2 + src.below(5);
        let n_ks = 1 + src.below(2);
        let tasks = (0..k)
            .map(|_| Task {
                kind: *src.pick(&[Kind::Put, Kind::Put, Kind::Del, Kind::Batch, Kind::Repair, Kind::Poll]),
                pre_yields: src.below(4),
                mid_yields: src.below(4),
                ks: src.below(n_ks),
            })
            .collect();
        Case { tasks, multi_thread: self.multi_thread }
    }

    fn run(&self, case: &Case) -> Outcome {
        if case.multi_thread {
            // the OS owns the schedule: repeat to sample several
            let mut last = None;
            for _ in 0..10 {
                let rt = tokio::runtime::Builder::new_multi_thread().worker_threads(4).enable_all().build().unwrap();
                let out = rt.block_on(run(case));
                rt.shutdown_background();
                last = Some(out?);
            }
            Ok(last.unwrap())
        } else {
            e2::block_on_sim(60_000_000, e2::no_skew(), run(case))
        }
    }

    fn describe(&self, case: &Case) -> Value {
        json!({
            "runtime": if case.multi_thread { "4 workers (OS schedule, 10 repetitions)" } else { "current-thread (schedule = generated yields)" },
            "tasks": case.tasks.iter().map(|t| format!("{:?} ks{} yields {}+{}", t.kind, t.ks, t.pre_yields, t.mid_yields)).collect::<Vec<_>>(),
        })
    }

    fn rule(&self) -> &'static str {
        "2-6 concurrent tasks on 1-2 *fresh* keyspace names of a real KeyspaceGroup; each task yields 0-3 times, calls \
         get_or_create_keyspace, yields 0-3 times, then sends one mutation on its own key (client put/delete, \
         replication batch, read-repair batch) or just polls the state; oracle: the mailbox a LATER lookup returns \
         serialises a set that contains every acknowledged mutation, and equals storage; non-trivial = at least two \
         tasks use the same keyspace with pre-lookup yield counts differing by at most one"
    }
}

async fn run(case: &Case) -> Outcome {
    let store = ModelStore::default();
    let group = e2::new_group(store.clone(), 9).await;
    let mut handles = vec![];
    for (i, t) in case.tasks.iter().enumerate() {
        let g = group.clone();
        let t = t.clone();
        handles.push(tokio::spawn(async move {
            for _ in 0..t.pre_yields {
                tokio::task::yield_now().await;
            }
            let name = format!("fresh{}", t.ks);
            let mailbox = g.get_or_create_keyspace(&name).await;
            for _ in 0..t.mid_yields {
                tokio::task::yield_now().await;
            }
            let key = 100 + i as u64;
            let stamp = Stamp { secs: 70_000_000 + i as u64, frac: 0, counter: 0, node: 1 + (i % 3) as u8 };
            let acked = match t.kind {
                Kind::Put => mailbox.send(e2::msg_set(0, e2::doc(key, stamp, 3))).await.is_ok(),
                Kind::Del => mailbox.send(e2::msg_del(0, e2::meta(key, stamp))).await.is_ok(),
                Kind::Batch => mailbox.send(e2::msg_multi_set(0, vec![e2::doc(key, stamp, 3)])).await.is_ok(),
                Kind::Repair => mailbox.send(e2::msg_multi_set(1, vec![e2::doc(key, stamp, 3)])).await.is_ok(),
                Kind::Poll => {
                    let _ = mailbox.send(datacake_eventual_consistency::verif::Serialize).await;
                    false
                },
            };
            (t, key, stamp, acked)
        }));
    }
    let mut acked = vec![];
    for h in handles {
        let (t, key, stamp, ok) = h.await.expect("task");
        if ok {
            acked.push((t, key, stamp));
        }
    }
    for ks in 0..2 {
        let name = format!("fresh{ks}");
        if group.verif_get(&name).is_none() {
            continue;
        }
        // a later lookup
        let _ = group.get_or_create_keyspace(&name).await;
        let v = actor_view(&group, &name).await;
        for (t, key, stamp) in acked.iter().filter(|(t, _, _)| t.ks == ks) {
            let held = if t.kind == Kind::Del { v.dead.get(key) } else { v.live.get(key) };
            ensure!(
                held == Some(stamp),
                "acked-mutation-missing-from-keyspace-state",
                "keyspace {name}: {:?} of key {key} at {:?} was acknowledged but the state a later lookup returns holds {:?} (state: {:?})",
                t.kind,
                stamp,
                held,
                v
            );
        }
        let st = e2::store_view(&store, &name);
        ensure!(v == st, "state-differs-from-storage", "keyspace {name}: state {:?} but storage {:?}", v, st);
    }
    let mut close = false;
    for (i, a) in case.tasks.iter().enumerate() {
        for b in case.tasks.iter().skip(i + 1) {
            if a.ks == b.ks && (a.pre_yields as i64 - b.pre_yields as i64).abs() <= 1 {
                close = true;
            }
        }
    }
    let mut labels = vec![];
    if case.tasks.iter().any(|t| t.kind == Kind::Repair) {
        labels.push("with_repair_caller");
    }
    if case.tasks.iter().any(|t| t.kind == Kind::Batch) {
        labels.push("with_replication_caller");
    }
    if close {
        labels.push("overlapping_first_use");
    }
    Ok(Pass { nontrivial: close, labels })
}

pub fn parts() -> Vec<Box<dyn DynPart>> {
    vec![
        Box::new(Gen::new(C18 { multi_thread: false }, 20_000, 1_000_000)),
        Box::new(Gen::new(C18 { multi_thread: true }, 300, 10_000)),
    ]
}
