//! C18 — a keyspace has one state, even when first used by many tasks at once.

use serde_json::{json, Value};

use crate::core::{Outcome, Pass, Prop, Src};
use crate::e2::{self, actor_view};
use crate::ensure;
use crate::model::Stamp;
use crate::registry::{DynPart, Gen};
use crate::store::ModelStore;

#[derive(Debug, Clone, Copy, PartialEq, Eq)]
pub enum Kind {
    /// local client write (source 0)
    Put,
    /// local client delete
    Del,
    /// incoming replication batch (MultiSet on source 0)
    Batch,
    /// read repair (MultiSet on source 1)
    Repair,
    /// a peer polling the state (get_or_create + Serialize), no mutation
    Poll,
}

#[derive(Debug, Clone)]
pub struct Task {
    pub kind: Kind,
    pub pre_yields: usize,
    pub mid_yields: usize,
    pub ks: usize,
    /// the task is cancelled (its future dropped, like an RPC handler whose connection went away) at its n-th
    /// suspension point: it is polled n times and dropped instead of being polled again
    pub cancel_after: Option<usize>,
}

#[derive(Debug, Clone)]
pub struct Case {
    pub tasks: Vec<Task>,
    pub multi_thread: bool,
    /// simulated latency of every storage call (paused-time part only)
    pub storage_latency_ms: u64,
}

pub struct C18 {
    pub multi_thread: bool,
}

impl Prop for C18 {
    type Case = Case;

    fn id(&self) -> &'static str {
        "C18"
    }

    fn part(&self) -> &'static str {
        if self.multi_thread {
            "first-use-4-workers"
        } else {
            "first-use-owned-schedule"
        }
    }

    fn width(&self) -> usize {
        40
    }

    fn gen(&self, src: &mut Src) -> Case {
        let k = 2 + src.below(5);
        let n_ks = 1 + src.below(2);
        let tasks = (0..k)
            .map(|_| Task {
                kind: *src.pick(&[Kind::Put, Kind::Put, Kind::Del, Kind::Batch, Kind::Repair, Kind::Poll]),
                pre_yields: src.below(4),
                mid_yields: src.below(4),
                ks: src.below(n_ks),
                cancel_after: if !self.multi_thread && src.chance(1, 4) { Some(1 + src.below(24)) } else { None },
            })
            .collect();
        let storage_latency_ms = if self.multi_thread { 0 } else { *src.pick(&[0u64, 0, 1, 3]) };
        Case { tasks, multi_thread: self.multi_thread, storage_latency_ms }
    }

    fn run(&self, case: &Case) -> Outcome {
        if case.multi_thread {
            // the OS owns the schedule: repeat to sample several
            let mut last = None;
            for _ in 0..10 {
                let rt = tokio::runtime::Builder::new_multi_thread().worker_threads(4).enable_all().build().unwrap();
                let out = rt.block_on(run(case));
                rt.shutdown_background();
                last = Some(out?);
            }
            Ok(last.unwrap())
        } else {
            e2::block_on_sim(60_000_000, e2::no_skew(), run(case))
        }
    }

    fn describe(&self, case: &Case) -> Value {
        json!({
            "runtime": if case.multi_thread { "4 workers (OS schedule, 10 repetitions)" } else { "current-thread (schedule = generated yields)" },
            "storage_latency_ms": case.storage_latency_ms,
            "tasks": case.tasks.iter().map(|t| format!("{:?} ks{} yields {}+{}{}", t.kind, t.ks, t.pre_yields, t.mid_yields, t.cancel_after.map(|n| format!(" dropped at suspension point {n}")).unwrap_or_default())).collect::<Vec<_>>(),
        })
    }

    fn rule(&self) -> &'static str {
        "2-6 concurrent tasks on 1-2 *fresh* keyspace names of a real KeyspaceGroup (storage calls take 0-3 simulated ms on the owned schedule); each task yields 0-3 times, calls \
         get_or_create_keyspace, yields 0-3 times, then sends one mutation on its own key (client put/delete, \
         replication batch, read-repair batch) or just polls the state; on the owned schedule a quarter of the tasks is cancelled (future dropped) at a \
         generated suspension point (polled n times, then dropped); oracle: the mailbox a LATER lookup returns \
         serialises a set that contains every acknowledged mutation, and equals storage, and a keyspace holding an \
         acknowledged mutation is listed in the keyspace info peers poll; non-trivial = at least two \
         tasks use the same keyspace with pre-lookup yield counts differing by at most one"
    }
}

/// Polls the wrapped future at most `polls_left` times; when it would be polled once more it is dropped instead:
/// the task is cancelled while suspended at its `polls_left`-th suspension point.
struct DropAfter<F: std::future::Future> {
    inner: Option<std::pin::Pin<Box<F>>>,
    polls_left: Option<usize>,
}

impl<F: std::future::Future> std::future::Future for DropAfter<F> {
    type Output = Option<F::Output>;

    fn poll(self: std::pin::Pin<&mut Self>, cx: &mut std::task::Context<'_>) -> std::task::Poll<Self::Output> {
        // `Pin<Box<F>>` is Unpin, so the wrapper is too
        let this = self.get_mut();
        if let Some(left) = this.polls_left.as_mut() {
            if *left == 0 {
                this.inner = None;
                return std::task::Poll::Ready(None);
            }
            *left -= 1;
        }
        match this.inner.as_mut() {
            Some(f) => f.as_mut().poll(cx).map(Some),
            None => std::task::Poll::Ready(None),
        }
    }
}

async fn run(case: &Case) -> Outcome {
    let store = ModelStore::default();
    {
        let mut g = store.inner.lock();
        g.write_latency_ms = case.storage_latency_ms;
        g.read_latency_ms = case.storage_latency_ms;
    }
    let group = e2::new_group(store.clone(), 9).await;
    let mut handles = vec![];
    for (i, t) in case.tasks.iter().enumerate() {
        let g = group.clone();
        let t = t.clone();
        let cancel_after = t.cancel_after;
        let body = async move {
            for _ in 0..t.pre_yields {
                tokio::task::yield_now().await;
            }
            let name = format!("fresh{}", t.ks);
            let mailbox = g.get_or_create_keyspace(&name).await;
            for _ in 0..t.mid_yields {
                tokio::task::yield_now().await;
            }
            let key = 100 + i as u64;
            let stamp = Stamp { secs: 70_000_000 + i as u64, frac: 0, counter: 0, node: 1 + (i % 3) as u8 };
            let acked = match t.kind {
                Kind::Put => mailbox.send(e2::msg_set(0, e2::doc(key, stamp, 3))).await.is_ok(),
                Kind::Del => mailbox.send(e2::msg_del(0, e2::meta(key, stamp))).await.is_ok(),
                Kind::Batch => mailbox.send(e2::msg_multi_set(0, vec![e2::doc(key, stamp, 3)])).await.is_ok(),
                Kind::Repair => mailbox.send(e2::msg_multi_set(1, vec![e2::doc(key, stamp, 3)])).await.is_ok(),
                Kind::Poll => {
                    let _ = mailbox.send(datacake_eventual_consistency::verif::Serialize).await;
                    false
                },
            };
            (t, key, stamp, acked)
        };
        handles.push(tokio::spawn(DropAfter { inner: Some(Box::pin(body)), polls_left: cancel_after }));
    }
    let mut acked = vec![];
    let mut cancelled = 0;
    for h in handles {
        match h.await.expect("task") {
            Some((t, key, stamp, ok)) => {
                if ok {
                    acked.push((t, key, stamp));
                }
            },
            None => cancelled += 1,
        }
    }
    // what peers poll to decide which keyspaces to synchronise
    let advertised = group.get_keyspace_info().await.keyspace_timestamps;

    for ks in 0..2 {
        let name = format!("fresh{ks}");
        if group.verif_get(&name).is_none() {
            continue;
        }
        // a later lookup
        let _ = group.get_or_create_keyspace(&name).await;
        let v = actor_view(&group, &name).await;
        for (t, key, stamp) in acked.iter().filter(|(t, _, _)| t.ks == ks) {
            let held = if t.kind == Kind::Del { v.dead.get(key) } else { v.live.get(key) };
            ensure!(
                held == Some(stamp),
                "acked-mutation-missing-from-keyspace-state",
                "keyspace {name}: {:?} of key {key} at {:?} was acknowledged but the state a later lookup returns holds {:?} (state: {:?})",
                t.kind,
                stamp,
                held,
                v
            );
        }
        let st = e2::store_view(&store, &name);
        ensure!(v == st, "state-differs-from-storage", "keyspace {name}: state {:?} but storage {:?}", v, st);
        if acked.iter().any(|(t, _, _)| t.ks == ks) {
            ensure!(
                advertised.contains_key(&name),
                "keyspace-with-accepted-operations-not-advertised",
                "keyspace {name} holds acknowledged mutations but the keyspace info peers poll lists only {:?}: no peer will ever synchronise against it",
                advertised.keys().collect::<Vec<_>>()
            );
        }
    }
    let mut close = false;
    for (i, a) in case.tasks.iter().enumerate() {
        for b in case.tasks.iter().skip(i + 1) {
            if a.ks == b.ks && (a.pre_yields as i64 - b.pre_yields as i64).abs() <= 1 {
                close = true;
            }
        }
    }
    let mut labels = vec![];
    if case.tasks.iter().any(|t| t.kind == Kind::Repair) {
        labels.push("with_repair_caller");
    }
    if case.tasks.iter().any(|t| t.kind == Kind::Batch) {
        labels.push("with_replication_caller");
    }
    if close {
        labels.push("overlapping_first_use");
    }
    if cancelled > 0 {
        labels.push("a_first_user_was_cancelled");
    }
    if case.storage_latency_ms > 0 {
        labels.push("slow_storage");
    }
    Ok(Pass { nontrivial: close, labels })
}

pub fn parts() -> Vec<Box<dyn DynPart>> {
    vec![
        Box::new(Gen::new(C18 { multi_thread: false }, 200_000, 10_000_000)),
        Box::new(Gen::new(C18 { multi_thread: true }, 300, 10_000)),
    ]
}

// ---------------------------------------------------------------------------------------
// Part `startup-under-traffic` (E3): "for the life of the node" includes its first moments.  A node that
// already holds keyspaces in storage starts while its peers keep replicating to it; whatever it accepts in
// that window must end up in the one set that later lookups return.

pub mod startup {
    use std::collections::BTreeMap;
    use std::time::Duration;

    use serde_json::{json, Value};

    use crate::c01::{gen_nodes, gen_op, ks_name, op_json, run_op, Op};
    use crate::core::{Outcome, Pass, Prop, Src};
    use crate::e2::{actor_view, store_view};
    use crate::e3::{self, Layout};
    use crate::ensure;
    use crate::registry::{DynPart, Gen};

    #[derive(Debug, Clone)]
    pub struct Case {
        pub nodes: Vec<(u8, String)>,
        pub before: Vec<Op>,
        pub victim: usize,
        /// operations issued at the other nodes while the node starts: (sleep ms, extra yields, op)
        pub during: Vec<(u64, usize, Op)>,
        /// latency of the storage reads the start performs (keyspace list, metadata of each keyspace)
        pub read_latency_ms: u64,
        pub seed: u64,
    }

    pub struct Startup;

    impl Prop for Startup {
        type Case = Case;

        fn id(&self) -> &'static str {
            "C18"
        }

        fn part(&self) -> &'static str {
            "startup-under-traffic"
        }

        fn width(&self) -> usize {
            120
        }

        fn shrink_budget(&self) -> usize {
            400
        }

        fn breadcrumbs(&self) -> bool {
            true
        }

        fn gen(&self, src: &mut Src) -> Case {
            let nodes = gen_nodes(src, 3);
            let n = nodes.len();
            let n_keys = 1 + src.below64(3);
            let victim = src.below(n);
            let before = (0..1 + src.below(6)).map(|_| gen_op(src, n, 2, n_keys)).collect();
            let others: Vec<usize> = (0..n).filter(|i| *i != victim).collect();
            let mut during = vec![];
            for _ in 0..1 + src.below(4) {
                let pick = others[src.below(others.len())];
                // direct replication to every node (level All = 3) most of the time
                let level = *src.pick(&[3usize, 3, 3, 0, 1]);
                let op = match gen_op(src, n, 2, n_keys) {
                    Op::Put { ks, key, len, .. } => Op::Put { node: pick, ks, key, len, level },
                    Op::PutMany { ks, keys, len, .. } => Op::PutMany { node: pick, ks, keys, len, level },
                    Op::Del { ks, key, .. } => Op::Del { node: pick, ks, key, level },
                    Op::DelMany { ks, keys, .. } => Op::DelMany { node: pick, ks, keys, level },
                    _ => Op::Put { node: pick, ks: 0, key: 1, len: 3, level },
                };
                // the node's start takes 20 ms of simulated time before the extension is created
                let sleep = match src.weighted(&[4, 1]) {
                    0 => 20 + src.below64(25),
                    _ => *src.pick(&[0u64, 10, 19]),
                };
                during.push((sleep, src.below(12), op));
            }
            let read_latency_ms = *src.pick(&[0u64, 1, 4, 9]);
            Case { nodes, before, victim, during, read_latency_ms, seed: src.word() }
        }

        fn run(&self, case: &Case) -> Outcome {
            e3::sim(case.seed, 70_000_000, BTreeMap::new(), |_net| run(case))
        }

        fn describe(&self, case: &Case) -> Value {
            json!({
                "nodes": case.nodes,
                "before_the_stop": case.before.iter().map(op_json).collect::<Vec<_>>(),
                "restarting_node": case.nodes[case.victim].0,
                "storage_read_latency_ms": case.read_latency_ms,
                "issued_elsewhere_while_it_starts": case.during.iter().map(|(ms, y, op)| json!({"after_ms": ms, "extra_yields": y, "op": op_json(op)})).collect::<Vec<_>>(),
            })
        }

        fn rule(&self) -> &'static str {
            "2-3 real nodes with the eventual-consistency extension; 1-6 operations fill the cluster, one node is stopped \
             (between poller cycles) and started again on its storage while 1-4 operations are issued at the other nodes \
             (mostly level All, i.e. replicated to it directly) at generated instants around the moment its extension \
             loads the persisted state (the start reaches the load after 20 ms of simulated time; storage answers the \
             keyspace list and each metadata read 0-9 ms after taking the snapshot; operations start 0-44 ms in plus 0-11 \
             yields); oracle: once \
             the start and the operations have returned, for every keyspace the node's storage holds, every entry in \
             storage (= every operation the node accepted) is in the set that a fresh lookup of the keyspace serialises, \
             with the same or a newer stamp, and that set holds nothing storage lacks; non-trivial = the node held state \
             before the restart and accepted >=1 replicated operation during or right after the start"
        }
    }

    async fn run(case: &Case) -> Outcome {
        let repair = Duration::from_secs(30);
        let layout = Layout { nodes: case.nodes.clone(), repair_interval: repair, storage_latency_ms: Default::default() };
        let mut nodes = e3::start_cluster(&layout).await;
        let t0 = tokio::time::Instant::now();
        for op in &case.before {
            run_op(&nodes, op).await;
        }
        e3::align_after_poller_cycle(t0, repair).await;
        e3::advance(700).await;
        let held_before: usize = (0..2).map(|k| nodes[case.victim].store.metadata(&ks_name(k)).len()).sum();
        let victim = nodes.remove(case.victim);
        let (id, dc, store) = e3::kill_node(victim).await;
        let writes_before = store.inner.lock().log.len();
        store.inner.lock().read_latency_ms = case.read_latency_ms;

        let members = e3::members_of(&case.nodes);
        let start = e3::start_node(id, &dc, store.restart(), &members, repair);
        let remap = |n: usize| -> usize {
            let want = case.nodes[n].0;
            nodes.iter().position(|x| x.id == want).unwrap_or(0)
        };
        let traffic = async {
            let futs: Vec<_> = case
                .during
                .iter()
                .map(|(ms, yields, op)| {
                    let mapped = match op.clone() {
                        Op::Put { node, ks, key, len, level } => Op::Put { node: remap(node), ks, key, len, level },
                        Op::PutMany { node, ks, keys, len, level } => Op::PutMany { node: remap(node), ks, keys, len, level },
                        Op::Del { node, ks, key, level } => Op::Del { node: remap(node), ks, key, level },
                        Op::DelMany { node, ks, keys, level } => Op::DelMany { node: remap(node), ks, keys, level },
                        o => o,
                    };
                    let nodes = &nodes;
                    async move {
                        tokio::time::sleep(Duration::from_millis(*ms)).await;
                        for _ in 0..*yields {
                            tokio::task::yield_now().await;
                        }
                        if std::env::var_os("VP_DEBUG").is_some() {
                            eprintln!("DEBUG op starts {:?}", mapped);
                        }
                        let r = run_op(nodes, &mapped).await;
                        if std::env::var_os("VP_DEBUG").is_some() {
                            eprintln!("DEBUG op done {:?}", r);
                        }
                    }
                })
                .collect();
            futures::future::join_all(futs).await;
        };
        let (fresh, _) = futures::future::join(start, traffic).await;
        // let handlers that are still running finish (no repair cycle runs within this time)
        e3::advance(50).await;
        fresh.store.inner.lock().read_latency_ms = 0;

        let group = fresh.handle.verif_group().clone();
        let accepted = fresh.store.inner.lock().log.len() - writes_before;
        for name in fresh.store.keyspace_names() {
            let set = actor_view(&group, &name).await;
            let st = store_view(&fresh.store, &name);
            for (key, t, dead) in st.live.iter().map(|(k, t)| (k, t, false)).chain(st.dead.iter().map(|(k, t)| (k, t, true))) {
                let now = set.live.get(key).or_else(|| set.dead.get(key));
                ensure!(
                    matches!(now, Some(n) if n >= t),
                    "accepted-operation-missing-from-set",
                    "node {id}, keyspace {name}: storage holds id {key} ({}) at {:?}, i.e. the node accepted that operation, but the set a fresh lookup returns holds {:?}",
                    if dead { "tombstone" } else { "live" },
                    t,
                    now
                );
            }
            ensure!(set == st, "set-differs-from-storage", "node {id}, keyspace {name}: the keyspace's set {:?} differs from storage {:?}", set, st);
        }
        let mut labels = vec![];
        if accepted > 0 {
            labels.push("accepted_replication_around_start");
        }
        drop(nodes);
        drop(fresh);
        Ok(Pass { nontrivial: held_before > 0 && accepted > 0, labels })
    }

    pub fn parts() -> Vec<Box<dyn DynPart>> {
        vec![Box::new(Gen::new(Startup, 60_000, 3_000_000))]
    }
}

// ---------------------------------------------------------------------------------------
// Part `first-use-vs-repair` (E3): the repair path is a first user too.  A node learns of keyspaces it has never
// seen from a peer's poll reply at the very moment local clients use the same names for the first time.

pub mod repair_race {
    use std::collections::BTreeMap;
    use std::time::Duration;

    use datacake_node::Consistency;
    use serde_json::{json, Value};

    use crate::c01::ks_name;
    use crate::core::{Outcome, Pass, Prop, Src};
    use crate::e2::{actor_view, store_view};
    use crate::e3::{self, Layout};
    use crate::ensure;
    use crate::registry::{DynPart, Gen};

    #[derive(Debug, Clone)]
    pub struct Case {
        /// keyspaces (with one document each) that exist on the peer only
        pub peer_keyspaces: usize,
        /// local first uses on the fresh node: (ms after its poller tick, extra yields, keyspace, key)
        pub writes: Vec<(u64, usize, usize, u64)>,
        /// kind of each local first use: 0 put, 1 del, 2 put_many, 3 del_many
        pub kinds: Vec<u8>,
        /// indices of the fresh node's mutating storage calls that fail (nothing written), reported after `fail_latency_ms`
        pub failing_calls: Vec<u64>,
        pub fail_latency_ms: u64,
        pub storage_latency_ms: u64,
        pub seed: u64,
    }

    pub struct RepairRace;

    impl Prop for RepairRace {
        type Case = Case;

        fn id(&self) -> &'static str {
            "C18"
        }

        fn part(&self) -> &'static str {
            "first-use-vs-repair"
        }

        fn width(&self) -> usize {
            40
        }

        fn shrink_budget(&self) -> usize {
            300
        }

        fn breadcrumbs(&self) -> bool {
            true
        }

        fn gen(&self, src: &mut Src) -> Case {
            let peer_keyspaces = 1 + src.below(6);
            let writes: Vec<(u64, usize, usize, u64)> =
                (0..1 + src.below(4)).map(|_| (*src.pick(&[0u64, 0, 0, 0, 1, 3]), src.below(12), src.below(peer_keyspaces + 1), 50 + src.below64(3))).collect();
            let storage_latency_ms = *src.pick(&[0u64, 1, 3]);
            let seed = src.word();
            // drawn after everything else, so that the cases of earlier versions keep their meaning
            let kinds = writes.iter().map(|_| *src.pick(&[0u8, 0, 0, 1, 2, 3])).collect();
            let failing_calls = if src.chance(1, 2) { (0..1 + src.below(2)).map(|_| src.below64(5)).collect() } else { vec![] };
            let fail_latency_ms = *src.pick(&[0u64, 1, 2, 5]);
            Case { peer_keyspaces, writes, kinds, failing_calls, fail_latency_ms, storage_latency_ms, seed }
        }

        fn run(&self, case: &Case) -> Outcome {
            e3::sim(case.seed, 70_000_000, BTreeMap::new(), |net| run(case, net))
        }

        fn describe(&self, case: &Case) -> Value {
            json!({
                "keyspaces_only_the_peer_holds": case.peer_keyspaces,
                "storage_latency_ms_of_the_fresh_node": case.storage_latency_ms,
                "local_first_uses_(ms_after_the_poller_tick,clock_round_trips,keyspace,key)": case.writes,
                "kind_of_each_local_first_use_(0_put,1_del,2_put_many,3_del_many)": case.kinds,
                "failing_storage_calls_of_the_fresh_node_(index_among_its_mutating_calls)": case.failing_calls,
                "failure_reported_after_ms": case.fail_latency_ms,
            })
        }

        fn rule(&self) -> &'static str {
            "two real nodes; node 1 holds 1-6 keyspaces node 2 has never heard of (everything addressed to node 2 is \
             dropped, it can only poll); at node 2's next poller tick -- when its repair path meets those names for the \
             first time -- 1-4 local client operations (put, del, put_many, del_many through the public handle; in half of the cases one or two of the node's              first five storage writes fail, the failure being reported 0-5 ms later) use the same names (or one more fresh name) 0-3 ms and 0-11 clock round trips \
             after the tick (as spawned tasks, in lock-step with the repair path), on storage that takes 0-3 ms per call; oracle: afterwards every entry node 2's storage holds \
             is in the set a fresh lookup of the keyspace serialises (same or newer stamp) and the set equals storage; \
             non-trivial = a local write used a keyspace name the peer also holds"
        }
    }

    async fn run(case: &Case, net: e3::Net) -> Outcome {
        let repair = Duration::from_secs(5);
        let nodes_cfg = vec![(1u8, "dc-a".to_string()), (2u8, "dc-a".to_string())];
        let mut latency = BTreeMap::new();
        if case.storage_latency_ms > 0 {
            latency.insert(2u8, case.storage_latency_ms);
        }
        let layout = Layout { nodes: nodes_cfg, repair_interval: repair, storage_latency_ms: latency };
        let t_start = tokio::time::Instant::now();
        let nodes = e3::start_cluster(&layout).await;
        // node 2's extension exists 40 ms after the start: its poller ticks at +0.5 s and then every 5 s
        crate::c01::POLLER_CLOCK.with(|c| c.set(Some((t_start + Duration::from_millis(40), repair))));
        net.borrow_mut().dead.push(nodes[1].addr);
        // let the first poller tick (at 0.5 s) pass while nothing exists yet
        e3::advance(1_500).await;
        for k in 0..case.peer_keyspaces {
            let _ = nodes[0].handle.put(&ks_name(k), 1, vec![k as u8; 3], Consistency::None).await;
        }
        {
            let mut g = nodes[1].store.inner.lock();
            let base = g.mutating_calls;
            for k in &case.failing_calls {
                g.faults.insert(base + k, crate::store::Fault::FailBefore);
            }
            g.fail_latency_ms = case.fail_latency_ms;
        }
        // to node 2's next tick
        crate::c01::run_op(&nodes, &crate::c01::Op::ToPollerTick(0)).await;
        let shared = case.writes.iter().any(|(_, _, ks, _)| *ks < case.peer_keyspaces);
        // The writes run as spawned tasks: the future handed to `block_on` is polled only once per several dozen
        // task polls, so anything awaited directly in it would always find the repair chain already finished.
        let futs: Vec<_> = case
            .writes
            .iter()
            .zip(case.kinds.iter().copied())
            .map(|((ms, yields, ks, key), kind)| {
                let h = nodes[1].handle.clone();
                let clock = nodes[1].node.clock().clone();
                let name = ks_name(*ks);
                let (ms, yields, key) = (*ms, *yields, *key);
                tokio::spawn(async move {
                    // (a zero-length sleep still goes through the timer and would let the whole repair chain run first)
                    if ms > 0 {
                        tokio::time::sleep(Duration::from_millis(ms)).await;
                    }
                    // delay by whole request / reply exchanges with the node's clock actor: unlike `yield_now`
                    // (which waits for the end of the scheduler tick, i.e. until the poller's whole chain of
                    // channel wake-ups has run) this keeps the task in lock-step with the repair path
                    for _ in 0..yields {
                        let _ = clock.get_time().await;
                    }
                    match kind {
                        0 => drop(h.put(&name, key, vec![7u8; 2], Consistency::None).await),
                        1 => drop(h.del(&name, key, Consistency::None).await),
                        2 => drop(h.put_many(&name, vec![(key, vec![7u8; 2]), (key + 10, vec![8u8; 1])], Consistency::None).await),
                        _ => drop(h.del_many(&name, vec![key, key + 10], Consistency::None).await),
                    }
                })
            })
            .collect();
        futures::future::join_all(futs).await;
        e3::advance(800).await;
        crate::c01::POLLER_CLOCK.with(|c| c.set(None));

        let fresh = &nodes[1];
        let group = fresh.handle.verif_group().clone();
        for name in fresh.store.keyspace_names() {
            let set = actor_view(&group, &name).await;
            let st = store_view(&fresh.store, &name);
            for (key, t) in st.live.iter().chain(st.dead.iter()) {
                let now = set.live.get(key).or_else(|| set.dead.get(key));
                ensure!(
                    matches!(now, Some(n) if n >= t),
                    "accepted-operation-missing-from-set",
                    "node 2, keyspace {name}: storage holds id {key} at {:?}, i.e. the node accepted that operation, but the set a fresh lookup returns holds {:?}",
                    t,
                    now
                );
            }
            ensure!(set == st, "set-differs-from-storage", "node 2, keyspace {name}: the keyspace's set {:?} differs from storage {:?}", set, st);
        }
        let mut labels = vec![];
        if shared {
            labels.push("local_first_use_of_a_name_the_peer_holds");
        }
        if fresh.store.inner.lock().injected > 0 {
            labels.push("a_storage_write_failed");
        }
        Ok(Pass { nontrivial: shared, labels })
    }

    pub fn parts() -> Vec<Box<dyn DynPart>> {
        vec![Box::new(Gen::new(RepairRace, 40_000, 2_000_000))]
    }
}

// ---------------------------------------------------------------------------------------
// Part `first-use-through-rpc` (E3 transport, after the seeded change `C18n`): the first users of a keyspace name that
// arrive over the network. A peer's put / multi_put / delete / multi_delete / batch reaches the node's real
// `ConsistencyService` for a name the node has never heard of, while local client operations use the same name.

pub mod rpc_first_use {
    use std::collections::BTreeMap;
    use std::time::Duration;

    use datacake_eventual_consistency::verif::{BatchPayload, ConsistencyClient, MultiPutPayload, MultiRemovePayload};
    use datacake_node::{Clock, Consistency};
    use datacake_rpc::Channel;
    use serde_json::{json, Value};
    use smallvec::SmallVec;

    use crate::core::{Outcome, Pass, Prop, Src};
    use crate::e2::{actor_view, doc, meta, store_view};
    use crate::e3::{self, Layout};
    use crate::ensure;
    use crate::model::Stamp;
    use crate::registry::{DynPart, Gen};
    use crate::store::ModelStore;

    /// what one first user does: 0-3 local put / del / put_many / del_many, 4 peer put, 5 peer multi_put, 6 peer delete,
    /// 7 peer multi_delete, 8 peer batch carrying a removal and a modification, 9 peer batch carrying removals only
    #[derive(Debug, Clone)]
    pub struct User {
        pub kind: u8,
        pub ks: usize,
        pub delay_ms: u64,
        pub round_trips: usize,
    }

    #[derive(Debug, Clone)]
    pub struct Case {
        pub users: Vec<User>,
        pub storage_latency_ms: u64,
        pub failing_calls: Vec<u64>,
        pub fail_latency_ms: u64,
        pub seed: u64,
    }

    pub struct RpcFirstUse;

    impl Prop for RpcFirstUse {
        type Case = Case;

        fn id(&self) -> &'static str {
            "C18"
        }

        fn part(&self) -> &'static str {
            "first-use-through-rpc"
        }

        fn width(&self) -> usize {
            48
        }

        fn shrink_budget(&self) -> usize {
            300
        }

        fn breadcrumbs(&self) -> bool {
            true
        }

        fn gen(&self, src: &mut Src) -> Case {
            let n_ks = 1 + src.below(2);
            let users = (0..2 + src.below(5))
                .map(|_| User {
                    kind: *src.pick(&[0u8, 1, 2, 3, 4, 5, 6, 6, 7, 7, 8, 9]),
                    ks: src.below(n_ks),
                    delay_ms: *src.pick(&[0u64, 0, 0, 1, 3]),
                    round_trips: src.below(8),
                })
                .collect();
            let storage_latency_ms = *src.pick(&[0u64, 0, 1, 3]);
            let failing_calls = if src.chance(1, 3) { (0..1 + src.below(2)).map(|_| src.below64(5)).collect() } else { vec![] };
            let fail_latency_ms = *src.pick(&[0u64, 1, 2, 5]);
            Case { users, storage_latency_ms, failing_calls, fail_latency_ms, seed: src.word() }
        }

        fn run(&self, case: &Case) -> Outcome {
            e3::sim(case.seed, 70_000_000, BTreeMap::new(), |net| run(case, net))
        }

        fn describe(&self, case: &Case) -> Value {
            let names = ["local put", "local del", "local put_many", "local del_many", "peer put", "peer multi_put", "peer delete", "peer multi_delete", "peer batch (removal + modification)", "peer batch (removals only)"];
            json!({
                "first_users": case.users.iter().map(|u| json!({"does": names[u.kind as usize], "keyspace": format!("fresh{}", u.ks), "after_ms": u.delay_ms, "after_clock_round_trips": u.round_trips})).collect::<Vec<_>>(),
                "storage_latency_ms": case.storage_latency_ms,
                "failing_storage_calls_(index_among_the_mutating_calls)": case.failing_calls,
                "failure_reported_after_ms": case.fail_latency_ms,
            })
        }

        fn rule(&self) -> &'static str {
            "one real node with the real eventual-consistency extension behind the in-process transport; 2-6 first users of 1-2 keyspace names the \
             node has never heard of, started together as tasks of their own, each 0-3 ms and 0-7 clock round trips later: a local client \
             operation (put, del, put_many, del_many) or a peer's message to the node's real ConsistencyService sent with the real \
             ConsistencyClient (put, multi_put, delete, multi_delete, a batch with a removal and a modification, a batch of removals only), \
             each on ids of its own; storage calls take 0-3 ms, in a third of the cases one or two of the first five storage writes fail; \
             oracle: every operation that was acknowledged is in the set a later lookup of the keyspace serialises (a tombstone at its stamp \
             for a delete, a live entry for a put), that set equals storage, and a keyspace holding an acknowledged operation is listed in the \
             keyspace info peers poll; non-trivial = a peer's delete is among the first users of a name"
        }
    }

    async fn run(case: &Case, _net: e3::Net) -> Outcome {
        let mut latency = BTreeMap::new();
        if case.storage_latency_ms > 0 {
            latency.insert(1u8, case.storage_latency_ms);
        }
        let layout = Layout { nodes: vec![(1u8, "dc-a".to_string())], repair_interval: Duration::from_secs(30), storage_latency_ms: latency };
        let nodes = e3::start_cluster(&layout).await;
        let node = &nodes[0];
        e3::advance(50).await;
        {
            let mut g = node.store.inner.lock();
            let base = g.mutating_calls;
            for k in &case.failing_calls {
                g.faults.insert(base + k, crate::store::Fault::FailBefore);
            }
            g.fail_latency_ms = case.fail_latency_ms;
        }
        // the peer: node 7, known to nobody; it only needs a clock and a channel to speak to the service
        let peer_clock = Clock::new(7);
        let peer_addr: std::net::SocketAddr = ([10, 0, 0, 7], 7000).into();
        let mut tasks = vec![];
        for (i, u) in case.users.iter().enumerate() {
            let u = u.clone();
            let handle = node.handle.clone();
            let local_clock = node.node.clock().clone();
            let peer_clock = peer_clock.clone();
            let addr = node.addr;
            tasks.push(tokio::spawn(async move {
                if u.delay_ms > 0 {
                    tokio::time::sleep(Duration::from_millis(u.delay_ms)).await;
                }
                for _ in 0..u.round_trips {
                    let _ = local_clock.get_time().await;
                }
                let name = format!("fresh{}", u.ks);
                let k1 = 100 + 10 * i as u64;
                let k2 = k1 + 1;
                // stamps of the peer's operations: its own clock's
                let mut client = ConsistencyClient::<ModelStore>::new(peer_clock.clone(), Channel::connect(addr));
                // (key, is_delete, stamp if the harness chose it) of what this user asked for
                let mut asked: Vec<(u64, bool, Option<Stamp>)> = vec![];
                let ok = match u.kind {
                    0 => {
                        asked.push((k1, false, None));
                        handle.put(&name, k1, vec![1u8; 2], Consistency::None).await.is_ok()
                    },
                    1 => {
                        asked.push((k1, true, None));
                        handle.del(&name, k1, Consistency::None).await.is_ok()
                    },
                    2 => {
                        asked.extend([(k1, false, None), (k2, false, None)]);
                        handle.put_many(&name, vec![(k1, vec![2u8; 2]), (k2, vec![3u8; 1])], Consistency::None).await.is_ok()
                    },
                    3 => {
                        asked.extend([(k1, true, None), (k2, true, None)]);
                        handle.del_many(&name, vec![k1, k2], Consistency::None).await.is_ok()
                    },
                    _ => {
                        let t = Stamp::of(peer_clock.get_time().await);
                        let t2 = Stamp::of(peer_clock.get_time().await);
                        match u.kind {
                            4 => {
                                asked.push((k1, false, Some(t)));
                                client.put(name.clone(), doc(k1, t, 2), 7, peer_addr).await.is_ok()
                            },
                            5 => {
                                asked.extend([(k1, false, Some(t)), (k2, false, Some(t2))]);
                                client.multi_put(name.clone(), vec![doc(k1, t, 2), doc(k2, t2, 1)].into_iter(), 7, peer_addr).await.is_ok()
                            },
                            6 => {
                                asked.push((k1, true, Some(t)));
                                client.del(name.clone(), k1, t.hlc()).await.is_ok()
                            },
                            7 => {
                                asked.extend([(k1, true, Some(t)), (k2, true, Some(t2))]);
                                let docs: SmallVec<[_; 4]> = SmallVec::from_vec(vec![meta(k1, t), meta(k2, t2)]);
                                client.multi_del(name.clone(), docs).await.is_ok()
                            },
                            _ => {
                                let mut modified: SmallVec<[MultiPutPayload; 4]> = SmallVec::new();
                                let mut removed: SmallVec<[MultiRemovePayload; 4]> = SmallVec::new();
                                asked.push((k1, true, Some(t)));
                                removed.push(MultiRemovePayload { keyspace: name.clone(), documents: SmallVec::from_vec(vec![meta(k1, t)]), timestamp: t2.hlc() });
                                if u.kind == 8 {
                                    asked.push((k2, false, Some(t2)));
                                    modified.push(MultiPutPayload { keyspace: name.clone(), documents: SmallVec::from_vec(vec![doc(k2, t2, 2)]), ctx: None, timestamp: t2.hlc() });
                                }
                                let batch = BatchPayload { timestamp: t2.hlc(), modified, removed };
                                client.apply_batch(&batch).await.is_ok()
                            },
                        }
                    },
                };
                (u, ok, asked)
            }));
        }
        let mut acked: Vec<(User, Vec<(u64, bool, Option<Stamp>)>)> = vec![];
        for t in tasks {
            let (u, ok, asked) = t.await.expect("task");
            if ok {
                acked.push((u, asked));
            }
        }
        e3::advance(200).await;
        let group = node.handle.verif_group().clone();
        let advertised = group.get_keyspace_info().await.keyspace_timestamps;
        for ks in 0..2 {
            let name = format!("fresh{ks}");
            let mine: Vec<&(User, Vec<(u64, bool, Option<Stamp>)>)> = acked.iter().filter(|(u, _)| u.ks == ks).collect();
            if mine.is_empty() && group.verif_get(&name).is_none() {
                continue;
            }
            let set = actor_view(&group, &name).await;
            let st = store_view(&node.store, &name);
            for (u, asked) in &mine {
                for (key, is_delete, stamp) in asked {
                    let held = if *is_delete { set.dead.get(key) } else { set.live.get(key) };
                    let fine = match (held, stamp) {
                        (Some(h), Some(s)) => h == s,
                        (Some(_), None) => true,
                        (None, _) => false,
                    };
                    ensure!(
                        fine,
                        "acked-operation-missing-from-keyspace-state",
                        "keyspace {name}: the {} of id {key}{} was acknowledged (first user kind {}), but the set a later lookup returns holds {:?} for it (set: {:?})",
                        if *is_delete { "delete" } else { "put" },
                        stamp.map(|s| format!(" at {:?}", s)).unwrap_or_default(),
                        u.kind,
                        held,
                        set
                    );
                }
            }
            ensure!(set == st, "state-differs-from-storage", "keyspace {name}: the keyspace's set {:?} differs from storage {:?}", set, st);
            if !mine.is_empty() {
                ensure!(
                    advertised.contains_key(&name),
                    "keyspace-with-accepted-operations-not-advertised",
                    "keyspace {name} holds acknowledged operations but the keyspace info peers poll lists only {:?}",
                    advertised.keys().collect::<Vec<_>>()
                );
            }
        }
        let mut labels = vec![];
        let peer_delete = case.users.iter().any(|u| matches!(u.kind, 6 | 7 | 8 | 9));
        if peer_delete {
            labels.push("peer_delete_among_the_first_users");
        }
        if case.users.iter().any(|u| u.kind <= 3) && case.users.iter().any(|u| u.kind >= 4) {
            labels.push("local_and_remote_first_users");
        }
        if node.store.inner.lock().injected > 0 {
            labels.push("a_storage_write_failed");
        }
        if case.users.iter().any(|u| u.kind >= 8) {
            labels.push("batch");
        }
        Ok(Pass { nontrivial: peer_delete, labels })
    }

    pub fn parts() -> Vec<Box<dyn DynPart>> {
        vec![Box::new(Gen::new(RpcFirstUse, 40_000, 2_000_000))]
    }
}

// ---------------------------------------------------------------------------------------
// Part `mailbox-held-across-purge-ticks` (E2, after the seeded change `C18o`): "for the life of the node" spans the hourly
// purge ticks. Tasks keep the mailbox of a keyspace for hours (a repair exchange keeps it for a whole sync), purge ticks
// pass — some of them hitting a storage failure — and what is written through the old mailbox afterwards must be in
// the one set later lookups return.

pub mod purge_ticks {
    use serde_json::{json, Value};

    use crate::core::{Outcome, Pass, Prop, Src};
    use crate::e2::{self, actor_view};
    use crate::ensure;
    use crate::model::Stamp;
    use crate::registry::{DynPart, Gen};
    use crate::store::{Fault, ModelStore};

    #[derive(Debug, Clone)]
    pub enum Step {
        /// a task takes (and keeps) the mailbox of keyspace `ks`
        Take { ks: usize },
        /// one mutation through the i-th mailbox taken so far (modulo), or through a fresh lookup when none was taken
        Write { holder: usize, delete: bool, source: usize },
        /// a mutation through a fresh lookup
        WriteFresh { ks: usize, delete: bool },
        /// time passes: 0.5 - 2.5 h; the purge tick(s) inside hit the given storage failure, if any
        Hours { halves: u64, fault: Option<Fault> },
    }

    #[derive(Debug, Clone)]
    pub struct Case {
        pub steps: Vec<Step>,
    }

    pub struct PurgeTicks;

    impl Prop for PurgeTicks {
        type Case = Case;

        fn id(&self) -> &'static str {
            "C18"
        }

        fn part(&self) -> &'static str {
            "mailbox-held-across-purge-ticks"
        }

        fn width(&self) -> usize {
            64
        }

        fn gen(&self, src: &mut Src) -> Case {
            let n = 3 + src.below(10);
            let steps = (0..n)
                .map(|_| match src.weighted(&[3, 4, 2, 3]) {
                    0 => Step::Take { ks: src.below(2) },
                    1 => Step::Write { holder: src.below(4), delete: src.chance(1, 3), source: src.below(2) },
                    2 => Step::WriteFresh { ks: src.below(2), delete: src.chance(1, 3) },
                    _ => Step::Hours {
                        halves: 1 + src.below64(5),
                        fault: match src.below(4) {
                            0 => Some(Fault::FailBefore),
                            1 => Some(Fault::Partial(src.below(2))),
                            _ => None,
                        },
                    },
                })
                .collect();
            Case { steps }
        }

        fn run(&self, case: &Case) -> Outcome {
            e2::block_on_sim(60_000_000, e2::no_skew(), run(case))
        }

        fn describe(&self, case: &Case) -> Value {
            json!(case.steps.iter().map(|s| format!("{:?}", s)).collect::<Vec<_>>())
        }

        fn rule(&self) -> &'static str {
            "one real KeyspaceGroup with its real hourly purge task on paused time; 3-12 steps: a task takes and keeps the mailbox of one of two \
             keyspaces, a mutation (set or delete, either source, own key, stamp from the simulated clock) goes through one of the mailboxes taken \
             earlier or through a fresh lookup, 0.5-2.5 simulated hours pass (the purge ticks inside them hit a storage failure in half of the \
             cases: nothing removed, or a prefix); oracle: every acknowledged mutation is in the set a LATER lookup serialises, that set equals \
             storage, and the keyspace is listed in the keyspace info peers poll; non-trivial = a mutation through a mailbox taken before a purge \
             tick that failed"
        }
    }

    async fn run(case: &Case) -> Outcome {
        let store = ModelStore::default();
        let group = e2::new_group(store.clone(), 9).await;
        let t0 = tokio::time::Instant::now();
        let mut held: Vec<(usize, _, bool)> = vec![]; // (keyspace, mailbox, a failed purge tick passed since it was taken)
        let mut acked: Vec<(usize, u64, Stamp, bool)> = vec![];
        let mut next_key = 1u64;
        let mut nontrivial = false;
        let mut failed_ticks = 0;
        for step in &case.steps {
            let now = Stamp { secs: 60_000_000 + t0.elapsed().as_secs(), frac: 0, counter: next_key as u16, node: 3 };
            match step {
                Step::Take { ks } => {
                    let m = group.get_or_create_keyspace(&format!("held{ks}")).await;
                    held.push((*ks, m, false));
                },
                Step::Write { holder, delete, source } => {
                    let key = next_key;
                    next_key += 1;
                    let (ks, ok) = if held.is_empty() {
                        let m = group.get_or_create_keyspace("held0").await;
                        (0, if *delete { m.send(e2::msg_del(*source, e2::meta(key, now))).await.is_ok() } else { m.send(e2::msg_set(*source, e2::doc(key, now, 2))).await.is_ok() })
                    } else {
                        let (ks, m, stale) = &held[holder % held.len()];
                        nontrivial |= *stale;
                        (*ks, if *delete { m.send(e2::msg_del(*source, e2::meta(key, now))).await.is_ok() } else { m.send(e2::msg_set(*source, e2::doc(key, now, 2))).await.is_ok() })
                    };
                    if ok {
                        acked.push((ks, key, now, *delete));
                    }
                },
                Step::WriteFresh { ks, delete } => {
                    let key = next_key;
                    next_key += 1;
                    let m = group.get_or_create_keyspace(&format!("held{ks}")).await;
                    let ok = if *delete { m.send(e2::msg_del(0, e2::meta(key, now))).await.is_ok() } else { m.send(e2::msg_set(0, e2::doc(key, now, 2))).await.is_ok() };
                    if ok {
                        acked.push((*ks, key, now, *delete));
                    }
                },
                Step::Hours { halves, fault } => {
                    for _ in 0..*halves {
                        // the fault is re-armed every half hour: it hits whichever purge call comes next
                        store.inner.lock().purge_fault = *fault;
                        let before = store.inner.lock().injected;
                        tokio::time::sleep(std::time::Duration::from_secs(1_800)).await;
                        if store.inner.lock().injected > before {
                            failed_ticks += 1;
                            for h in held.iter_mut() {
                                h.2 = true;
                            }
                        }
                    }
                    store.inner.lock().purge_fault = None;
                },
            }
        }
        let advertised = group.get_keyspace_info().await.keyspace_timestamps;
        for ks in 0..2 {
            let name = format!("held{ks}");
            if group.verif_get(&name).is_none() {
                ensure!(!acked.iter().any(|a| a.0 == ks), "acked-mutation-missing-from-keyspace-state", "keyspace {name} took acknowledged mutations but no longer exists");
                continue;
            }
            let _ = group.get_or_create_keyspace(&name).await;
            let v = actor_view(&group, &name).await;
            for (_, key, stamp, delete) in acked.iter().filter(|a| a.0 == ks) {
                let held_now = if *delete { v.dead.get(key) } else { v.live.get(key) };
                // a tombstone may have been purged by a later tick (its deleting node's newer stamps arrived on both sources > 1 h later)
                let purged = *delete && held_now.is_none() && !e2::store_view(&store, &name).dead.contains_key(key);
                ensure!(
                    held_now == Some(stamp) || purged,
                    "acked-mutation-missing-from-keyspace-state",
                    "keyspace {name}: the {} of key {key} at {:?} was acknowledged, but the state a later lookup returns holds {:?} (state {:?})",
                    if *delete { "delete" } else { "set" },
                    stamp,
                    held_now,
                    v
                );
            }
            let st = e2::store_view(&store, &name);
            ensure!(v == st, "state-differs-from-storage", "keyspace {name}: state {:?} but storage {:?}", v, st);
            if acked.iter().any(|a| a.0 == ks) {
                ensure!(advertised.contains_key(&name), "keyspace-with-accepted-operations-not-advertised", "keyspace {name} holds acknowledged mutations but is not in the keyspace info: {:?}", advertised.keys().collect::<Vec<_>>());
            }
        }
        let mut labels = vec![];
        if failed_ticks > 0 {
            labels.push("a_purge_tick_failed");
        }
        if nontrivial {
            labels.push("write_through_a_mailbox_older_than_a_failed_tick");
        }
        if case.steps.iter().any(|s| matches!(s, Step::Hours { .. })) {
            labels.push("hours_passed");
        }
        Ok(Pass { nontrivial, labels })
    }

    pub fn parts() -> Vec<Box<dyn DynPart>> {
        vec![Box::new(Gen::new(PurgeTicks, 60_000, 3_000_000))]
    }
}

pub fn parts_all() -> Vec<Box<dyn DynPart>> {
    let mut p = parts();
    p.extend(startup::parts());
    p.extend(repair_race::parts());
    p.extend(rpc_first_use::parts());
    p.extend(purge_ticks::parts());
    p
}
