//! C09 — hybrid clock stamps are unique, strictly increasing and respect causality.

use std::cell::Cell;
use std::rc::Rc;
use std::time::Duration;

use datacake_crdt::{HLCTimestamp, TimestampError};
use serde_json::{json, Value};

use crate::core::{Outcome, Pass, Prop, Src};
use crate::ensure;
use crate::model::Stamp;
use crate::registry::{DynPart, Gen};

/// The documented limit (datacake-crdt `MAX_CLOCK_DRIFT`, not exported by the crate).
const DRIFT_MS: i64 = 4_100_000;

#[derive(Debug, Clone, Copy)]
pub enum WallMove {
    Stall,
    Advance(u64),
    Back(u64),
    /// wall := clock time - drift limit + offset (ms): the clock is exactly around the limit ahead
    ClockMinusDrift(i64),
    /// wall := clock time + offset
    ClockPlus(i64),
}

#[derive(Debug, Clone, Copy)]
pub enum Base {
    Wall,
    Clock,
    WallPlusDrift,
}

#[derive(Debug, Clone, Copy)]
pub enum Ctr {
    Abs(u16),
    ClockPlus(i32),
}

#[derive(Debug, Clone, Copy)]
pub enum Op {
    Send,
    /// `raw_frac`: the remote stamp arrives as a raw 64-bit word whose fraction byte is 250..=255 (no clock issues such a stamp, a peer can send one)
    Recv { base: Base, offset_ms: i64, counter: Ctr, same_node: bool, node: u8, raw_frac: Option<u8> },
}

#[derive(Debug, Clone)]
pub struct Case {
    pub node: u8,
    pub start_ms: u64,
    pub start_counter: u16,
    /// initial wall relative to the clock's start (ms)
    pub wall_offset_ms: i64,
    pub steps: Vec<(WallMove, Op)>,
}

pub struct C09;

fn gen_step(src: &mut Src) -> (WallMove, Op) {
    let mv = match src.weighted(&[5, 4, 2, 2, 1, 1]) {
        0 => WallMove::Stall,
        1 => WallMove::Advance(*src.pick(&[4u64, 8, 1_000, 60_000, 3_600_000])),
        2 => WallMove::Advance(4 * src.below64(5_000)),
        3 => WallMove::Back(*src.pick(&[4u64, 1_000, 60_000, 4_099_996, 4_100_000, 4_100_004, 10_000_000])),
        4 => WallMove::ClockMinusDrift(*src.pick(&[0i64, 4, -4, 8, -8, 1_000, -1_000])),
        _ => WallMove::ClockPlus(*src.pick(&[0i64, 4, -4, 1_000])),
    };
    let op = if src.chance(1, 2) {
        let base = match src.weighted(&[3, 3, 2]) {
            0 => Base::Wall,
            1 => Base::Clock,
            _ => Base::WallPlusDrift,
        };
        let offset_ms = *src.pick(&[0i64, 0, 4, -4, 8, -8, 1_000, -1_000, -3_600_000, 60_000]);
        let counter = match src.weighted(&[2, 3, 2]) {
            0 => Ctr::Abs(0),
            1 => Ctr::ClockPlus(*src.pick(&[0i32, 1, -1, 2, 5])),
            _ => Ctr::Abs(*src.pick(&[1u16, 65_533, 65_534, 65_535])),
        };
        let same_node = src.chance(1, 12);
        let node = *src.pick(&[0u8, 1, 2, 254, 255]);
        let raw_frac = if src.chance(1, 10) { Some(250 + src.below(6) as u8) } else { None };
        Op::Recv { base, offset_ms, counter, same_node, node, raw_frac }
    } else {
        Op::Send
    };
    (mv, op)
}

impl Prop for C09 {
    type Case = Case;

    fn id(&self) -> &'static str {
        "C09"
    }

    fn part(&self) -> &'static str {
        "send-recv-sequences"
    }

    fn width(&self) -> usize {
        8 + 60 * 10
    }

    fn gen(&self, src: &mut Src) -> Case {
        let node = *src.pick(&[7u8, 0, 1, 255]);
        let start_ms = 4 * src.pick(&[2_500_000u64, 250_000_000, 925, 1_000_000_000]);
        let start_counter = *src.pick(&[0u16, 0, 1, 65_530, 65_534, 65_535]);
        let wall_offset_ms = *src.pick(&[0i64, 4, -4, 60_000, -60_000, -4_100_000, -4_100_004, 3_600_000]);
        let n = 1 + src.below(60);
        let steps = (0..n).map(|_| gen_step(src)).collect();
        Case { node, start_ms, start_counter, wall_offset_ms, steps }
    }

    fn run(&self, case: &Case) -> Outcome {
        run(case)
    }

    fn describe(&self, case: &Case) -> Value {
        json!({
            "node": case.node,
            "clock_start_ms": case.start_ms,
            "clock_start_counter": case.start_counter,
            "wall_offset_ms": case.wall_offset_ms,
            "steps": case.steps.iter().map(|(m, o)| format!("{:?} ; {:?}", m, o)).collect::<Vec<_>>(),
        })
    }

    fn rule(&self) -> &'static str {
        "1-60 calls send | recv(remote) on one HLCTimestamp with an injected wall clock (hook H-clock) that before \
         each call stalls, advances, jumps backwards (incl. by exactly the drift limit +-4 ms) or is placed so the \
         clock sits exactly around the drift limit ahead; remote stamps relative to wall / clock / wall+limit (one in ten as a raw word whose fraction byte is 250..255) with \
         offsets of +-4 ms, counters 0, clock counter +-1, 65534, 65535, same or other node id; oracle after every \
         call: Ok => clock strictly greater than everything issued or accepted before (and than the accepted \
         remote), node id kept, clock time - wall <= 4100 s, issued stamp == clock; Err => clock bit-identical; \
         same-node recv must fail; with the wall strictly ahead of the clock and remote not ahead of the wall a call \
         must succeed; non-trivial = a stalled-clock send, a backwards jump and an error path all occur"
    }
}

fn ms(ts: &HLCTimestamp) -> i64 {
    ts.datacake_timestamp().as_millis() as i64
}

fn run(case: &Case) -> Outcome {
    let wall = Rc::new(Cell::new(0u64));
    let w2 = wall.clone();
    datacake_crdt::verif::set_wall(Some(Rc::new(move |_node| Some(Duration::from_millis(w2.get())))));
    let res = run_inner(case, &wall);
    datacake_crdt::verif::set_wall(None);
    res
}

fn run_inner(case: &Case, wall: &Rc<Cell<u64>>) -> Outcome {
    let mut clock = HLCTimestamp::new(Duration::from_millis(case.start_ms), case.start_counter, case.node);
    let start_wall = (case.start_ms as i64 + case.wall_offset_ms).max(0) as u64;
    wall.set(start_wall / 4 * 4);
    // greatest stamp issued or accepted so far
    let mut high: HLCTimestamp = clock;
    let mut high_is_initial = true;
    let mut raw_fraction = false;
    let (mut stalled_send, mut back_jump, mut errors, mut accepted, mut drift_refused, mut overflow) =
        (false, false, 0u32, 0u32, false, false);

    for (i, (mv, op)) in case.steps.iter().enumerate() {
        let clock_ms = ms(&clock);
        let old_wall = wall.get();
        let new_wall: i64 = match mv {
            WallMove::Stall => old_wall as i64,
            WallMove::Advance(d) => old_wall as i64 + *d as i64,
            WallMove::Back(d) => old_wall as i64 - *d as i64,
            WallMove::ClockMinusDrift(o) => clock_ms - DRIFT_MS + o,
            WallMove::ClockPlus(o) => clock_ms + o,
        };
        let new_wall = (new_wall.max(0) as u64) / 4 * 4;
        if new_wall < old_wall {
            back_jump = true;
        }
        wall.set(new_wall);
        let w = new_wall as i64;
        let before = clock;

        match op {
            Op::Send => {
                let res = clock.send();
                match res {
                    Ok(t) => {
                        ensure!(t == clock, "issued-not-clock", "step {i}: send returned {:?} but clock is {:?}", Stamp::of(t), Stamp::of(clock));
                        ensure!(t.node() == case.node, "node-changed", "step {i}: send returned node {}", t.node());
                        ensure!(
                            t > high || (high_is_initial && t > before),
                            "not-increasing",
                            "step {i}: send issued {:?}, not greater than {:?} issued/accepted before",
                            Stamp::of(t),
                            Stamp::of(high)
                        );
                        ensure!(t > before, "not-increasing", "step {i}: send issued {:?} <= previous clock {:?}", Stamp::of(t), Stamp::of(before));
                        ensure!(
                            ms(&t) - w <= DRIFT_MS,
                            "drift-exceeded",
                            "step {i}: send issued {:?} which is {} ms ahead of the wall clock",
                            Stamp::of(t),
                            ms(&t) - w
                        );
                        if w <= clock_ms {
                            stalled_send = true;
                        }
                        high = t;
                        high_is_initial = false;
                    },
                    Err(e) => {
                        errors += 1;
                        ensure!(clock == before, "error-changed-clock", "step {i}: send failed ({e}) but clock moved {:?} -> {:?}", Stamp::of(before), Stamp::of(clock));
                        ensure!(
                            !(w > clock_ms),
                            "spurious-error",
                            "step {i}: send failed ({e}) although the wall clock ({w} ms) is ahead of the clock ({clock_ms} ms)"
                        );
                        match e {
                            TimestampError::ClockDrift => drift_refused = true,
                            TimestampError::Overflow => overflow = true,
                            _ => {},
                        }
                    },
                }
            },
            Op::Recv { base, offset_ms, counter, same_node, node, raw_frac } => {
                let t_ms = match base {
                    Base::Wall => w + offset_ms,
                    Base::Clock => clock_ms + offset_ms,
                    Base::WallPlusDrift => w + DRIFT_MS + offset_ms,
                }
                .max(0) as u64
                    / 4
                    * 4;
                let c = match counter {
                    Ctr::Abs(c) => *c,
                    Ctr::ClockPlus(d) => (before.counter() as i32 + d).clamp(0, 65_535) as u16,
                };
                let rnode = if *same_node {
                    case.node
                } else if *node == case.node {
                    node.wrapping_add(1)
                } else {
                    *node
                };
                let (remote, t_ms) = match raw_frac {
                    None => (HLCTimestamp::new(Duration::from_millis(t_ms), c, rnode), t_ms),
                    Some(f) => {
                        // (since the seeded change `C09p`) fraction bytes 250..=255 denote 1.000 - 1.020 s after the stamp's second
                        let secs = t_ms / 1000;
                        raw_fraction = true;
                        (HLCTimestamp::from_u64((secs << 32) | ((*f as u64) << 24) | ((c as u64) << 8) | rnode as u64), secs * 1000 + *f as u64 * 4)
                    },
                };
                let res = clock.recv(&remote);
                match res {
                    Ok(_) => {
                        accepted += 1;
                        ensure!(rnode != case.node, "same-node-accepted", "step {i}: recv accepted a stamp carrying the clock's own node id");
                        ensure!(clock.node() == case.node, "node-changed", "step {i}: clock node became {}", clock.node());
                        ensure!(
                            clock > remote,
                            "causality",
                            "step {i}: after accepting {:?} the clock is {:?}",
                            Stamp::of(remote),
                            Stamp::of(clock)
                        );
                        // accepting a remote stamp that is already behind the clock need not move the clock (the statement
                        // asks for strict growth of what is ISSUED, and for the clock to end up beyond the accepted stamp);
                        // it must never move it back
                        ensure!(
                            clock >= before && (clock >= high || high_is_initial),
                            "not-increasing",
                            "step {i}: after recv the clock {:?} is behind {:?}",
                            Stamp::of(clock),
                            Stamp::of(high)
                        );
                        ensure!(
                            ms(&clock) - w <= DRIFT_MS,
                            "drift-exceeded",
                            "step {i}: after accepting {:?} the clock is {} ms ahead of the wall clock",
                            Stamp::of(remote),
                            ms(&clock) - w
                        );
                        high = clock;
                        high_is_initial = false;
                    },
                    Err(e) => {
                        errors += 1;
                        ensure!(clock == before, "error-changed-clock", "step {i}: recv failed ({e}) but clock moved {:?} -> {:?}", Stamp::of(before), Stamp::of(clock));
                        ensure!(
                            !(rnode != case.node && w > clock_ms && (t_ms as i64) < w),
                            "spurious-error",
                            "step {i}: recv of {:?} failed ({e}) although wall ({w}) is ahead of both clock ({clock_ms}) and remote",
                            Stamp::of(remote)
                        );
                        match e {
                            TimestampError::ClockDrift => drift_refused = true,
                            TimestampError::Overflow => overflow = true,
                            _ => {},
                        }
                    },
                }
            },
        }
    }

    let mut labels = vec![];
    if raw_fraction {
        labels.push("remote_with_fraction_byte_250..255");
    }
    if stalled_send {
        labels.push("stalled_clock_send");
    }
    if back_jump {
        labels.push("wall_jumped_back");
    }
    if errors > 0 {
        labels.push("error_path");
    }
    if drift_refused {
        labels.push("drift_refused");
    }
    if overflow {
        labels.push("counter_exhausted");
    }
    if accepted > 0 {
        labels.push("remote_accepted");
    }
    Ok(Pass { nontrivial: stalled_send && back_jump && errors > 0, labels })
}

pub fn parts() -> Vec<Box<dyn DynPart>> {
    vec![Box::new(Gen::new(C09, 2_000_000, 200_000_000))]
}
