//! C11 — node clock serialises concurrent callers: no duplicate or regressing stamps.

use std::collections::BTreeSet;
use std::sync::Arc;
use std::time::Duration;

use datacake_crdt::HLCTimestamp;
use datacake_node::Clock;
use serde_json::{json, Value};
use tokio::sync::Notify;

use crate::core::{Fail, Outcome, Pass, Prop, Src};
use crate::e2;
use crate::ensure;
use crate::model::Stamp;
use crate::registry::{DynPart, Gen};

const NODE: u8 = 5;

#[derive(Debug, Clone, Copy)]
pub enum Step {
    Get,
    /// a request for a timestamp that its caller gives up on: the future is polled this many times (with a yield after each
    /// poll) and then dropped, as a timeout, a `select!` or an aborted task do (seeded change `C11l`)
    AbandonedGet(u8),
    /// register a remote stamp `offset_s` seconds from the wall clock, with this counter and node
    Register { offset_s: i64, counter: u16, node: u8 },
    Yield,
    /// signal barrier `b` (after everything above has completed)
    Signal(usize),
    /// wait for barrier `b`
    Wait(usize),
}

#[derive(Debug, Clone)]
pub struct Case {
    pub tasks: Vec<Vec<Step>>,
    pub multi_thread: bool,
}

pub struct C11 {
    pub multi_thread: bool,
}

const BARRIERS: usize = 3;

impl Prop for C11 {
    type Case = Case;

    fn id(&self) -> &'static str {
        "C11"
    }

    fn part(&self) -> &'static str {
        if self.multi_thread {
            "clock-4-workers"
        } else {
            "clock-owned-schedule"
        }
    }

    fn width(&self) -> usize {
        8 * 14 * 3 + 8
    }

    fn breadcrumbs(&self) -> bool {
        true
    }

    fn gen(&self, src: &mut Src) -> Case {
        let k = 2 + src.below(7);
        // remote stamps with (nearly) exhausted counters make the clock wait for the wall clock to pass them:
        // only on the paused runtime, where waiting is free, and only up to 50 s ahead
        let exhausting = !self.multi_thread && src.chance(1, 40);
        let mut tasks: Vec<Vec<Step>> = vec![];
        for _ in 0..k {
            let n = 1 + src.below(12);
            let mut steps = vec![];
            for _ in 0..n {
                steps.push(match src.weighted(&[6, 3, 3, 2]) {
                    0 => Step::Get,
                    3 => Step::AbandonedGet(src.below(3) as u8),
                    1 => Step::Register {
                        offset_s: if exhausting {
                            *src.pick(&[0i64, 1, 50, -3_600])
                        } else {
                            *src.pick(&[0i64, 1, 50, -3_600, 3_000, 4_000, 4_300, 100_000])
                        },
                        counter: if exhausting { *src.pick(&[65_534u16, 65_535, 65_000]) } else { *src.pick(&[0u16, 1, 7, 60_000]) },
                        node: *src.pick(&[1u8, 2, NODE]),
                    },
                    _ => Step::Yield,
                });
            }
            tasks.push(steps);
        }
        // cross-task happens-before edges: barrier b is signalled by one task and awaited by another
        for b in 0..BARRIERS {
            if src.chance(2, 3) {
                let from = src.below(k);
                let to = (from + 1 + src.below(k - 1)) % k;
                let pos_from = src.below(tasks[from].len() + 1);
                tasks[from].insert(pos_from, Step::Signal(b));
                let pos_to = src.below(tasks[to].len() + 1);
                tasks[to].insert(pos_to, Step::Wait(b));
            }
        }
        Case { tasks, multi_thread: self.multi_thread }
    }

    fn run(&self, case: &Case) -> Outcome {
        if !deadlock_free(case) {
            // generated barrier edges may form a cycle: such a script cannot run, skip it as trivial
            return Ok(Pass { nontrivial: false, labels: vec!["skipped_cyclic_barriers"] });
        }
        if case.multi_thread {
            let mut last = None;
            for _ in 0..8 {
                let rt = tokio::runtime::Builder::new_multi_thread().worker_threads(4).enable_all().build().unwrap();
                let out = rt.block_on(run(case, false));
                rt.shutdown_background();
                last = Some(out?);
            }
            Ok(last.unwrap())
        } else {
            e2::block_on_sim(70_000_000, e2::no_skew(), run(case, true))
        }
    }

    fn describe(&self, case: &Case) -> Value {
        json!({
            "runtime": if case.multi_thread { "4 workers, real clock (8 repetitions)" } else { "current-thread, paused time, injected wall clock" },
            "tasks": case.tasks.iter().map(|t| t.iter().map(|s| format!("{:?}", s)).collect::<Vec<_>>()).collect::<Vec<_>>(),
        })
    }

    fn rule(&self) -> &'static str {
        "2-8 tasks sharing one datacake_node::Clock, each a script of 1-12 steps get_time | register_ts(remote at wall \
         clock -1 h .. +100000 s, counters 0..60000, own or foreign node id) | yield | a get_time whose caller gives up after 0-2 polls, plus up to 3 cross-task barriers \
         (signal after a step / wait before a step); run on a current-thread runtime where the interleaving is fixed \
         by the generated yields, and 8 times on a 4-worker runtime (OS schedule); oracle: all returned stamps pairwise \
         distinct and carrying the node id, each task's results strictly increasing, and every get ordered after a \
         register (same task, or via a barrier chain) returns a stamp greater than the registered one when that was \
         within 4000 s of the wall clock and from another node; non-trivial = >=2 tasks with gets and >=1 cross-task \
         register->get edge. On the paused runtime one case in 40 uses remote counters 65000-65535 up to 50 s ahead \
         (counter exhaustion: the clock has to wait for the wall clock, it must not die)"
    }
}

/// Barrier edges must not deadlock: simulate the scripts with "wait blocks until signalled".
fn deadlock_free(case: &Case) -> bool {
    let mut pos = vec![0usize; case.tasks.len()];
    let mut signalled = [false; BARRIERS];
    loop {
        let mut progressed = false;
        for (t, steps) in case.tasks.iter().enumerate() {
            while pos[t] < steps.len() {
                match steps[pos[t]] {
                    Step::Wait(b) if !signalled[b] => break,
                    Step::Signal(b) => signalled[b] = true,
                    _ => {},
                }
                pos[t] += 1;
                progressed = true;
            }
        }
        if pos.iter().zip(&case.tasks).all(|(p, s)| *p == s.len()) {
            return true;
        }
        if !progressed {
            return false;
        }
    }
}

#[derive(Debug, Clone)]
enum Ev {
    Got(HLCTimestamp),
    Registered { ts: HLCTimestamp, binding: bool },
    Signal(usize),
    Wait(usize),
}

async fn run(case: &Case, _sim: bool) -> Outcome {
    let clock = Clock::new(NODE);
    let notifies: Vec<Arc<Notify>> = (0..BARRIERS).map(|_| Arc::new(Notify::new())).collect();
    let mut handles = vec![];
    for steps in &case.tasks {
        let clock = clock.clone();
        let steps = steps.clone();
        let notifies = notifies.clone();
        handles.push(tokio::spawn(async move {
            let mut log = vec![];
            for s in steps {
                match s {
                    Step::Get => log.push(Ev::Got(clock.get_time().await)),
                    Step::AbandonedGet(polls) => {
                        let mut fut = Box::pin(clock.get_time());
                        for _ in 0..polls {
                            if let std::task::Poll::Ready(ts) = futures::poll!(fut.as_mut()) {
                                // answered before the caller gave up: an ordinary result
                                log.push(Ev::Got(ts));
                                break;
                            }
                            tokio::task::yield_now().await;
                        }
                        drop(fut);
                    },
                    Step::Register { offset_s, counter, node } => {
                        // `now` honours the injected wall clock (hook H-clock) and is the real clock otherwise
                        let wall = HLCTimestamp::now(0, NODE).datacake_timestamp();
                        let t = if offset_s >= 0 {
                            wall + Duration::from_secs(offset_s as u64)
                        } else {
                            wall.saturating_sub(Duration::from_secs((-offset_s) as u64))
                        };
                        let ts = HLCTimestamp::new(t, counter, node);
                        clock.register_ts(ts).await;
                        // binding: from another node, clearly inside the allowed drift, counter not exhausted
                        let binding = node != NODE && offset_s <= 4_000;
                        log.push(Ev::Registered { ts, binding });
                    },
                    Step::Yield => tokio::task::yield_now().await,
                    Step::Signal(b) => {
                        log.push(Ev::Signal(b));
                        notifies[b].notify_one();
                    },
                    Step::Wait(b) => {
                        notifies[b].notified().await;
                        log.push(Ev::Wait(b));
                    },
                }
            }
            log
        }));
    }
    let mut logs = vec![];
    let mut died = false;
    for h in handles {
        // a task that panicked never signals its barriers: bound the wait (simulated time on the paused
        // runtime, real time on the multi-thread one) and count tasks stuck behind a dead one as dead
        match tokio::time::timeout(Duration::from_secs(if _sim { 6_000 } else { 30 }), h).await {
            Ok(Ok(l)) => logs.push(l),
            Ok(Err(_)) | Err(_) => {
                died = true;
                logs.push(vec![]);
            },
        }
    }
    let exhausting = case.tasks.iter().flatten().any(|s| matches!(s, Step::Register { counter, offset_s, node, .. } if *counter >= 65_000 && *offset_s >= 0 && *offset_s <= 4_000 && *node != NODE));
    if died {
        if exhausting {
            return Err(Fail {
                signature: "clock-dies-on-exhausted-counter".into(),
                message: "after registering a remote stamp with a (nearly) exhausted counter ahead of the wall clock the clock actor panicked ('Clock counter should not overflow'); every later caller panics".into(),
            });
        }
        return Err(Fail { signature: "clock-task-panicked".into(), message: "a task using the clock panicked".into() });
    }

    // 1. pairwise distinct, node id, per task increasing
    let mut all = BTreeSet::new();
    let mut total_gets = 0;
    for (t, log) in logs.iter().enumerate() {
        let mut prev: Option<HLCTimestamp> = None;
        for ev in log {
            if let Ev::Got(ts) = ev {
                total_gets += 1;
                ensure!(ts.node() == NODE, "wrong-node-id", "task {t} got a stamp with node id {}", ts.node());
                ensure!(all.insert(*ts), "duplicate-stamp", "stamp {:?} was handed out twice", Stamp::of(*ts));
                if let Some(p) = prev {
                    ensure!(*ts > p, "regressing-stamp", "task {t} got {:?} after {:?}", Stamp::of(*ts), Stamp::of(p));
                }
                prev = Some(*ts);
            }
        }
    }
    // 2. register -> get, by program order and through barrier chains: propagate the greatest binding
    //    registration known to have completed before each point
    let mut at_signal: Vec<Option<HLCTimestamp>> = vec![None; BARRIERS];
    let mut cross_edges = 0;
    // barriers may chain: iterate to a fixpoint (at most BARRIERS+1 rounds)
    for _ in 0..=BARRIERS {
        for log in logs.iter() {
            let mut known: Option<HLCTimestamp> = None;
            for ev in log {
                match ev {
                    Ev::Registered { ts, binding } => {
                        if *binding {
                            known = Some(known.map_or(*ts, |k| k.max(*ts)));
                        }
                    },
                    Ev::Signal(b) => {
                        if let Some(k) = known {
                            at_signal[*b] = Some(at_signal[*b].map_or(k, |x| x.max(k)));
                        }
                    },
                    Ev::Wait(b) => {
                        if let Some(k) = at_signal[*b] {
                            known = Some(known.map_or(k, |x| x.max(k)));
                        }
                    },
                    Ev::Got(_) => {},
                }
            }
        }
    }
    for (t, log) in logs.iter().enumerate() {
        let mut known: Option<HLCTimestamp> = None;
        let mut from_other = false;
        for ev in log {
            match ev {
                Ev::Registered { ts, binding } => {
                    if *binding {
                        known = Some(known.map_or(*ts, |k| k.max(*ts)));
                    }
                },
                Ev::Wait(b) => {
                    if let Some(k) = at_signal[*b] {
                        known = Some(known.map_or(k, |x| x.max(k)));
                        from_other = true;
                    }
                },
                Ev::Got(ts) => {
                    if let Some(k) = known {
                        if from_other {
                            cross_edges += 1;
                        }
                        ensure!(
                            *ts > k,
                            "stamp-not-after-registered-remote",
                            "task {t} got {:?} although the remote stamp {:?} had been registered before the request{}",
                            Stamp::of(*ts),
                            Stamp::of(k),
                            if from_other { " (ordered through a barrier)" } else { "" }
                        );
                    }
                },
                Ev::Signal(_) => {},
            }
        }
    }
    let tasks_with_gets = logs.iter().filter(|l| l.iter().any(|e| matches!(e, Ev::Got(_)))).count();
    let mut labels = vec![];
    if cross_edges > 0 {
        labels.push("cross_task_register_get_edge");
    }
    if exhausting {
        labels.push("exhausted_counter_remote");
    }
    if total_gets >= 20 {
        labels.push("gets>=20");
    }
    Ok(Pass { nontrivial: tasks_with_gets >= 2 && cross_edges > 0, labels })
}


// ---------------------------------------------------------------------------------------
// Part `crowd`: more callers than the clock's request queue holds (1000).  A few generated script templates are
// instantiated for 1050-2600 tasks that all start at once; the same oracle applies.

pub struct Crowd;

impl Prop for Crowd {
    type Case = Case;

    fn id(&self) -> &'static str {
        "C11"
    }

    fn part(&self) -> &'static str {
        "crowd"
    }

    fn width(&self) -> usize {
        64
    }

    fn breadcrumbs(&self) -> bool {
        true
    }

    fn shrink_budget(&self) -> usize {
        60
    }

    fn gen(&self, src: &mut Src) -> Case {
        let n_tasks = 1_050 + src.below(1_550);
        let n_templates = 1 + src.below(3);
        let mut templates: Vec<Vec<Step>> = vec![];
        for _ in 0..n_templates {
            let mut steps = vec![];
            for _ in 0..1 + src.below(4) {
                steps.push(match src.weighted(&[4, 4, 1]) {
                    0 => Step::Get,
                    // the offset is replaced per task below
                    1 => Step::Register { offset_s: 0, counter: *src.pick(&[0u16, 1, 7]), node: *src.pick(&[1u8, 2]) },
                    _ => Step::Yield,
                });
            }
            // every template ends with a request for a stamp
            steps.push(Step::Get);
            templates.push(steps);
        }
        let spread = *src.pick(&[1i64, 2, 3_000]);
        let tasks = (0..n_tasks)
            .map(|i| {
                templates[i % n_templates]
                    .iter()
                    .map(|s| match s {
                        Step::Register { counter, node, .. } => Step::Register { offset_s: (i as i64 * spread) % 3_900, counter: *counter, node: *node },
                        other => *other,
                    })
                    .collect()
            })
            .collect();
        Case { tasks, multi_thread: false }
    }

    fn run(&self, case: &Case) -> Outcome {
        let out = e2::block_on_sim(70_000_000, e2::no_skew(), run(case, true))?;
        let mut labels = out.labels;
        labels.push("tasks>1000");
        let registers = case.tasks.iter().flatten().filter(|s| matches!(s, Step::Register { .. })).count();
        Ok(Pass { nontrivial: registers >= 1_000, labels })
    }

    fn describe(&self, case: &Case) -> Value {
        let mut distinct: Vec<Vec<String>> = vec![];
        for t in case.tasks.iter().take(6) {
            distinct.push(t.iter().map(|s| format!("{:?}", s)).collect());
        }
        json!({
            "runtime": "current-thread, paused time, injected wall clock",
            "number_of_tasks": case.tasks.len(),
            "first_tasks": distinct,
        })
    }

    fn rule(&self) -> &'static str {
        "1050-2600 tasks sharing one datacake_node::Clock (its request queue holds 1000), all started at once on a \
         current-thread runtime; each runs one of 1-3 generated templates of 2-5 steps (get_time | register_ts of a \
         foreign stamp 0-3900 s ahead of the wall clock, different per task | yield) ending in get_time; same oracle as \
         the other parts: all stamps distinct, per task strictly increasing, every get after a register of the same task \
         greater than the registered stamp; non-trivial = >= 1000 registrations in the case"
    }
}

pub fn parts() -> Vec<Box<dyn DynPart>> {
    vec![
        Box::new(Gen::new(C11 { multi_thread: false }, 60_000, 3_000_000)),
        Box::new(Gen::new(C11 { multi_thread: true }, 500, 20_000)),
        Box::new(Gen::new(Crowd, 4_000, 200_000)),
    ]
}
