//! C07 — a restarted node rebuilds exactly what storage holds; acked writes survive.

use serde_json::{json, Value};

use crate::c02::{gen_fault, ks_name, req_json, send_req, Req, ReqGen};
use crate::core::{Outcome, Pass, Prop, Src};
use crate::e2::{self, actor_view, store_view};
use crate::ensure;
use crate::model::SetView;
use crate::registry::{DynPart, Gen};
use crate::store::{Fault, ModelStore};

#[derive(Debug, Clone)]
pub struct Case {
    pub reqs: Vec<(Req, Option<Fault>)>,
    /// the node stops after this many completed requests ...
    pub crash_after: usize,
    /// ... or in the middle of the next one (after its storage write, before the set update)
    pub inside_next: bool,
    /// restarts: the same again on the rebuilt node (second history + crash)
    pub second: Option<Box<Case>>,
}

pub struct C07;

fn gen_case(src: &mut Src, g: &mut ReqGen, depth: usize) -> Case {
    let n = 1 + src.below(16);
    let reqs: Vec<(Req, Option<Fault>)> = (0..n).map(|_| (g.req(src), gen_fault(src))).collect();
    let inside_next = src.chance(2, 5);
    let crash_after = if inside_next { src.below(n) } else { 1 + src.below(n) };
    let second = if depth == 0 && src.chance(1, 4) { Some(Box::new(gen_case(src, g, 1))) } else { None };
    Case { reqs, crash_after, inside_next, second }
}

impl Prop for C07 {
    type Case = Case;

    fn id(&self) -> &'static str {
        "C07"
    }

    fn part(&self) -> &'static str {
        "restart-rebuild"
    }

    fn width(&self) -> usize {
        2 * (16 * 26 + 8) + 8
    }

    fn gen(&self, src: &mut Src) -> Case {
        let mut g = ReqGen::new(src);
        g.n_ks = 1 + src.below(3);
        gen_case(src, &mut g, 0)
    }

    fn run(&self, case: &Case) -> Outcome {
        e2::block_on_sim(60_000_000, e2::no_skew(), run(case))
    }

    fn describe(&self, case: &Case) -> Value {
        fn d(case: &Case) -> Value {
            json!({
                "requests": case.reqs.iter().map(|(r, f)| {
                    let mut j = req_json(r);
                    if let Some(f) = f { j["storage_fault"] = json!(format!("{:?}", f)); }
                    j
                }).collect::<Vec<_>>(),
                "crash_after_completed_requests": case.crash_after,
                "crash_inside_next_request": case.inside_next,
                "then": case.second.as_ref().map(|c| d(c)),
            })
        }
        d(case)
    }

    fn rule(&self) -> &'static str {
        "request history as in C02 (1-16 requests, 1-3 keyspaces, storage faults) on a real KeyspaceGroup; the node \
         is stopped after a generated number of completed requests, or inside the next request (the storage call \
         performs its write and never returns; the old storage handle is fenced = process death); a new group over \
         the same data runs load_states_from_storage; optionally a second history + crash on the rebuilt node; \
         oracle: for every keyspace storage lists, the rebuilt set's live ids/tombstones/stamps == iter_metadata \
         exactly, no state for unlisted keyspaces' ids, and every entry the set showed after the last completed \
         request is still present with the same or a newer stamp (unless the interrupted request was a purge); \
         non-trivial = >=1 tombstone and >=1 live id at the crash point"
    }
}

const MAX_KS: usize = 3;

async fn run(case: &Case) -> Outcome {
    let store = ModelStore::default();
    let mut labels = vec![];
    let mut nontrivial = false;
    let mut cur = Some(case);
    let mut handle = store.clone();
    let mut first = true;
    let mut group = e2::new_group(handle.clone(), 9).await;
    while let Some(c) = cur {
        if !first {
            labels.push("second_crash");
        }
        first = false;
        let (nt, inside) = one_life(c, &handle, &group).await?;
        nontrivial |= nt;
        if inside {
            labels.push("crash_inside_request");
        }
        // restart
        let acked: Vec<SetView> = {
            // entries the set showed after the last completed request (taken inside one_life via store? no:
            // re-read from the still-alive actor is impossible after a parked call) -- see ACKED below
            ACKED.with(|a| a.borrow().clone())
        };
        let in_flight_purge = IN_FLIGHT_PURGE.with(|p| p.get());
        handle = handle.restart();
        let new_group = e2::new_group(handle.clone(), 9).await;
        new_group.load_states_from_storage().await.map_err(|e| crate::core::Fail {
            signature: "load-failed".into(),
            message: format!("load_states_from_storage failed: {e}"),
        })?;
        let listed = handle.keyspace_names();
        for k in 0..MAX_KS {
            let name = ks_name(k);
            let rebuilt = actor_view(&new_group, &name).await;
            let st = store_view(&handle, &name);
            if listed.contains(&name) {
                ensure!(
                    rebuilt == st,
                    "rebuilt-differs-from-storage",
                    "keyspace {name}: rebuilt set {:?} but storage holds {:?}",
                    rebuilt,
                    st
                );
            } else {
                ensure!(rebuilt == SetView::default(), "state-for-unlisted-keyspace", "keyspace {name} is not listed by storage but has state {:?}", rebuilt);
            }
            let before = &acked[k];
            for (id, t) in before.live.iter() {
                let now = rebuilt.live.get(id).or_else(|| rebuilt.dead.get(id));
                ensure!(
                    matches!(now, Some(n) if n >= t),
                    "acked-write-lost",
                    "keyspace {name}: id {id} was live at {:?} before the stop, after restart the set holds {:?}",
                    t,
                    now
                );
            }
            for (id, t) in before.dead.iter() {
                let now = rebuilt.live.get(id).or_else(|| rebuilt.dead.get(id));
                ensure!(
                    matches!(now, Some(n) if n >= t) || in_flight_purge,
                    "acked-delete-lost",
                    "keyspace {name}: id {id} was deleted at {:?} before the stop, after restart the set holds {:?}",
                    t,
                    now
                );
            }
        }
        group = new_group;
        cur = c.second.as_deref();
    }
    drop(group);
    Ok(Pass { nontrivial, labels })
}

thread_local! {
    static ACKED: std::cell::RefCell<Vec<SetView>> = std::cell::RefCell::new(vec![]);
    static IN_FLIGHT_PURGE: std::cell::Cell<bool> = std::cell::Cell::new(false);
}

/// Runs one life of the node up to its crash point. Returns (non-trivial, crashed inside a request).
async fn one_life(case: &Case, store: &ModelStore, group: &e2::Group) -> Result<(bool, bool), crate::core::Fail> {
    IN_FLIGHT_PURGE.with(|p| p.set(false));
    let mut snapshot = async || {
        let mut v = vec![];
        for k in 0..MAX_KS {
            v.push(actor_view(group, &ks_name(k)).await);
        }
        v
    };
    for (req, fault) in case.reqs.iter().take(case.crash_after) {
        if let Some(f) = fault {
            let mut g = store.inner.lock();
            let idx = g.mutating_calls;
            g.faults.insert(idx, *f);
        }
        send_req(group, req).await;
        store.inner.lock().faults.clear();
    }
    let views = snapshot().await;
    let nontrivial = views.iter().any(|v| !v.dead.is_empty()) && views.iter().any(|v| !v.live.is_empty());
    ACKED.with(|a| *a.borrow_mut() = views);

    let mut inside = false;
    if case.inside_next {
        if let Some((req, _)) = case.reqs.get(case.crash_after) {
            {
                let mut g = store.inner.lock();
                g.park_at = Some(g.mutating_calls);
            }
            let g2 = group.clone();
            let r2 = req.clone();
            let task = tokio::spawn(async move {
                send_req(&g2, &r2).await;
            });
            // let the request run until its storage call parks (or it completes without one)
            for _ in 0..200 {
                tokio::task::yield_now().await;
                if store.inner.lock().parked || task.is_finished() {
                    break;
                }
            }
            if store.inner.lock().parked {
                inside = true;
                if matches!(req, Req::Purge { .. }) {
                    IN_FLIGHT_PURGE.with(|p| p.set(true));
                }
            } else {
                // the request completed without touching storage: it is simply one more completed request
                let _ = task.await;
                let mut v = vec![];
                for k in 0..MAX_KS {
                    v.push(actor_view(group, &ks_name(k)).await);
                }
                ACKED.with(|a| *a.borrow_mut() = v);
                store.inner.lock().park_at = None;
            }
        }
    }
    Ok((nontrivial, inside))
}

pub fn parts() -> Vec<Box<dyn DynPart>> {
    vec![Box::new(Gen::new(C07, 100_000, 5_000_000))]
}
