//! C07 — a restarted node rebuilds exactly what storage holds; acked writes survive.

use serde_json::{json, Value};

use crate::c02::{gen_fault, ks_name, req_json, send_req, Req, ReqGen};
use crate::core::{Outcome, Pass, Prop, Src};
use crate::e2::{self, actor_view, store_view};
use crate::ensure;
use crate::model::{SetView, Stamp};
use crate::registry::{DynPart, Gen};
use crate::store::{Fault, ModelStore};

#[derive(Debug, Clone)]
pub struct Case {
    pub reqs: Vec<(Req, Option<Fault>)>,
    /// the node stops after this many completed requests ...
    pub crash_after: usize,
    /// ... or in the middle of the next one (after its storage write, before the set update)
    pub inside_next: bool,
    /// restarts: the same again on the rebuilt node (second history + crash)
    pub second: Option<Box<Case>>,
    /// (root case only) this many further keyspaces `extra<i>` hold one entry each before the history starts: a node with
    /// many keyspaces to rebuild (round 11: sizes and counts were a blind spot; a loader that works in batches or in parallel is
    /// crossed here)
    pub extra_keyspaces: usize,
    /// the restart that follows this history hits a storage read error: the k-th listing read of the start (0 = the keyspace
    /// list, 1.. = the metadata of the k-th keyspace) fails once. A node that refuses to start is started again (as an
    /// operator would); a node that does start must have rebuilt everything (after the seeded change `C07r`)
    pub load_read_fault: Option<u64>,
}

pub struct C07;

fn gen_case(src: &mut Src, g: &mut ReqGen, depth: usize) -> Case {
    let n = 1 + src.below(16);
    let reqs: Vec<(Req, Option<Fault>)> = (0..n).map(|_| (g.req(src), gen_fault(src))).collect();
    let inside_next = src.chance(2, 5);
    let crash_after = if inside_next { src.below(n) } else { 1 + src.below(n) };
    let second = if depth == 0 && src.chance(1, 4) { Some(Box::new(gen_case(src, g, 1))) } else { None };
    let load_read_fault = if src.chance(1, 4) { Some(src.below64(4)) } else { None };
    Case { reqs, crash_after, inside_next, second, extra_keyspaces: 0, load_read_fault }
}

impl Prop for C07 {
    type Case = Case;

    fn id(&self) -> &'static str {
        "C07"
    }

    fn part(&self) -> &'static str {
        "restart-rebuild"
    }

    fn width(&self) -> usize {
        2 * (16 * 26 + 8) + 8
    }

    fn gen(&self, src: &mut Src) -> Case {
        let mut g = ReqGen::new(src);
        g.n_ks = 1 + src.below(3);
        let mut case = gen_case(src, &mut g, 0);
        if src.chance(1, 12) {
            case.extra_keyspaces = *src.pick(&[7usize, 8, 9, 17, 33, 100]);
        }
        case
    }

    fn run(&self, case: &Case) -> Outcome {
        e2::block_on_sim(60_000_000, e2::no_skew(), run(case))
    }

    fn describe(&self, case: &Case) -> Value {
        fn d(case: &Case) -> Value {
            json!({
                "requests": case.reqs.iter().map(|(r, f)| {
                    let mut j = req_json(r);
                    if let Some(f) = f { j["storage_fault"] = json!(format!("{:?}", f)); }
                    j
                }).collect::<Vec<_>>(),
                "crash_after_completed_requests": case.crash_after,
                "crash_inside_next_request": case.inside_next,
                "further_keyspaces_with_one_entry_each": case.extra_keyspaces,
                "listing_read_of_the_restart_that_fails(0=keyspace list)": case.load_read_fault,
                "then": case.second.as_ref().map(|c| d(c)),
            })
        }
        d(case)
    }

    fn rule(&self) -> &'static str {
        "request history as in C02 (1-16 requests, 1-3 keyspaces, storage faults) on a real KeyspaceGroup; the node \
         is stopped after a generated number of completed requests, or inside the next request (the storage call \
         performs its write and never returns; the old storage handle is fenced = process death); a new group over \
         the same data runs load_states_from_storage; optionally a second history + crash on the rebuilt node; \
         oracle: for every keyspace storage lists, the rebuilt set's live ids/tombstones/stamps == iter_metadata \
         exactly, no state for unlisted keyspaces' ids, and every entry the set showed after the last completed \
         request is still present with the same or a newer stamp (unless the interrupted request was a purge), and an \
         operation on an unheld key that the set would have accepted before the stop (probes per origin node, 0 s - 6 h \
         behind the newest stamp) is still accepted by the rebuilt set; \
         non-trivial = >=1 tombstone and >=1 live id at the crash point"
    }
}

const MAX_KS: usize = 3;

async fn run(case: &Case) -> Outcome {
    let store = ModelStore::default();
    let mut labels = vec![];
    let mut nontrivial = false;
    let mut cur = Some(case);
    let mut handle = store.clone();
    let mut first = true;
    let mut group = e2::new_group(handle.clone(), 9).await;
    // further keyspaces, one entry each (a tombstone in every third)
    let extra_stamp = |i: usize| Stamp { secs: 59_000_000 + i as u64, frac: 0, counter: 0, node: 3 };
    for i in 0..case.extra_keyspaces {
        let m = group.get_or_create_keyspace(&format!("extra{i}")).await;
        let _ = m.send(e2::msg_set(0, e2::doc(i as u64 + 1, extra_stamp(i), 3))).await;
        if i % 3 == 2 {
            let _ = m.send(e2::msg_del(0, e2::meta(i as u64 + 1, Stamp { counter: 1, ..extra_stamp(i) }))).await;
        }
    }
    if case.extra_keyspaces > 0 {
        labels.push("many_keyspaces");
    }
    while let Some(c) = cur {
        if !first {
            labels.push("second_crash");
        }
        first = false;
        let (nt, inside) = one_life(c, &handle, &group).await?;
        nontrivial |= nt;
        if inside {
            labels.push("crash_inside_request");
        }
        // restart
        let acked: Vec<SetView> = {
            // entries the set showed after the last completed request (taken inside one_life via store? no:
            // re-read from the still-alive actor is impossible after a parked call) -- see ACKED below
            ACKED.with(|a| a.borrow().clone())
        };
        let in_flight_purge = IN_FLIGHT_PURGE.with(|p| p.get());
        handle = handle.restart();
        if let Some(k) = c.load_read_fault {
            let mut g = handle.inner.lock();
            g.read_fault_at = Some(g.read_calls + k);
        }
        let mut new_group = e2::new_group(handle.clone(), 9).await;
        let first_try = new_group.load_states_from_storage().await;
        let fault_hit = c.load_read_fault.is_some() && handle.inner.lock().read_fault_at.is_none();
        handle.inner.lock().read_fault_at = None;
        match first_try {
            Ok(()) => {
                if fault_hit {
                    labels.push("started_although_a_read_failed");
                }
            },
            Err(e) if fault_hit => {
                // the node refused to start on the read error: start it again
                let _ = e;
                labels.push("start_refused_on_a_read_error_then_retried");
                handle = handle.restart();
                new_group = e2::new_group(handle.clone(), 9).await;
                new_group.load_states_from_storage().await.map_err(|e| crate::core::Fail {
                    signature: "load-failed".into(),
                    message: format!("load_states_from_storage failed on the second start (no fault injected): {e}"),
                })?;
            },
            Err(e) => {
                return Err(crate::core::Fail { signature: "load-failed".into(), message: format!("load_states_from_storage failed: {e}") });
            },
        }
        let listed = handle.keyspace_names();
        for i in 0..case.extra_keyspaces {
            let name = format!("extra{i}");
            let rebuilt = actor_view(&new_group, &name).await;
            let st = store_view(&handle, &name);
            let mut want = SetView::default();
            if i % 3 == 2 {
                want.dead.insert(i as u64 + 1, Stamp { counter: 1, ..extra_stamp(i) });
            } else {
                want.live.insert(i as u64 + 1, extra_stamp(i));
            }
            ensure!(
                rebuilt == st && rebuilt == want,
                "rebuilt-differs-from-storage",
                "keyspace {name} (one of {} further keyspaces): rebuilt set {:?}, storage holds {:?}, written before the history {:?}",
                case.extra_keyspaces,
                rebuilt,
                st,
                want
            );
        }
        for k in 0..MAX_KS {
            let name = ks_name(k);
            let rebuilt = actor_view(&new_group, &name).await;
            let st = store_view(&handle, &name);
            if listed.contains(&name) {
                ensure!(
                    rebuilt == st,
                    "rebuilt-differs-from-storage",
                    "keyspace {name}: rebuilt set {:?} but storage holds {:?}",
                    rebuilt,
                    st
                );
            } else {
                ensure!(rebuilt == SetView::default(), "state-for-unlisted-keyspace", "keyspace {name} is not listed by storage but has state {:?}", rebuilt);
            }
            let before = &acked[k];
            for (id, t) in before.live.iter() {
                let now = rebuilt.live.get(id).or_else(|| rebuilt.dead.get(id));
                ensure!(
                    rebuilt.live.get(id) == Some(t) || matches!(now, Some(n) if n > t),
                    "acked-write-lost",
                    "keyspace {name}: id {id} was live at {:?} before the stop, after restart the set holds {:?}",
                    t,
                    now
                );
            }
            // A restart must not make the node refuse operations it would have accepted before it stopped: the
            // rebuilt set may know less about what it has "already observed" (it is rebuilt through one source),
            // never more -- otherwise it would refuse, and never fetch, entries it still lacks.
            let before_set = ACKED_SETS.with(|a| a.borrow().get(k).cloned().flatten());
            if let (Some(before_set), Some(rebuilt_set)) = (before_set, e2::actor_set(&new_group, &name).await) {
                let stamps: Vec<Stamp> = before.live.values().chain(before.dead.values()).copied().collect();
                let nodes: std::collections::BTreeSet<u8> = stamps.iter().map(|s| s.node).collect();
                let newest = stamps.iter().map(|s| s.secs).max().unwrap_or(0);
                for node in nodes {
                    for back in [0u64, 600, 3_599, 3_600, 3_601, 7_200, 10_800, 21_600] {
                        let probe = Stamp { secs: newest.saturating_sub(back), frac: 3, counter: 77, node };
                        let unused = 0xFFFF_0000_0000_0001u64;
                        if before_set.will_apply(unused, probe.hlc()) {
                            ensure!(
                                rebuilt_set.will_apply(unused, probe.hlc()),
                                "restart-narrows-what-the-node-accepts",
                                "keyspace {name}: before the stop an operation of node {node} at {:?} on a key the node does not hold would have been accepted, the rebuilt set refuses it (it will never fetch such an entry from a peer either)",
                                probe
                            );
                        }
                    }
                }
            }
            for (id, t) in before.dead.iter() {
                let now = rebuilt.live.get(id).or_else(|| rebuilt.dead.get(id));
                ensure!(
                    rebuilt.dead.get(id) == Some(t) || matches!(now, Some(n) if n > t) || in_flight_purge,
                    "acked-delete-lost",
                    "keyspace {name}: id {id} was deleted at {:?} before the stop, after restart the set holds {:?}",
                    t,
                    now
                );
            }
        }
        group = new_group;
        cur = c.second.as_deref();
    }
    drop(group);
    Ok(Pass { nontrivial, labels })
}

thread_local! {
    /// the deserialised sets themselves (for accept / refuse probes), taken together with `ACKED`
    static ACKED_SETS: std::cell::RefCell<Vec<Option<datacake_crdt::OrSWotSet<2>>>> = std::cell::RefCell::new(vec![]);
    static ACKED: std::cell::RefCell<Vec<SetView>> = std::cell::RefCell::new(vec![]);
    static IN_FLIGHT_PURGE: std::cell::Cell<bool> = std::cell::Cell::new(false);
}

/// Runs one life of the node up to its crash point. Returns (non-trivial, crashed inside a request).
async fn one_life(case: &Case, store: &ModelStore, group: &e2::Group) -> Result<(bool, bool), crate::core::Fail> {
    IN_FLIGHT_PURGE.with(|p| p.set(false));
    let mut snapshot = async || {
        let mut v = vec![];
        for k in 0..MAX_KS {
            v.push(actor_view(group, &ks_name(k)).await);
        }
        v
    };
    for (req, fault) in case.reqs.iter().take(case.crash_after) {
        if let Some(f) = fault {
            let mut g = store.inner.lock();
            let idx = g.mutating_calls;
            g.faults.insert(idx, *f);
        }
        send_req(group, req).await;
        store.inner.lock().faults.clear();
    }
    let views = snapshot().await;
    let nontrivial = views.iter().any(|v| !v.dead.is_empty()) && views.iter().any(|v| !v.live.is_empty());
    ACKED.with(|a| *a.borrow_mut() = views);
    let mut sets = vec![];
    for k in 0..MAX_KS {
        sets.push(e2::actor_set(group, &ks_name(k)).await);
    }
    ACKED_SETS.with(|a| *a.borrow_mut() = sets);

    let mut inside = false;
    if case.inside_next {
        if let Some((req, _)) = case.reqs.get(case.crash_after) {
            {
                let mut g = store.inner.lock();
                g.park_at = Some(g.mutating_calls);
            }
            let g2 = group.clone();
            let r2 = req.clone();
            let task = tokio::spawn(async move {
                send_req(&g2, &r2).await;
            });
            // let the request run until its storage call parks (or it completes without one)
            for _ in 0..200 {
                tokio::task::yield_now().await;
                if store.inner.lock().parked || task.is_finished() {
                    break;
                }
            }
            if store.inner.lock().parked {
                inside = true;
                if matches!(req, Req::Purge { .. }) {
                    IN_FLIGHT_PURGE.with(|p| p.set(true));
                }
            } else {
                // the request completed without touching storage: it is simply one more completed request
                let _ = task.await;
                let mut v = vec![];
                for k in 0..MAX_KS {
                    v.push(actor_view(group, &ks_name(k)).await);
                }
                ACKED.with(|a| *a.borrow_mut() = v);
                let mut sets = vec![];
                for k in 0..MAX_KS {
                    sets.push(e2::actor_set(group, &ks_name(k)).await);
                }
                ACKED_SETS.with(|a| *a.borrow_mut() = sets);
                store.inner.lock().park_at = None;
            }
        }
    }
    Ok((nontrivial, inside))
}

/// Exhaustive small scope (the statement's quantifier: "for all request histories and every crash point"): every history
/// of up to four requests on one keyspace — set / delete of keys {1,2} at four stamps (two origins; two stamps of
/// origin 1 lie more than a forgiveness period after its first, so both sources can move past it and a purge can bite) through either source, each stamp used at most once, and
/// purges — and every stop: after each request and inside each request.
/// Words: [len, crash_after, inside, slot x len] with slot 0 = purge, else 1 + 8 * stamp index + (key | kind | source bits).
pub struct C07Small;

/// decodes one slot of a small-scope history (see `C07Small`)
pub fn small_req(w: u64) -> Req {
    use crate::c02::W;
    let stamps = [
        Stamp { secs: 100_000, frac: 0, counter: 0, node: 1 },
        Stamp { secs: 100_001, frac: 0, counter: 0, node: 2 },
        Stamp { secs: 103_601, frac: 0, counter: 0, node: 1 },
        Stamp { secs: 103_602, frac: 0, counter: 0, node: 1 },
    ];
    if w == 0 {
        return Req::Purge { ks: 0 };
    }
    let si = (((w - 1) / 8) % 4) as usize;
    let bits = (w - 1) % 8;
    let doc = W { key: 1 + (bits & 1), stamp: stamps[si], len: 3 };
    let source = ((bits >> 2) & 1) as usize;
    if bits & 2 != 0 {
        Req::Del { ks: 0, source, w: doc }
    } else {
        Req::Set { ks: 0, source, w: doc }
    }
}

pub fn small_histories() -> Vec<Vec<u64>> {
    fn rec(cur: &mut Vec<u64>, used: u8, stamped: usize, out: &mut Vec<Vec<u64>>) {
        if !cur.is_empty() && stamped > 0 {
            out.push(cur.clone());
        }
        if cur.len() == 4 {
            return;
        }
        cur.push(0);
        rec(cur, used, stamped, out);
        cur.pop();
        for si in 0..4u8 {
            if used & (1 << si) != 0 {
                continue;
            }
            for bits in 0..8u64 {
                cur.push(1 + 8 * si as u64 + bits);
                rec(cur, used | (1 << si), stamped + 1, out);
                cur.pop();
            }
        }
    }
    let mut out = vec![];
    rec(&mut vec![], 0, 0, &mut out);
    out
}

pub fn small_space() -> Vec<Vec<u64>> {
    let mut out = vec![];
    for h in small_histories() {
        let len = h.len() as u64;
        for inside in 0..2u64 {
            let range = if inside == 1 { 0..len } else { 1..len + 1 };
            for crash_after in range {
                let mut w = vec![len, crash_after, inside];
                w.extend(&h);
                out.push(w);
            }
        }
    }
    out
}

impl Prop for C07Small {
    type Case = Case;

    fn id(&self) -> &'static str {
        "C07"
    }

    fn part(&self) -> &'static str {
        "restart-small-scope"
    }

    fn width(&self) -> usize {
        8
    }

    fn shrink_budget(&self) -> usize {
        200
    }

    fn gen(&self, src: &mut Src) -> Case {
        let len = src.word().clamp(1, 4) as usize;
        let crash_after = (src.word() as usize).min(len);
        let inside_next = src.word() & 1 == 1;
        let reqs: Vec<(Req, Option<Fault>)> = (0..len).map(|_| (small_req(src.word()), None)).collect();
        let crash_after = if inside_next { crash_after.min(len - 1) } else { crash_after.max(1) };
        Case { reqs, crash_after, inside_next, second: None, extra_keyspaces: 0, load_read_fault: None }
    }

    fn run(&self, case: &Case) -> Outcome {
        C07.run(case)
    }

    fn describe(&self, case: &Case) -> Value {
        C07.describe(case)
    }

    fn rule(&self) -> &'static str {
        "exhaustive: every history of 1-4 requests on one keyspace (set / delete of keys {1,2} at four stamps of two origins, two of \
         them more than a forgiveness period after another of the same origin so that both sources can move past it, each stamp used at most once, either source; purges \
         anywhere) and every stop point: after each request and inside each request (storage write done, set not updated); same \
         oracle as restart-rebuild"
    }
}

pub fn parts() -> Vec<Box<dyn DynPart>> {
    vec![Box::new(Gen::new(C07, 100_000, 5_000_000)), Box::new(Gen::listed(C07Small, small_space))]
}

// ---------------------------------------------------------------------------------------
// Part `cluster-restart` (E3): a node of a running cluster is stopped (between requests or inside a
// storage call), the others keep working, the node comes back on the same storage; its rebuilt sets must
// equal what storage holds, everything it had acknowledged must still be there, and the cluster must
// converge to the LWW model afterwards.

pub mod cluster {
    use std::collections::BTreeMap;
    use std::time::Duration;

    use serde_json::{json, Value};

    use crate::c01::{check_converged, gen_nodes, gen_op, ks_name, op_json, run_op, Op};
    use crate::core::{Outcome, Pass, Prop, Src};
    use crate::e2::{actor_view, store_view};
    use crate::e3::{self, Layout};
    use crate::ensure;
    use crate::model::Stamp;
    use crate::registry::{DynPart, Gen};

    #[derive(Debug, Clone)]
    pub struct Case {
        pub nodes: Vec<(u8, String)>,
        pub before: Vec<Op>,
        pub victim: usize,
        /// the victim dies inside its next storage write (the write is done, the call never returns)
        pub inside_write: bool,
        /// operations issued elsewhere while the victim is down
        pub during: Vec<Op>,
        pub after: Vec<Op>,
        pub seed: u64,
        /// per node id: simulated latency of its storage calls in ms
        pub storage_latency_ms: BTreeMap<u8, u64>,
    }

    pub struct Restart;

    impl Prop for Restart {
        type Case = Case;

        fn id(&self) -> &'static str {
            "C07"
        }

        fn part(&self) -> &'static str {
            "cluster-restart"
        }

        fn width(&self) -> usize {
            120
        }

        fn shrink_budget(&self) -> usize {
            400
        }

        fn breadcrumbs(&self) -> bool {
            true
        }

        fn gen(&self, src: &mut Src) -> Case {
            let nodes = gen_nodes(src, 4);
            let n = nodes.len();
            let n_keys = 1 + src.below64(4);
            let before = (0..1 + src.below(8)).map(|_| gen_op(src, n, 2, n_keys)).collect();
            let victim = src.below(n);
            let inside_write = src.chance(1, 3);
            let others: Vec<usize> = (0..n).filter(|i| *i != victim).collect();
            let fix = |op: Op, pick: usize| -> Op {
                // operations while the victim is down are issued at the other nodes
                match op {
                    Op::Put { ks, key, len, level, .. } => Op::Put { node: pick, ks, key, len, level },
                    Op::PutMany { ks, keys, len, level, .. } => Op::PutMany { node: pick, ks, keys, len, level },
                    Op::Del { ks, key, level, .. } => Op::Del { node: pick, ks, key, level },
                    Op::DelMany { ks, keys, level, .. } => Op::DelMany { node: pick, ks, keys, level },
                    o => o,
                }
            };
            let mut during = vec![];
            for _ in 0..src.below(6) {
                let op = gen_op(src, n, 2, n_keys);
                let pick = others[src.below(others.len())];
                during.push(fix(op, pick));
            }
            let after = (0..src.below(5)).map(|_| gen_op(src, n, 2, n_keys)).collect();
            let seed = src.word();
            let mut storage_latency_ms = BTreeMap::new();
            for (id, _) in &nodes {
                let ms = *src.pick(&[0u64, 0, 0, 1, 4, 9]);
                if ms > 0 {
                    storage_latency_ms.insert(*id, ms);
                }
            }
            Case { nodes, before, victim, inside_write, during, after, seed, storage_latency_ms }
        }

        fn run(&self, case: &Case) -> Outcome {
            e3::sim(case.seed, 70_000_000, BTreeMap::new(), |_net| run(case))
        }

        fn describe(&self, case: &Case) -> Value {
            json!({
                "nodes": case.nodes,
                "before_the_stop": case.before.iter().map(op_json).collect::<Vec<_>>(),
                "stopped_node": case.nodes[case.victim].0,
                "dies_inside_a_storage_write": case.inside_write,
                "while_it_is_down": case.during.iter().map(op_json).collect::<Vec<_>>(),
                "after_the_restart": case.after.iter().map(op_json).collect::<Vec<_>>(),
                "storage_latency_ms": case.storage_latency_ms,
            })
        }

        fn rule(&self) -> &'static str {
            "2-4 real nodes with the eventual-consistency extension (storage latency 0-9 ms per node, kept across the restart); 1-8 operations through the public handles, then one \
             node is stopped hard (server gone, storage handle fenced) -- in a third of the cases inside its next storage \
             write (write done, call never returns) --, 0-5 operations are issued at the other nodes while it is down, it \
             restarts on the same storage, 0-4 more operations follow; oracle: right after the restart, for every \
             keyspace storage lists, the node's rebuilt set == its storage (ids, tombstones, stamps); every document it \
             wrote itself before the stop is still there with the same or a newer stamp; after 1 s + 3 repair intervals \
             all nodes return the LWW documents; non-trivial = the stopped node held >=1 entry and something was written \
             while it was down"
        }
    }

    async fn run(case: &Case) -> Outcome {
        let repair = Duration::from_secs(5);
        let layout = Layout { nodes: case.nodes.clone(), repair_interval: repair, storage_latency_ms: case.storage_latency_ms.clone() };
        let t_start = tokio::time::Instant::now();
        let mut nodes = e3::start_cluster(&layout).await;
        crate::c01::POLLER_CLOCK.with(|c| c.set(Some((t_start + Duration::from_millis(20), repair))));
        let t0 = tokio::time::Instant::now();
        for op in &case.before {
            run_op(&nodes, op).await;
        }
        // Stop the node between poller cycles: a peer that dies in the middle of a repair makes the other side's
        // poller wait on a std::time (wall clock) watchdog which a paused-time simulation cannot advance.
        e3::align_after_poller_cycle(t0, repair).await;
        e3::advance(700).await;

        let victim_id = case.nodes[case.victim].0;
        if case.inside_write {
            // the next mutating storage call of the victim performs its write and hangs; issue a local write to hit it
            {
                let store = &nodes[case.victim].store;
                let mut g = store.inner.lock();
                g.park_at = Some(g.mutating_calls);
            }
            let h = nodes[case.victim].handle.clone();
            let t = tokio::spawn(async move {
                let _ = h.put("ks0", 3, vec![1, 2, 3], datacake_node::Consistency::None).await;
            });
            for _ in 0..50 {
                tokio::task::yield_now().await;
                if nodes[case.victim].store.inner.lock().parked || t.is_finished() {
                    break;
                }
            }
        }
        // what the victim had written itself (acknowledged or at least persisted) before it died
        let own_writes: Vec<(String, u64, Stamp)> = nodes[case.victim]
            .store
            .inner
            .lock()
            .log
            .iter()
            .filter(|(_, _, ts, _)| ts.node() == victim_id)
            .map(|(ks, id, ts, _)| (ks.clone(), *id, Stamp::of(*ts)))
            .collect();
        let held_before: usize = (0..2).map(|k| nodes[case.victim].store.metadata(&ks_name(k)).len()).sum();

        let victim = nodes.remove(case.victim);
        let (id, dc, store) = e3::kill_node(victim).await;
        let mut wrote_while_down = false;
        for op in &case.during {
            // node indices of `during` refer to the full node list: map to the remaining nodes by id
            let remap = |n: usize| -> usize {
                let want = case.nodes[n].0;
                nodes.iter().position(|x| x.id == want).unwrap_or(0)
            };
            let mapped = match op.clone() {
                Op::Put { node, ks, key, len, level } => Op::Put { node: remap(node), ks, key, len, level },
                Op::PutMany { node, ks, keys, len, level } => Op::PutMany { node: remap(node), ks, keys, len, level },
                Op::Del { node, ks, key, level } => Op::Del { node: remap(node), ks, key, level },
                Op::DelMany { node, ks, keys, level } => Op::DelMany { node: remap(node), ks, keys, level },
                o => o,
            };
            if !matches!(mapped, Op::Advance(_) | Op::ToPollerTick(_)) {
                wrote_while_down = true;
            }
            run_op(&nodes, &mapped).await;
        }

        // restart on the same storage
        let members = e3::members_of(&case.nodes);
        let fresh = e3::start_node(id, &dc, store.restart(), &members, repair).await;
        // right after the restart: rebuilt sets == storage
        let group = fresh.handle.verif_group().clone();
        let listed = fresh.store.keyspace_names();
        for k in 0..2 {
            let name = ks_name(k);
            if !listed.contains(&name) {
                continue;
            }
            let rebuilt = actor_view(&group, &name).await;
            let st = store_view(&fresh.store, &name);
            ensure!(
                rebuilt == st,
                "rebuilt-differs-from-storage",
                "restarted node {id}, keyspace {name}: rebuilt set {:?} but storage holds {:?}",
                rebuilt,
                st
            );
        }
        for (ks, doc_id, t) in &own_writes {
            let now = fresh.store.metadata(ks).get(doc_id).map(|(ts, _)| Stamp::of(*ts));
            ensure!(
                matches!(now, Some(n) if n >= *t),
                "own-write-lost-by-restart",
                "restarted node {id}: its own write of id {doc_id} in {ks} at {:?} is gone (storage now holds {:?})",
                t,
                now
            );
        }
        nodes.insert(case.victim, fresh);
        for op in &case.after {
            run_op(&nodes, op).await;
        }
        e3::advance(1_000 + 3 * 5_000 + 500).await;
        if std::env::var("VP_DEBUG").is_ok() {
            if let Ok(extra) = std::env::var("VP_EXTRA_MS") {
                e3::advance(extra.parse().unwrap()).await;
            }
            for n in &nodes {
                let g = n.handle.verif_group().clone();
                eprintln!("DEBUG node {} set ks0: {:?}", n.id, actor_view(&g, "ks0").await);
            }
            {
                let g4 = nodes[3].handle.verif_group().clone();
                let g1 = nodes[0].handle.verif_group().clone();
                let s1 = crate::e2::actor_set(&g1, "ks0").await.unwrap();
                let m = g4.get_or_create_keyspace("ks0").await;
                let d = m.send(datacake_eventual_consistency::verif::Diff(s1)).await;
                eprintln!("DEBUG node4.diff(node1) = {:?}", d);
                let info1 = g1.get_keyspace_info().await;
                let info4 = g4.get_keyspace_info().await;
                eprintln!("DEBUG node1 keyspace info {:?}", info1.keyspace_timestamps.iter().map(|(k, v)| (k.clone(), crate::model::Stamp::of(*v).json())).collect::<Vec<_>>());
                eprintln!("DEBUG node4 keyspace info {:?}", info4.keyspace_timestamps.iter().map(|(k, v)| (k.clone(), crate::model::Stamp::of(*v).json())).collect::<Vec<_>>());
            }
        }
        check_converged(&nodes, 2, "after the restart, healing and 3 repair intervals")?;

        let mut labels = vec![];
        if case.inside_write {
            labels.push("died_inside_storage_write");
        }
        if wrote_while_down {
            labels.push("writes_while_down");
        }
        if !case.storage_latency_ms.is_empty() {
            labels.push("slow_storage");
        }
        Ok(Pass { nontrivial: held_before > 0 && wrote_while_down, labels })
    }

    pub fn parts() -> Vec<Box<dyn DynPart>> {
        vec![Box::new(Gen::new(Restart, 20_000, 1_000_000))]
    }
}


// ---------------------------------------------------------------------------------------
// Parts `sqlite-restart` / `lmdb-restart` (E2 on the bundled backends): the same question with the real
// `SqliteStorage` (file) and `LmdbStorage` underneath.  A life of the node = one runtime; the node stops
// between requests (its runtime, group, actors and storage handle are dropped), the next life opens the
// same file / environment again and runs `load_states_from_storage`.

pub mod backend {
    use std::marker::PhantomData;
    use std::sync::Arc;

    use datacake_eventual_consistency::verif::{Del, DocVec, KeyspaceGroup, MultiDel, MultiSet, PurgeDeletes, Serialize, Set};
    use datacake_eventual_consistency::Storage;
    use datacake_lmdb::LmdbStorage;
    use datacake_node::Clock;
    use datacake_sqlite::SqliteStorage;
    use serde_json::{json, Value};

    use crate::c02::{ks_name, req_json, Req, ReqGen};
    use crate::core::{Fail, Outcome, Pass, Prop, Src};
    use crate::e2;
    use crate::ensure;
    use crate::model::{view, SetView, Stamp};
    use crate::registry::{DynPart, Gen};

    const MAX_KS: usize = 3;

    #[derive(Debug, Clone, Copy, PartialEq, Eq)]
    pub enum Kind {
        Sqlite,
        Lmdb,
    }

    #[derive(Debug, Clone)]
    pub struct Case {
        /// the requests of each life of the node; the node stops after the last request of a life
        pub lives: Vec<Vec<Req>>,
        /// client reads of each life: (before request index, keyspace, id, through get_many) -- what
        /// `ReplicatedStoreHandle::get` / `get_many` do, a point lookup straight on the backend. A read can be the very
        /// first thing that touches a keyspace in a life (after the seeded change `C07q`)
        pub reads: Vec<Vec<(usize, usize, u64, bool)>>,
    }

    pub struct BackendRestart {
        pub kind: Kind,
    }

    impl Prop for BackendRestart {
        type Case = Case;

        fn id(&self) -> &'static str {
            "C07"
        }

        fn part(&self) -> &'static str {
            match self.kind {
                Kind::Sqlite => "sqlite-restart",
                Kind::Lmdb => "lmdb-restart",
            }
        }

        fn width(&self) -> usize {
            3 * 10 * 26 + 16
        }

        fn breadcrumbs(&self) -> bool {
            true
        }

        fn process_isolated(&self) -> bool {
            // see C17: liblmdb's per-thread reader slots do not survive environments that are opened and
            // closed from many threads of one process
            self.kind == Kind::Lmdb
        }

        fn shrink_budget(&self) -> usize {
            400
        }

        fn gen(&self, src: &mut Src) -> Case {
            let mut g = ReqGen::new(src);
            g.n_ks = 1 + src.below(3);
            let n_lives = 1 + src.below(3);
            let lives: Vec<Vec<Req>> = (0..n_lives)
                .map(|_| {
                    let n = 1 + src.below(10);
                    (0..n).map(|_| g.req(src)).collect()
                })
                .collect();
            let reads = lives
                .iter()
                .map(|l| {
                    (0..src.below(3))
                        .map(|_| (if src.chance(1, 2) { 0 } else { src.below(l.len() + 1) }, src.below(MAX_KS), *src.pick(&[1u64, 2, 3, 7, u64::MAX]), src.chance(1, 3)))
                        .collect()
                })
                .collect();
            Case { lives, reads }
        }

        fn run(&self, case: &Case) -> Outcome {
            let dir = crate::c17::scratch_dir();
            let r = match self.kind {
                Kind::Sqlite => run_lives::<SqliteStorage, _, _>(case, &dir, |d| async move { SqliteStorage::open(format!("{d}/db.sqlite")).await.map_err(|e| e.to_string()) }, |_| None),
                Kind::Lmdb => run_lives::<LmdbStorage, _, _>(case, &dir, |d| async move { LmdbStorage::open(&d).await.map_err(|e| e.to_string()) }, |s: &LmdbStorage| {
                    Some(s.handle().env().clone())
                }),
            };
            let _ = std::fs::remove_dir_all(&dir);
            r
        }

        fn describe(&self, case: &Case) -> Value {
            json!({
                "lives": case.lives.iter().map(|l| l.iter().map(req_json).collect::<Vec<_>>()).collect::<Vec<_>>(),
                "client_reads(before request, keyspace, id, get_many)": case.reads,
            })
        }

        fn rule(&self) -> &'static str {
            "1-3 lives of a node, each 1-10 keyspace requests as in C02 (set / del / bulk / purge with generated stamps, \
             origins, sources, 1-3 keyspaces) on a real KeyspaceGroup over the real backend (SqliteStorage file or \
             LmdbStorage, scratch in /dev/shm); between lives everything of the node is dropped and the same file / \
             environment is opened again, then load_states_from_storage runs; oracle after every restart: for every \
             keyspace the backend lists the rebuilt set's live ids / tombstones / stamps equal iter_metadata, unlisted \
             keyspaces have no state, and every entry the set showed after the last completed request of the previous \
             life is still there with the same or a newer stamp; non-trivial = the state carried over a restart held \
             >=1 tombstone and >=1 live id"
        }
    }

    async fn send<S: Storage + Send + Sync + 'static>(group: &KeyspaceGroup<S>, req: &Req) -> bool {
        match req {
            Req::Set { ks, source, w } => {
                let m = group.get_or_create_keyspace(&ks_name(*ks)).await;
                m.send(Set::<S> { source: *source, doc: e2::doc(w.key, w.stamp, w.len), ctx: None, _marker: PhantomData }).await.is_ok()
            },
            Req::Del { ks, source, w } => {
                let m = group.get_or_create_keyspace(&ks_name(*ks)).await;
                m.send(Del::<S> { source: *source, doc: e2::meta(w.key, w.stamp), _marker: PhantomData }).await.is_ok()
            },
            Req::MultiSet { ks, source, ws } => {
                let m = group.get_or_create_keyspace(&ks_name(*ks)).await;
                let docs = ws.iter().map(|w| e2::doc(w.key, w.stamp, w.len)).collect();
                m.send(MultiSet::<S> { source: *source, docs: DocVec::from_vec(docs), ctx: None, _marker: PhantomData }).await.is_ok()
            },
            Req::MultiDel { ks, source, ws } => {
                let m = group.get_or_create_keyspace(&ks_name(*ks)).await;
                let docs = ws.iter().map(|w| e2::meta(w.key, w.stamp)).collect();
                m.send(MultiDel::<S> { source: *source, docs: DocVec::from_vec(docs), _marker: PhantomData }).await.is_ok()
            },
            Req::Purge { ks } => {
                let m = group.get_or_create_keyspace(&ks_name(*ks)).await;
                m.send(PurgeDeletes::<S>(PhantomData)).await.is_ok()
            },
        }
    }

    async fn set_view<S: Storage + Send + Sync + 'static>(group: &KeyspaceGroup<S>, ks: &str) -> SetView {
        let Some(mailbox) = group.verif_get(ks) else { return SetView::default() };
        match mailbox.send(Serialize).await {
            Ok(bytes) => view(&e2::decode_set(&bytes)),
            Err(_) => SetView::default(),
        }
    }

    async fn storage_view<S: Storage>(store: &S, ks: &str) -> Result<SetView, Fail> {
        let mut v = SetView::default();
        let it = store.iter_metadata(ks).await.map_err(|e| Fail { signature: "backend-error".into(), message: format!("iter_metadata({ks}) failed: {e}") })?;
        for (k, ts, tomb) in it {
            if tomb {
                v.dead.insert(k, Stamp::of(ts));
            } else {
                v.live.insert(k, Stamp::of(ts));
            }
        }
        Ok(v)
    }

    /// The set against what the backend's READ path returns (independent of the flags `iter_metadata` reports):
    /// a live id has a document carrying the set's stamp, a tombstoned id has none.
    async fn check_reads<S: Storage>(store: &S, ks: &str, set: &SetView, when: &str) -> Result<(), Fail> {
        for (id, t) in set.live.iter() {
            let got = store.get(ks, *id).await.map_err(|e| Fail { signature: "backend-error".into(), message: format!("get({ks},{id}) failed: {e}") })?;
            let got = got.map(|d| Stamp::of(d.last_updated()));
            ensure!(got == Some(*t), "live-in-set-but-not-readable", "{when}: keyspace {ks}: id {id} is live at {:?} in the set but a read from storage returns {:?}", t, got);
        }
        for (id, t) in set.dead.iter() {
            let got = store.get(ks, *id).await.map_err(|e| Fail { signature: "backend-error".into(), message: format!("get({ks},{id}) failed: {e}") })?;
            ensure!(got.is_none(), "tombstone-in-set-but-readable", "{when}: keyspace {ks}: id {id} is a tombstone at {:?} in the set but a read from storage returns a document at {:?}", t, got.map(|d| Stamp::of(d.last_updated())));
        }
        Ok(())
    }

    fn thread_count() -> usize {
        std::fs::read_dir("/proc/self/task").map(|d| d.count()).unwrap_or(0)
    }

    fn run_lives<S, O, Fut>(case: &Case, dir: &str, open: O, env_of: impl Fn(&S) -> Option<datacake_lmdb::heed::Env>) -> Outcome
    where
        S: Storage + Send + Sync + 'static,
        O: Fn(String) -> Fut,
        Fut: std::future::Future<Output = Result<S, String>>,
    {
        run_lives_with(&case.lives, &case.reads, dir, open, env_of, false)
    }

    /// A client read is what `ReplicatedStoreHandle::get` / `get_many` do: a point lookup straight on the backend. Nothing
    /// is compared here on purpose: a read-back around it could repair the very state it is meant to expose.
    async fn client_reads<S: Storage>(store: &S, reads: &[(usize, usize, u64, bool)], at: usize, life: usize) -> Result<(), Fail> {
        for (_, k, id, many) in reads.iter().filter(|r| r.0 == at) {
            let name = ks_name(*k);
            if *many {
                store.multi_get(&name, vec![*id, id.wrapping_add(1)].into_iter()).await.map(|_| ()).map_err(|e| Fail { signature: "backend-error".into(), message: format!("life {life}: multi_get({name},{id}) failed: {e}") })?;
            } else {
                store.get(&name, *id).await.map(|_| ()).map_err(|e| Fail { signature: "backend-error".into(), message: format!("life {life}: get({name},{id}) failed: {e}") })?;
            }
        }
        Ok(())
    }

    /// `compare_after_every_request`: C02's oracle on the real backend (set == storage after every request).
    pub fn run_lives_with<S, O, Fut>(
        lives: &[Vec<Req>],
        reads: &[Vec<(usize, usize, u64, bool)>],
        dir: &str,
        open: O,
        env_of: impl Fn(&S) -> Option<datacake_lmdb::heed::Env>,
        compare_after_every_request: bool,
    ) -> Outcome
    where
        S: Storage + Send + Sync + 'static,
        O: Fn(String) -> Fut,
        Fut: std::future::Future<Output = Result<S, String>>,
    {
        let mut acked: Option<Vec<SetView>> = None;
        let mut nontrivial = false;
        let mut labels = vec![];
        // one more life than the case has: the last one only restarts and checks
        for life in 0..=lives.len() {
            let threads_before = thread_count();
            let rt = tokio::runtime::Builder::new_current_thread().enable_all().build().unwrap();
            let mut env = None;
            let res: Result<Vec<SetView>, Fail> = rt.block_on(async {
                let store = open(dir.to_string()).await.map_err(|e| Fail { signature: "backend-open-failed".into(), message: format!("life {life}: opening the backend failed: {e}") })?;
                env = env_of(&store);
                let store = Arc::new(store);
                let group = KeyspaceGroup::new(store.clone(), Clock::new(9)).await;
                // the group's hourly purge task ticks once right after it starts (its first timer fires within a
                // timer-wheel millisecond); let that happen now, while no keyspace is loaded, so that it cannot
                // (legitimately) purge old tombstones at a moment that depends on thread timing
                tokio::time::sleep(std::time::Duration::from_millis(3)).await;
                group.load_states_from_storage().await.map_err(|e| Fail { signature: "load-failed".into(), message: format!("life {life}: load_states_from_storage failed: {e}") })?;
                if let Some(before) = &acked {
                    let listed = store.get_keyspace_list().await.map_err(|e| Fail { signature: "backend-error".into(), message: format!("get_keyspace_list failed: {e}") })?;
                    for k in 0..MAX_KS {
                        let name = ks_name(k);
                        let rebuilt = set_view(&group, &name).await;
                        if listed.contains(&name) {
                            let st = storage_view(&*store, &name).await?;
                            ensure!(rebuilt == st, "rebuilt-differs-from-storage", "restart {life}: keyspace {name}: rebuilt set {:?} but storage holds {:?}", rebuilt, st);
                        } else {
                            ensure!(rebuilt == SetView::default(), "state-for-unlisted-keyspace", "restart {life}: keyspace {name} is not listed by storage but has state {:?}", rebuilt);
                        }
                        if listed.contains(&name) {
                            check_reads(&*store, &name, &rebuilt, &format!("restart {life}")).await?;
                        }
                        for (id, t) in before[k].live.iter() {
                            let now = rebuilt.live.get(id).or_else(|| rebuilt.dead.get(id));
                            // still live at the same stamp, or superseded by something strictly newer: a tombstone
                            // carrying the write's own stamp means the document was turned into a delete
                            ensure!(
                                rebuilt.live.get(id) == Some(t) || matches!(now, Some(n) if n > t),
                                "acked-write-lost",
                                "restart {life}: keyspace {name}: id {id} was live at {:?} when the node stopped, the rebuilt set holds {:?} (storage lists keyspaces {:?})",
                                t,
                                now,
                                listed
                            );
                        }
                        let newest = before[k].live.values().chain(before[k].dead.values()).max().copied();
                        for (id, t) in before[k].dead.iter() {
                            let now = rebuilt.live.get(id).or_else(|| rebuilt.dead.get(id));
                            // a purge (the group runs one when it starts) may drop a tombstone that is more than the
                            // forgiveness period older than the newest entry, from the set and from storage alike
                            let purgeable = matches!(newest, Some(n) if n.secs >= t.secs + 3_600);
                            let purged = now.is_none() && purgeable && !storage_view(&*store, &name).await?.dead.contains_key(id);
                            ensure!(
                                rebuilt.dead.get(id) == Some(t) || matches!(now, Some(n) if n > t) || purged,
                                "acked-delete-lost",
                                "restart {life}: keyspace {name}: id {id} was a tombstone at {:?} when the node stopped, the rebuilt set holds {:?} (storage lists keyspaces {:?})",
                                t,
                                now,
                                listed
                            );
                        }
                    }
                }
                if let Some(reqs) = lives.get(life) {
                    let no_reads = vec![];
                    let life_reads = reads.get(life).unwrap_or(&no_reads);
                    if !life_reads.is_empty() && !labels.contains(&"client_read") {
                        labels.push("client_read");
                    }
                    for (i, r) in reqs.iter().enumerate() {
                        client_reads(&*store, life_reads, i, life).await?;
                        let ok = send(&group, r).await;
                        if compare_after_every_request {
                            for k in 0..MAX_KS {
                                let name = ks_name(k);
                                let sv = set_view(&group, &name).await;
                                let st = storage_view(&*store, &name).await?;
                                check_reads(&*store, &name, &sv, &format!("after request {i} ({})", req_json(r))).await?;
                                ensure!(
                                    sv == st,
                                    "set-differs-from-storage",
                                    "after request {i} ({}) keyspace {name}: set {:?} but the backend holds {:?}",
                                    req_json(r),
                                    sv,
                                    st
                                );
                            }
                        }
                        if std::env::var_os("VP_DEBUG").is_some() {
                            for k in 0..MAX_KS {
                                let name = ks_name(k);
                                let sv = set_view(&group, &name).await;
                                let st = storage_view(&*store, &name).await?;
                                eprintln!("DEBUG life {life} req {i} ok={ok} {name}: set {:?} | storage {:?}{}", sv, st, if sv != st { "  <-- DIFFER" } else { "" });
                            }
                        }
                    }
                }
                if let Some(reqs) = lives.get(life) {
                    if let Some(life_reads) = reads.get(life) {
                        client_reads(&*store, life_reads, reqs.len(), life).await?;
                    }
                }
                let mut views = vec![];
                for k in 0..MAX_KS {
                    views.push(set_view(&group, &ks_name(k)).await);
                }
                Ok(views)
            });
            // the node stops: its tasks, actors and storage handles go away with the runtime
            drop(rt);
            if let Some(env) = env {
                // liblmdb: the worker thread must be gone before the environment is unmapped (see C17)
                for _ in 0..20_000 {
                    if thread_count() <= threads_before {
                        break;
                    }
                    std::thread::sleep(std::time::Duration::from_micros(100));
                }
                env.prepare_for_closing().wait();
            }
            let views = res?;
            if life < lives.len() {
                let carried = views.iter().any(|v| !v.dead.is_empty()) && views.iter().any(|v| !v.live.is_empty());
                nontrivial |= carried;
                if views.iter().any(|v| v.live.is_empty() && !v.dead.is_empty()) && !labels.contains(&"keyspace_of_tombstones_only") {
                    labels.push("keyspace_of_tombstones_only");
                }
                if life >= 1 && !labels.contains(&"restarts>=2") {
                    labels.push("restarts>=2");
                }
            }
            acked = Some(views);
        }
        Ok(Pass { nontrivial, labels })
    }

    pub fn parts() -> Vec<Box<dyn DynPart>> {
        vec![
            Box::new(Gen::new(BackendRestart { kind: Kind::Sqlite }, 6_000, 200_000)),
            Box::new(Gen::new(BackendRestart { kind: Kind::Lmdb }, 20_000, 600_000)),
        ]
    }
}

pub fn parts_all() -> Vec<Box<dyn DynPart>> {
    let mut p = parts();
    p.extend(cluster::parts());
    p.extend(backend::parts());
    p
}
