//! C05 — the computed difference is exactly what a replica lacks; one exchange repairs.

use std::collections::BTreeMap;

use datacake_crdt::{HLCTimestamp, OrSWotSet};
use serde_json::{json, Value};

use crate::core::{Outcome, Pass, Prop, Src};
use crate::ensure;
use crate::model::{view, Stamp};
use crate::registry::{DynPart, Gen};
use crate::replicas::{build, gen_plan, gen_pool, gen_pool_gaps, plan_json, pool_json, Mode, Pool, ReplicaPlan};

const UNUSED_KEY: u64 = 9_999_999;

#[derive(Debug, Clone)]
pub struct Case {
    pub pool: Pool,
    pub plans: [ReplicaPlan; 2],
    /// purge the replica before diffing (exactness oracle only)
    pub purge: [bool; 2],
    /// how the modification list is cut into fetch chunks (cut points as fractions) and where the
    /// removal batch lands among them, for both directions
    pub chunks: [usize; 2],
    pub removal_pos: [usize; 2],
    /// which wall clock the process shows while the case runs (see `model::with_wall`)
    pub wall: u8,
}

pub struct C05;

impl Prop for C05 {
    type Case = Case;

    fn id(&self) -> &'static str {
        "C05"
    }

    fn part(&self) -> &'static str {
        "diff-exact-and-repair"
    }

    fn width(&self) -> usize {
        128
    }

    fn gen(&self, src: &mut Src) -> Case {
        // one case in five leaves the repair clause's precondition (exactness of the diff is claimed for any replica)
        let pool = if src.chance(1, 500) {
            crate::replicas::gen_pool_big(src)
        } else if src.chance(1, 5) {
            gen_pool_gaps(src, 8)
        } else {
            gen_pool(src, 12)
        };
        let plans = [gen_plan(src, &pool, 2), gen_plan(src, &pool, 2)];
        let purge = [src.chance(1, 2), src.chance(1, 2)];
        let chunks = [1 + src.below(3), 1 + src.below(3)];
        let removal_pos = [src.below(4), src.below(4)];
        let wall = src.below(3) as u8;
        Case { pool, plans, purge, chunks, removal_pos, wall }
    }

    fn run(&self, case: &Case) -> Outcome {
        crate::model::with_wall(case.wall, || run(case))
    }

    fn describe(&self, case: &Case) -> Value {
        json!({
            "pool": pool_json(&case.pool),
            "replicas": case.plans.iter().map(plan_json).collect::<Vec<_>>(),
            "purge_before_diff": case.purge,
            "fetch_chunks": case.chunks,
            "removal_batch_position": case.removal_pos,
            "wall_clock_of_the_process": (["real", "1 h after the datacake epoch (all stamps in the future)", "60 000 000 s after the datacake epoch"][case.wall as usize % 3]),
        })
    }

    fn rule(&self) -> &'static str {
        "two OrSWotSet<2> replicas built as in C03 (Window / Prefix modes; one case in 500 from a pool of 200-5000 operations over up to 20000 keys) or, one case in five, with arbitrary gaps on an exact \
         1 h grid (stamps that sit exactly on a cut-off; exactness only), optionally purged; oracle 1 (always): \
         self.diff(peer) lists key k iff peer holds (k,p) and (self holds k older than p, or self holds nothing \
         for k and a will_apply probe on an unused key accepts p), as modification iff live at the peer, with \
         stamp p, nothing else, no duplicates; oracle 2 (unpurged replicas): applying the diff the way the keyspace \
         actor does (will_apply filter, stamp-sorted, read-repair source, modifications in 1-3 key-ordered chunks, \
         removal batch at a generated position) leaves self.diff(peer) empty, and after both directions live ids \
         and stamps are identical; non-trivial = diff has both a modification and a removal"
    }
}

type Set = OrSWotSet<2>;

fn expected_diff(me: &Set, peer: &Set) -> (BTreeMap<u64, Stamp>, BTreeMap<u64, Stamp>) {
    let mine = view(me);
    let theirs = view(peer);
    let mut changes = BTreeMap::new();
    let mut removals = BTreeMap::new();
    let mut consider = |k: u64, p: Stamp, out: &mut BTreeMap<u64, Stamp>| {
        let held = mine.live.get(&k).or_else(|| mine.dead.get(&k));
        let listed = match held {
            Some(s) => *s < p,
            None => me.will_apply(UNUSED_KEY, p.hlc()),
        };
        if listed {
            out.insert(k, p);
        }
    };
    for (k, p) in &theirs.live {
        consider(*k, *p, &mut changes);
    }
    for (k, p) in &theirs.dead {
        consider(*k, *p, &mut removals);
    }
    (changes, removals)
}

fn as_map(list: &[(u64, HLCTimestamp)]) -> Option<BTreeMap<u64, Stamp>> {
    let mut m = BTreeMap::new();
    for (k, t) in list {
        if m.insert(*k, Stamp::of(*t)).is_some() {
            return None;
        }
    }
    Some(m)
}

/// Applies one batch the way `on_multi_set` / `on_multi_del` do: filter by will_apply on the state
/// at the start of the batch, then apply in stamp order through the read-repair source.
fn apply_batch(me: &mut Set, batch: &[(u64, HLCTimestamp)], delete: bool) {
    let mut valid: Vec<(u64, HLCTimestamp)> =
        batch.iter().copied().filter(|(k, t)| me.will_apply(*k, *t)).collect();
    valid.sort_by_key(|e| e.1);
    for (k, t) in valid {
        if delete {
            me.delete_with_source(1, k, t);
        } else {
            me.insert_with_source(1, k, t);
        }
    }
}

fn sync(me: &mut Set, peer: &Set, chunks: usize, removal_pos: usize) {
    let (changes, removals) = me.diff(peer);
    let n = changes.len();
    let mut batches: Vec<(Vec<(u64, HLCTimestamp)>, bool)> = vec![];
    if n > 0 {
        let c = chunks.min(n).max(1);
        let size = (n + c - 1) / c;
        for ch in changes.chunks(size) {
            batches.push((ch.to_vec(), false));
        }
    }
    if !removals.is_empty() {
        let pos = removal_pos.min(batches.len());
        batches.insert(pos, (removals, true));
    }
    for (b, del) in batches {
        apply_batch(me, &b, del);
    }
}

fn run(case: &Case) -> Outcome {
    let mut a: Set = build::<2>(&case.pool, &case.plans[0]);
    let mut b: Set = build::<2>(&case.pool, &case.plans[1]);
    let a_unpurged = a.clone();
    let b_unpurged = b.clone();
    let mut purged_any = false;
    if case.purge[0] {
        purged_any |= !a.purge_old_deletes().is_empty();
    }
    if case.purge[1] {
        purged_any |= !b.purge_old_deletes().is_empty();
    }

    // A replica holds one thing per key: the view used as the model of "what the peer holds" is read through the
    // set's own diff, so a key that is live AND tombstoned would silently enter the expectation as two facts.
    for (set, name) in [(&a, "A"), (&b, "B")] {
        let v = view(set);
        ensure!(
            v.live.keys().all(|k| !v.dead.contains_key(k)),
            "key-live-and-tombstoned",
            "replica {name} holds a key both live and tombstoned: {:?}",
            v
        );
    }

    // oracle 1: exactness, both directions
    let mut both_kinds = false;
    for (me, peer, name) in [(&a, &b, "A.diff(B)"), (&b, &a, "B.diff(A)")] {
        let (changes, removals) = me.diff(peer);
        let (exp_changes, exp_removals) = expected_diff(me, peer);
        let got_changes = as_map(&changes);
        let got_removals = as_map(&removals);
        ensure!(got_changes.is_some() && got_removals.is_some(), "diff-duplicate", "{name} lists a key twice: {:?} {:?}", changes, removals);
        ensure!(
            got_changes.as_ref().unwrap().keys().all(|k| !got_removals.as_ref().unwrap().contains_key(k)),
            "diff-duplicate",
            "{name} lists a key both as a modification and as a removal: {:?} {:?}",
            changes,
            removals
        );
        ensure!(
            got_changes.as_ref() == Some(&exp_changes),
            "diff-modifications",
            "{name} modifications = {:?}, expected {:?} (self {:?}, peer {:?})",
            got_changes.unwrap(),
            exp_changes,
            view(me),
            view(peer)
        );
        ensure!(
            got_removals.as_ref() == Some(&exp_removals),
            "diff-removals",
            "{name} removals = {:?}, expected {:?} (self {:?}, peer {:?})",
            got_removals.unwrap(),
            exp_removals,
            view(me),
            view(peer)
        );
        if !changes.is_empty() && !removals.is_empty() {
            both_kinds = true;
        }
    }

    if case.pool.mode == Mode::Gaps {
        let mut labels = vec!["mode_gaps_exactness_only"];
        if both_kinds {
            labels.push("modification_and_removal");
        }
        return Ok(Pass { nontrivial: both_kinds, labels });
    }
    // oracle 2: one exchange repairs (precondition of C03: unpurged replicas built by the two modes)
    let mut a2 = a_unpurged.clone();
    let mut b2 = b_unpurged.clone();
    sync(&mut a2, &b_unpurged, case.chunks[0], case.removal_pos[0]);
    let (c, r) = a2.diff(&b_unpurged);
    ensure!(
        c.is_empty() && r.is_empty(),
        "residual-diff",
        "after applying A.diff(B), A still lacks {:?} / {:?} (A before {:?}, B {:?})",
        c,
        r,
        view(&a_unpurged),
        view(&b_unpurged)
    );
    sync(&mut b2, &a_unpurged, case.chunks[1], case.removal_pos[1]);
    let (c, r) = b2.diff(&a_unpurged);
    ensure!(c.is_empty() && r.is_empty(), "residual-diff", "after applying B.diff(A), B still lacks {:?} / {:?}", c, r);
    ensure!(
        view(&a2).live == view(&b2).live,
        "two-way-differ",
        "after both directions live sets differ: A {:?} B {:?}",
        view(&a2).live,
        view(&b2).live
    );

    let mut labels = vec![match case.pool.mode {
        Mode::Window => "mode_window",
        Mode::Prefix => "mode_prefix",
        Mode::Gaps => "mode_gaps",
    }];
    if purged_any {
        labels.push("purged>=1");
    }
    if both_kinds {
        labels.push("modification_and_removal");
    }
    if case.chunks[0] > 1 {
        labels.push("chunked_fetch");
    }
    if case.pool.ops.len() > 64 {
        labels.push("big_pool_200..5000_ops");
    }
    Ok(Pass { nontrivial: both_kinds, labels })
}

/// Exhaustive small scope: every pair of replicas every pool of `replicas::small` can build, every purge combination
/// where purging can matter, and (inside one case) every split of the difference into fetch chunks and removal batch.
/// Words: [universe, variant, pool, plan A, plan B, purge bits].
pub struct C05Small;

fn pairs(which: usize, variant: usize, purges: &[u64], out: &mut Vec<Vec<u64>>) {
    let sm = crate::replicas::small(which);
    for pi in 0..sm.pools.len() {
        let n = sm.plans[pi][variant].len() as u64;
        for a in 0..n {
            for b in 0..n {
                for p in purges {
                    out.push(vec![which as u64, variant as u64, pi as u64, a, b, *p]);
                }
            }
        }
    }
}

pub fn small_space() -> Vec<Vec<u64>> {
    let mut out = vec![];
    pairs(0, 2, &[0], &mut out); // Window: nothing is ever purgeable
    pairs(1, 2, &[0, 1, 2, 3], &mut out); // Prefix: stamps over > 2 h, purged or not
    pairs(2, 1, &[0, 1, 2, 3], &mut out); // Gaps on the exact 1 h grid (exactness only), one source per replica
    out
}

pub fn small_space_thorough() -> Vec<Vec<u64>> {
    let mut out = small_space();
    pairs(2, 2, &[0, 1, 2, 3], &mut out); // Gaps, every source assignment
    out
}

impl Prop for C05Small {
    type Case = Case;

    fn id(&self) -> &'static str {
        "C05"
    }

    fn part(&self) -> &'static str {
        "small-scope-pairs"
    }

    fn width(&self) -> usize {
        6
    }

    fn gen(&self, src: &mut Src) -> Case {
        let which = (src.word() as usize).min(2);
        let variant = (src.word() as usize).clamp(1, 2);
        let sm = crate::replicas::small(which);
        let pi = (src.word() as usize) % sm.pools.len();
        let plans = &sm.plans[pi][variant];
        let mut pick = || plans[(src.word() as usize) % plans.len()].clone();
        let plans2 = [pick(), pick()];
        let p = src.word();
        Case { pool: sm.pools[pi].clone(), plans: plans2, purge: [p & 1 == 1, p & 2 == 2], chunks: [1, 1], removal_pos: [0, 0], wall: 0 }
    }

    fn run(&self, case: &Case) -> Outcome {
        // every split of the difference: 1-2 fetch chunks (there are two keys), removal batch first / between / last
        let mut last = None;
        for chunks in 1..=2usize {
            for pos in 0..=2usize {
                let c = Case { chunks: [chunks, 3 - chunks], removal_pos: [pos, 2 - pos], ..case.clone() };
                last = Some(run(&c)?);
                if case.pool.mode == Mode::Gaps {
                    return Ok(last.unwrap()); // exactness only: the split plays no part
                }
            }
        }
        Ok(last.unwrap())
    }

    fn describe(&self, case: &Case) -> Value {
        C05.describe(case)
    }

    fn rule(&self) -> &'static str {
        "exhaustive: every pool of 1-3 operations with distinct stamps out of a universe of 4 (Window, a cross-node tie) or 5 \
         (Prefix over 7400 s; Gaps on the exact 1 h grid) stamps from two origins, keys {1,2}, insert / delete; every pair of \
         OrSWotSet<2> replicas such a pool can build (every ordered subset / every per-origin prefix, every assignment of \
         sources; Gaps with one source per replica, all assignments in the thorough tier), each purged or not where anything \
         can be purgeable; inside a case every split of the difference (1-2 fetch chunks, removal batch first / between / \
         last); same oracles as diff-exact-and-repair"
    }
}

pub fn parts() -> Vec<Box<dyn DynPart>> {
    vec![
        Box::new(Gen::new(C05, 6_000_000, 400_000_000)),
        Box::new(Gen::listed2(C05Small, small_space, small_space_thorough)),
    ]
}
