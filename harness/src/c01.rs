//! C01 — cluster converges: every node ends with the same last-writer-wins documents.
//! Part `cluster` (E3): public handles of real nodes, lossy/duplicating/delaying in-process network,
//! real batch distributor and real anti-entropy poller.

use std::collections::{BTreeMap, BTreeSet};
use std::time::Duration;

use datacake_node::Consistency;
use datacake_rpc::verif::Verdict;
use serde_json::{json, Value};

use crate::c15::LEVELS;
use crate::core::{Fail, Outcome, Pass, Prop, Src};
use crate::e3::{self, Class, Layout, NodeH};
use crate::ensure;
use crate::model::Stamp;
use crate::registry::{DynPart, Gen};

#[derive(Debug, Clone)]
pub enum Op {
    Put { node: usize, ks: usize, key: u64, len: usize, level: usize },
    PutMany { node: usize, ks: usize, keys: Vec<u64>, len: usize, level: usize },
    Del { node: usize, ks: usize, key: u64, level: usize },
    DelMany { node: usize, ks: usize, keys: Vec<u64>, level: usize },
    Advance(u64),
    /// advance to `offset_ms` after the next tick of the pollers (so that what follows overlaps a repair exchange)
    ToPollerTick(u64),
    /// operations issued at the same instant and awaited together
    Together(Vec<Op>),
    /// operations awaited together, the i-th one issued `i * gap_ms` after the first
    Staggered { gap_ms: u64, ops: Vec<Op> },
}

#[derive(Debug, Clone)]
pub struct Case {
    pub nodes: Vec<(u8, String)>,
    pub skew_ms: BTreeMap<u8, i64>,
    pub repair_secs: u64,
    pub ops: Vec<Op>,
    pub direct: Vec<Verdict>,
    pub batch: Vec<Verdict>,
    pub repair: Vec<Verdict>,
    pub seed: u64,
    /// per node id: simulated latency of its storage calls in ms (absent = none)
    pub storage_latency_ms: BTreeMap<u8, u64>,
}

pub fn gen_verdict(src: &mut Src, lossy: u32) -> Verdict {
    match src.weighted(&[10, lossy, lossy, 2, 2]) {
        0 => Verdict::Deliver,
        1 => Verdict::FailBefore,
        2 => Verdict::FailAfter,
        3 => Verdict::Duplicate,
        _ => Verdict::Delay(Duration::from_millis(*src.pick(&[1u64, 200, 900, 1_500, 4_000]))),
    }
}

/// the id of the i-th node of a generated cluster
pub fn styled_id(extreme: bool, i: usize) -> u8 {
    if !extreme {
        i as u8 + 1
    } else if i % 2 == 0 {
        255 - (i / 2) as u8
    } else {
        (i / 2) as u8
    }
}

pub fn gen_nodes(src: &mut Src, max_nodes: usize) -> Vec<(u8, String)> {
    let n = 2 + src.below(max_nodes - 1);
    let two_dcs = src.chance(1, 4);
    // node ids: 1, 2, 3 ... or (one cluster in three) from both ends of the id range: 255, 0, 254, 1 ... -- the greatest
    // id is where `id + 1` wraps, the smallest where `id - 1` does (round 16, after the seeded change `C16q`)
    let extreme = src.chance(1, 3);
    (0..n)
        .map(|i| {
            let dc = if two_dcs && i % 2 == 1 { "dc-b" } else { "dc-a" };
            (styled_id(extreme, i), dc.to_string())
        })
        .collect()
}

pub fn level_name(i: usize) -> String {
    format!("{:?}", LEVELS[i])
}

pub fn op_json(op: &Op) -> Value {
    match op {
        Op::Put { node, ks, key, len, level } => json!({"put": key, "len": len, "at_node": node + 1, "ks": ks, "level": level_name(*level)}),
        Op::PutMany { node, ks, keys, len, level } => json!({"put_many": keys, "len": len, "at_node": node + 1, "ks": ks, "level": level_name(*level)}),
        Op::Del { node, ks, key, level } => json!({"del": key, "at_node": node + 1, "ks": ks, "level": level_name(*level)}),
        Op::DelMany { node, ks, keys, level } => json!({"del_many": keys, "at_node": node + 1, "ks": ks, "level": level_name(*level)}),
        Op::Advance(ms) => json!({"advance_ms": ms}),
        Op::ToPollerTick(ms) => json!({"advance_to_ms_after_the_next_poller_tick": ms}),
        Op::Together(ops) => json!({"concurrently": ops.iter().map(op_json).collect::<Vec<_>>()}),
        Op::Staggered { gap_ms, ops } => json!({"overlapping_started_ms_apart": gap_ms, "ops": ops.iter().map(op_json).collect::<Vec<_>>()}),
    }
}

/// Like `gen_op`, but one time in five 2-3 operations are issued concurrently.
pub fn gen_op_or_group(src: &mut Src, n_nodes: usize, n_ks: usize, n_keys: u64) -> Op {
    if src.chance(1, 5) {
        let n = 2 + src.below(2);
        let mut ops = vec![];
        for _ in 0..n {
            let op = gen_op(src, n_nodes, n_ks, n_keys);
            if !matches!(op, Op::Advance(_)) {
                ops.push(op);
            }
        }
        if ops.len() >= 2 {
            if src.chance(1, 2) {
                return Op::Staggered { gap_ms: *src.pick(&[1u64, 5, 20, 100]), ops };
            }
            return Op::Together(ops);
        }
        return ops.pop().unwrap_or(Op::Advance(0));
    }
    gen_op(src, n_nodes, n_ks, n_keys)
}

pub fn gen_op(src: &mut Src, n_nodes: usize, n_ks: usize, n_keys: u64) -> Op {
    let node = src.below(n_nodes);
    let ks = src.below(n_ks);
    let level = *src.pick(&[0usize, 0, 1, 1, 2, 4, 6, 3, 5, 7]);
    let len = *src.pick(&[3usize, 0, 1, 17, 300]);
    let mut keys = |src: &mut Src| -> Vec<u64> {
        let n = 1 + src.below(3);
        let mut set = BTreeSet::new();
        for _ in 0..n {
            set.insert(1 + src.below64(n_keys));
        }
        set.into_iter().collect()
    };
    match src.weighted(&[5, 4, 2, 2, 3, 1]) {
        0 => Op::Put { node, ks, key: 1 + src.below64(n_keys), len, level },
        1 => Op::Del { node, ks, key: 1 + src.below64(n_keys), level },
        2 => Op::PutMany { node, ks, keys: keys(src), len, level },
        3 => Op::DelMany { node, ks, keys: keys(src), level },
        4 => Op::Advance(*src.pick(&[0u64, 10, 300, 1_100, 2_500, 6_000])),
        _ => Op::ToPollerTick(src.below64(120)),
    }
}

thread_local! {
    /// (moment the first node of the cluster was started, repair interval) of the case running on this thread
    pub static POLLER_CLOCK: std::cell::Cell<Option<(tokio::time::Instant, Duration)>> = std::cell::Cell::new(None);
}

pub struct Cluster;

impl Prop for Cluster {
    type Case = Case;

    fn id(&self) -> &'static str {
        "C01"
    }

    fn part(&self) -> &'static str {
        "cluster"
    }

    fn width(&self) -> usize {
        160
    }

    fn breadcrumbs(&self) -> bool {
        true
    }

    fn shrink_budget(&self) -> usize {
        600
    }

    fn gen(&self, src: &mut Src) -> Case {
        let nodes = gen_nodes(src, 4);
        let mut skew_ms = BTreeMap::new();
        for (id, _) in &nodes {
            skew_ms.insert(*id, *src.pick(&[0i64, 0, 500, -500, 60_000, -60_000, 600_000]));
        }
        let n_ks = 1 + src.below(2);
        let n_keys = 1 + src.below64(4);
        let n_ops = 1 + src.below(12);
        let ops = (0..n_ops).map(|_| gen_op_or_group(src, nodes.len(), n_ks, n_keys)).collect();
        let lossy = *src.pick(&[0u32, 3, 6, 12]);
        let direct = (0..12).map(|_| gen_verdict(src, lossy)).collect();
        let batch = (0..8).map(|_| gen_verdict(src, lossy)).collect();
        let repair = (0..10).map(|_| gen_verdict(src, lossy / 2)).collect();
        let repair_secs = *src.pick(&[5u64, 2, 30]);
        let seed = src.word();
        let mut storage_latency_ms = BTreeMap::new();
        for (id, _) in &nodes {
            let ms = *src.pick(&[0u64, 0, 0, 1, 4, 15, 60, 250]);
            if ms > 0 {
                storage_latency_ms.insert(*id, ms);
            }
        }
        Case { nodes, skew_ms, repair_secs, ops, direct, batch, repair, seed, storage_latency_ms }
    }

    fn run(&self, case: &Case) -> Outcome {
        e3::sim(case.seed, 70_000_000, case.skew_ms.clone(), |net| run(case, net))
    }

    fn describe(&self, case: &Case) -> Value {
        json!({
            "nodes": case.nodes,
            "clock_skew_ms": case.skew_ms,
            "repair_interval_s": case.repair_secs,
            "storage_latency_ms": case.storage_latency_ms,
            "ops": case.ops.iter().map(op_json).collect::<Vec<_>>(),
            "direct_message_fates": case.direct.iter().map(|v| format!("{:?}", v)).collect::<Vec<_>>(),
            "batch_message_fates": case.batch.iter().map(|v| format!("{:?}", v)).collect::<Vec<_>>(),
            "repair_message_fates": case.repair.iter().map(|v| format!("{:?}", v)).collect::<Vec<_>>(),
            "seed": case.seed,
        })
    }

    fn rule(&self) -> &'static str {
        "2-4 real DatacakeNodes (1-2 data centres, per-node clock skew up to 10 min, per-node storage latency 0-250 ms) with the real eventual-consistency \
         extension in one paused-time runtime; 1-12 operations put/put_many/del/del_many through the public handles at \
         generated nodes, keyspaces, keys and consistency levels (one step in five issues 2-3 of them concurrently, at once or 1-100 ms apart), \
         interleaved with time advances of 0-6 s or to 0-119 ms after the next poller tick (operations overlapping a \
         repair exchange); every direct, \
         batch and repair message gets a generated fate (deliver, drop request, drop reply, duplicate, delay up to 4 s); \
         then faults are cleared and 1 s + 3 repair intervals pass (every node completes a poller cycle with every peer); \
         oracle: on every node and keyspace the documents storage returns (ids, bytes, stamps) equal the LWW model \
         computed from the operations as their origin nodes wrote them, and the newest version of every id held \
         anywhere (live or tombstone) was first written by the node its stamp names; non-trivial = >=2 origins wrote, >=1 direct or \
         batch message was lost, and the poller fetched something"
    }
}

pub fn level(i: usize) -> Consistency {
    LEVELS[i]
}

pub fn ks_name(i: usize) -> String {
    format!("ks{i}")
}

pub async fn run_op(nodes: &[NodeH], op: &Op) -> Option<bool> {
    match op {
        Op::Staggered { gap_ms, ops } => {
            let futs: Vec<_> = ops
                .iter()
                .enumerate()
                .map(|(i, o)| {
                    Box::pin(async move {
                        tokio::time::sleep(Duration::from_millis(gap_ms * i as u64)).await;
                        run_op(nodes, o).await
                    }) as std::pin::Pin<Box<dyn std::future::Future<Output = Option<bool>> + '_>>
                })
                .collect();
            futures::future::join_all(futs).await;
            None
        },
        Op::Together(ops) => {
            let futs: Vec<_> = ops.iter().map(|o| Box::pin(run_op(nodes, o)) as std::pin::Pin<Box<dyn std::future::Future<Output = Option<bool>> + '_>>).collect();
            futures::future::join_all(futs).await;
            None
        },
        Op::Put { node, ks, key, len, level: l } => {
            let data = vec![(*key as u8).wrapping_mul(31).wrapping_add(*node as u8); *len];
            Some(nodes[*node].handle.put(&ks_name(*ks), *key, data, level(*l)).await.is_ok())
        },
        Op::PutMany { node, ks, keys, len, level: l } => {
            let docs: Vec<(u64, Vec<u8>)> =
                keys.iter().map(|k| (*k, vec![(*k as u8).wrapping_mul(17).wrapping_add(*node as u8); *len])).collect();
            Some(nodes[*node].handle.put_many(&ks_name(*ks), docs, level(*l)).await.is_ok())
        },
        Op::Del { node, ks, key, level: l } => Some(nodes[*node].handle.del(&ks_name(*ks), *key, level(*l)).await.is_ok()),
        Op::DelMany { node, ks, keys, level: l } => {
            Some(nodes[*node].handle.del_many(&ks_name(*ks), keys.clone(), level(*l)).await.is_ok())
        },
        Op::Advance(ms) => {
            e3::advance(*ms).await;
            None
        },
        Op::ToPollerTick(offset) => {
            // pollers tick 0.5 s after their node's extension was created and then at every multiple of the repair
            // interval; the nodes of a cluster are created 20 ms apart
            match POLLER_CLOCK.with(|c| c.get()) {
                Some((t0, repair)) => {
                    let r = repair.as_millis() as u64;
                    let now = t0.elapsed().as_millis() as u64;
                    let next = if now < 500 { 500 } else { (now / r + 1) * r };
                    e3::advance(next + offset - now).await;
                },
                None => e3::advance(*offset).await,
            }
            None
        },
    }
}

/// For every version (keyspace, id, stamp, is_tombstone): the node whose store wrote it first.
pub fn first_writers(nodes: &[NodeH]) -> BTreeMap<(String, u64, Stamp, bool), (u64, u8)> {
    let mut first: BTreeMap<(String, u64, Stamp, bool), (u64, u8)> = BTreeMap::new();
    for n in nodes {
        let g = n.store.inner.lock();
        for ((ks, id, ts, bytes), seq) in g.log.iter().zip(g.log_seq.iter()) {
            let e = first.entry((ks.clone(), *id, Stamp::of(*ts), bytes.is_none())).or_insert((*seq, n.id));
            if *seq < e.0 {
                *e = (*seq, n.id);
            }
        }
    }
    first
}

/// LWW model over what the origin nodes wrote: (keyspace, id) -> (stamp, bytes or None).
/// An operation is what a node wrote under its own node id before any other node had that version (an origin
/// applies locally before it replicates); a version that reached the node named in its stamp from elsewhere
/// was issued by nobody and is not part of the model.
pub fn lww_of_origin_writes(nodes: &[NodeH]) -> BTreeMap<(String, u64), (Stamp, Option<Vec<u8>>)> {
    let first = first_writers(nodes);
    let mut model: BTreeMap<(String, u64), (Stamp, Option<Vec<u8>>)> = BTreeMap::new();
    for n in nodes {
        let g = n.store.inner.lock();
        for (ks, id, ts, bytes) in g.log.iter() {
            if ts.node() != n.id {
                continue;
            }
            let s = Stamp::of(*ts);
            if first.get(&(ks.clone(), *id, s, bytes.is_none())).map(|f| f.1) != Some(n.id) {
                continue;
            }
            let e = model.entry((ks.clone(), *id)).or_insert((s, bytes.clone()));
            if e.0 < s {
                *e = (s, bytes.clone());
            }
        }
    }
    model
}

/// The newest version of an id held anywhere in the cluster (live or tombstone) was written first by the node
/// its stamp names: replicas store the versions origins issued and never one of their own making.
///
/// Why this cannot fire on correct code: an origin applies its operation locally before it tells anyone; if
/// that local apply was refused as outdated the origin held something newer, which it keeps (no purge runs
/// within these histories), so the refused version is not the newest one held anywhere.
pub fn check_no_invented_versions(nodes: &[NodeH], n_ks: usize, when: &str) -> Result<(), Fail> {
    // (keyspace, id, stamp, is_tombstone) -> (sequence number of its first successful write, node)
    let first = first_writers(nodes);
    let ids: BTreeSet<u8> = nodes.iter().map(|n| n.id).collect();
    for k in 0..n_ks {
        let name = ks_name(k);
        // newest version per id over all nodes
        let mut newest: BTreeMap<u64, (Stamp, bool, u8)> = BTreeMap::new();
        for n in nodes {
            let g = n.store.inner.lock();
            let Some(entries) = g.data.get(&name) else { continue };
            for (id, (ts, doc)) in entries.iter() {
                let s = Stamp::of(*ts);
                let e = newest.entry(*id).or_insert((s, doc.is_none(), n.id));
                if e.0 < s {
                    *e = (s, doc.is_none(), n.id);
                }
            }
        }
        for (id, (s, tomb, holder)) in newest {
            if !ids.contains(&s.node) {
                continue;
            }
            let Some((_, first_at)) = first.get(&(name.clone(), id, s, tomb)) else { continue };
            if *first_at != s.node {
                return Err(Fail {
                    signature: "version-nobody-issued".into(),
                    message: format!(
                        "{when}: node {holder} keyspace {name} holds id {id} as a {} stamped {}; that version was first written by node {first_at}, \
                         not by node {} which the stamp names, so no operation issued it; versions of this id by first writer: {:?}",
                        if tomb { "tombstone" } else { "live document" },
                        s.json(),
                        s.node,
                        first.iter().filter(|((k2, i2, ..), _)| *k2 == name && *i2 == id).map(|((_, _, s2, t), (_, at))| format!("{}{} first at node {at}", s2.json(), if *t { " DEL" } else { "" })).collect::<Vec<_>>()
                    ),
                });
            }
        }
    }
    Ok(())
}

/// `check_converged` for callers whose keyspace count is part of the case (the historical callers pass 2)
pub fn check_converged_n(nodes: &[NodeH], n_ks: usize, when: &str) -> Result<(), Fail> {
    check_converged(nodes, n_ks, when)
}

pub fn check_converged(nodes: &[NodeH], n_ks: usize, when: &str) -> Result<(), Fail> {
    check_converged_docs(nodes, n_ks, when)?;
    // sensitivity experiments only: lets one see whether the document comparison alone catches a change
    if std::env::var_os("VP_EXPERIMENT_DOCS_ONLY").is_some() {
        return Ok(());
    }
    check_no_invented_versions(nodes, n_ks, when)
}

fn check_converged_docs(nodes: &[NodeH], n_ks: usize, when: &str) -> Result<(), Fail> {
    let model = lww_of_origin_writes(nodes);
    for k in 0..n_ks {
        let name = ks_name(k);
        let expect: BTreeMap<u64, (Stamp, Vec<u8>)> = model
            .iter()
            .filter(|((ks, _), (_, b))| *ks == name && b.is_some())
            .map(|((_, id), (s, b))| (*id, (*s, b.clone().unwrap())))
            .collect();
        for n in nodes {
            let got: BTreeMap<u64, (Stamp, Vec<u8>)> =
                n.store.docs(&name).into_iter().map(|(id, (ts, b))| (id, (Stamp::of(ts), b))).collect();
            if std::env::var("VP_DEBUG").is_ok() {
                eprintln!("DEBUG {when}: node {} {name}: {:?}", n.id, got.iter().map(|(id, (s, _))| format!("{id}@{}", s.json())).collect::<Vec<_>>());
                let g = n.store.inner.lock();
                eprintln!("DEBUG   write log: {:?}", g.log.iter().filter(|(k, ..)| *k == name).map(|(_, id, ts, b)| format!("{id}@{}{}", Stamp::of(*ts).json(), if b.is_none() { " DEL" } else { "" })).collect::<Vec<_>>());
                eprintln!("DEBUG   metadata: {:?}", g.data.get(&name).map(|m| m.iter().map(|(id, (ts, d))| format!("{id}@{}{}", Stamp::of(*ts).json(), if d.is_none() { " TOMB" } else { "" })).collect::<Vec<_>>()));
            }
            if got != expect {
                let brief = |m: &BTreeMap<u64, (Stamp, Vec<u8>)>| -> Vec<String> {
                    m.iter().map(|(id, (s, b))| format!("{id}@{}[{}B]", s.json(), b.len())).collect()
                };
                return Err(Fail {
                    signature: "not-converged-to-lww".into(),
                    message: format!(
                        "{when}: node {} keyspace {name} returns {:?}, last-writer-wins result is {:?}",
                        n.id,
                        brief(&got),
                        brief(&expect)
                    ),
                });
            }
        }
    }
    Ok(())
}

async fn run(case: &Case, net: e3::Net) -> Outcome {
    let layout = Layout { nodes: case.nodes.clone(), repair_interval: Duration::from_secs(case.repair_secs), storage_latency_ms: case.storage_latency_ms.clone() };
    let t_start = tokio::time::Instant::now();
    // a quarter of the cases: every node binds one address and advertises another
    let elsewhere = case.seed & 6 == 6;
    e3::set_listen_elsewhere(elsewhere);
    let nodes = e3::start_cluster(&layout).await;
    // the first node's extension exists 20 ms after the start
    POLLER_CLOCK.with(|c| c.set(Some((t_start + Duration::from_millis(20), Duration::from_secs(case.repair_secs)))));
    {
        let mut n = net.borrow_mut();
        n.direct = case.direct.iter().copied().collect();
        n.batch = case.batch.iter().copied().collect();
        n.repair = case.repair.iter().copied().collect();
    }
    let mut bulk = false;
    let mut concurrent = false;
    for op in &case.ops {
        if matches!(op, Op::PutMany { .. } | Op::DelMany { .. }) {
            bulk = true;
        }
        if matches!(op, Op::Together(_) | Op::Staggered { .. }) {
            concurrent = true;
        }
        run_op(&nodes, op).await;
    }
    // heal, then let every node finish a full poller cycle with every peer
    {
        let mut n = net.borrow_mut();
        n.direct.clear();
        n.batch.clear();
        n.repair.clear();
    }
    e3::advance(1_000 + 3 * case.repair_secs * 1_000 + 500).await;
    check_converged(&nodes, 2, "after healing + 3 repair intervals")?;

    let log = net.borrow().log.clone();
    let lost = log.iter().any(|(_, c, v)| matches!(c, Class::Direct | Class::Batch) && matches!(v, Verdict::FailBefore | Verdict::FailAfter));
    let dup = log.iter().any(|(_, _, v)| matches!(v, Verdict::Duplicate));
    let fetched = log.iter().any(|(_, c, _)| *c == Class::Fetch);
    let origins: BTreeSet<u8> = nodes
        .iter()
        .filter(|n| n.store.inner.lock().log.iter().any(|(_, _, ts, _)| ts.node() == n.id))
        .map(|n| n.id)
        .collect();
    POLLER_CLOCK.with(|c| c.set(None));
    let mut labels = vec![];
    if lost {
        labels.push("message_lost");
    }
    if case.ops.iter().any(|o| matches!(o, Op::ToPollerTick(_))) {
        labels.push("ops_aligned_with_a_repair_cycle");
    }
    if dup {
        labels.push("dup_delivery");
    }
    if fetched {
        labels.push("repair_fetched_docs");
    }
    if bulk {
        labels.push("bulk");
    }
    if concurrent {
        labels.push("concurrent_ops");
    }
    if !case.storage_latency_ms.is_empty() {
        labels.push("slow_storage");
    }
    if case.nodes.iter().any(|(_, dc)| dc == "dc-b") {
        labels.push("two_dcs");
    }
    if elsewhere {
        labels.push("listen_addr_differs_from_public_addr");
    }
    if origins.len() >= 2 {
        labels.push("origins>=2");
    }
    ensure!(true, "", "");
    Ok(Pass { nontrivial: origins.len() >= 2 && lost && fetched, labels })
}

pub fn parts() -> Vec<Box<dyn DynPart>> {
    vec![Box::new(Gen::new(Cluster, 60_000, 3_000_000))]
}
