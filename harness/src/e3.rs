//! Engine E3: N real `DatacakeNode`s with the real eventual-consistency extension (distributor,
//! poller, purge task, both RPC services) inside ONE paused-time current-thread runtime.
//! RPC goes through the in-process transport hook (H-rpc), membership snapshots are injected where
//! chitchat would publish them (H-members), HLC wall clocks follow the paused tokio clock (H-clock).

use std::cell::RefCell;
use std::collections::{BTreeMap, VecDeque};
use std::future::Future;
use std::net::SocketAddr;
use std::rc::Rc;
use std::time::Duration;

use datacake_eventual_consistency::{
    EventuallyConsistentStore,
    EventuallyConsistentStoreExtension,
    ReplicatedStoreHandle,
};
use datacake_node::{ClusterMember, ConnectionConfig, DCAwareSelector, DatacakeNode, DatacakeNodeBuilder};
use datacake_rpc::verif::Verdict;

use crate::store::{ModelStore, SideStore};

pub fn addr_of(id: u8) -> SocketAddr {
    ([10, 0, 0, id], 7000).into()
}

pub struct NodeH {
    pub id: u8,
    /// the address the node advertises to its peers
    pub addr: SocketAddr,
    /// the address its RPC server listens on (differs from `addr` when `set_listen_elsewhere` is on)
    pub listen: SocketAddr,
    pub dc: String,
    pub node: DatacakeNode,
    pub store: ModelStore,
    pub ec: EventuallyConsistentStore<ModelStore>,
    pub handle: ReplicatedStoreHandle<ModelStore>,
    /// a second store extension of another storage type on the same node (see `set_second_store`)
    pub second: Option<Second>,
}

pub struct Second {
    pub store: ModelStore,
    pub ec: EventuallyConsistentStore<SideStore>,
    pub handle: ReplicatedStoreHandle<SideStore>,
}

thread_local! {
    static SECOND_STORE: std::cell::Cell<u8> = const { std::cell::Cell::new(0) };
    static LISTEN_ELSEWHERE: std::cell::Cell<bool> = const { std::cell::Cell::new(false) };
}

/// While on, every node started binds `192.168.<id>.1:9000` and advertises `10.0.0.<id>:7000` (the documented
/// "listen on one address, be reachable under another" configuration); the in-process transport routes the public
/// address to the listening server. Reset by `sim` at the end of a case.
pub fn set_listen_elsewhere(on: bool) {
    LISTEN_ELSEWHERE.with(|c| c.set(on));
}

pub fn listen_addr_of(id: u8) -> SocketAddr {
    if LISTEN_ELSEWHERE.with(|c| c.get()) {
        ([192, 168, id, 1], 9000).into()
    } else {
        addr_of(id)
    }
}

/// 0 = nodes host one store extension; 1 = every node started from now on also hosts a second extension (storage
/// type `SideStore`) added AFTER the main one; 2 = added BEFORE it. Reset by `sim` at the end of a case.
pub fn set_second_store(mode: u8) {
    SECOND_STORE.with(|c| c.set(mode));
}

#[derive(Debug, Clone, Copy, PartialEq, Eq)]
pub enum Class {
    Direct,
    Batch,
    Poll,
    GetState,
    Fetch,
    Other,
}

pub fn classify(path: &str) -> Class {
    if path.contains("ConsistencyService") {
        if path.contains("BatchPayload") {
            Class::Batch
        } else {
            Class::Direct
        }
    } else if path.contains("ReplicationService") {
        if path.contains("PollKeyspace") {
            Class::Poll
        } else if path.contains("GetState") {
            Class::GetState
        } else {
            Class::Fetch
        }
    } else {
        Class::Other
    }
}

/// Message fates: per class a queue of verdicts consumed in arrival order; exhausted = deliver.
#[derive(Default)]
pub struct NetScript {
    pub direct: VecDeque<Verdict>,
    pub batch: VecDeque<Verdict>,
    pub repair: VecDeque<Verdict>,
    /// destinations that are cut off entirely (requests dropped)
    pub dead: Vec<SocketAddr>,
    /// fate of direct messages per destination (overrides the queue)
    pub per_dst: BTreeMap<SocketAddr, Verdict>,
    /// destinations that receive nothing that is pushed (direct and batched replication) but answer repair traffic
    pub deaf: Vec<SocketAddr>,
    /// document fetches may fail too (the poller's watchdog follows the paused clock since hook H-time)
    pub fail_fetches: bool,
    pub log: Vec<(SocketAddr, Class, Verdict)>,
}

pub type Net = Rc<RefCell<NetScript>>;

pub fn install_net() -> Net {
    let net: Net = Rc::new(RefCell::new(NetScript::default()));
    let n2 = net.clone();
    datacake_rpc::verif::set_policy(Some(Rc::new(move |dst, path| {
        let mut n = n2.borrow_mut();
        let class = classify(path);
        let v = if n.dead.contains(&dst) || (n.deaf.contains(&dst) && matches!(class, Class::Direct | Class::Batch)) {
            Verdict::FailBefore
        } else {
            match class {
                Class::Direct => match n.per_dst.get(&dst) {
                    Some(v) => *v,
                    None => n.direct.pop_front().unwrap_or(Verdict::Deliver),
                },
                Class::Batch => n.batch.pop_front().unwrap_or(Verdict::Deliver),
                // a failed document fetch makes the poller wait on a wall-clock (std::time) watchdog,
                // which a paused-time simulation cannot advance: fetches are only delayed / duplicated
                Class::Fetch => match n.repair.pop_front().unwrap_or(Verdict::Deliver) {
                    Verdict::FailBefore | Verdict::FailAfter if !n.fail_fetches => Verdict::Deliver,
                    v => v,
                },
                Class::Poll | Class::GetState => n.repair.pop_front().unwrap_or(Verdict::Deliver),
                Class::Other => Verdict::Deliver,
            }
        };
        if class != Class::Other {
            n.log.push((dst, class, v));
            if class == Class::Poll && std::env::var_os("VP_DEBUG_POLL").is_some() {
                eprintln!("DEBUG poll to {dst} at paused-clock {:?}", tokio::time::Instant::now());
            }
        }
        v
    })));
    net
}

pub struct Layout {
    /// (node id, data centre)
    pub nodes: Vec<(u8, String)>,
    pub repair_interval: Duration,
    /// per node id: simulated latency of its storage calls (absent = none)
    pub storage_latency_ms: BTreeMap<u8, u64>,
}

pub fn members_of(nodes: &[(u8, String)]) -> Vec<ClusterMember> {
    nodes.iter().map(|(id, dc)| ClusterMember::new(*id, addr_of(*id), dc.clone())).collect()
}

pub async fn start_node(id: u8, dc: &str, store: ModelStore, members: &[ClusterMember], repair: Duration) -> NodeH {
    let t_begin = tokio::time::Instant::now();
    let addr = addr_of(id);
    let listen = listen_addr_of(id);
    if listen != addr {
        datacake_rpc::verif::alias(addr, listen);
    }
    let cfg = ConnectionConfig::new(listen, addr, Vec::<String>::new());
    // a node whose data centre is the default name is built without configuring one
    let builder = DatacakeNodeBuilder::<DCAwareSelector>::new(id, cfg);
    let builder = if dc == datacake_node::DEFAULT_DATA_CENTER { builder } else { builder.with_data_center(dc) };
    let node = builder
        .connect()
        .await
        .expect("connect node");
    // chitchat publishes its initial {me} snapshot first; inject ours after it
    tokio::time::sleep(Duration::from_millis(10)).await;
    node.verif_set_members(members.to_vec());
    tokio::time::sleep(Duration::from_millis(10)).await;
    let dbg = std::env::var_os("VP_DEBUG").is_some();
    let t_dbg = tokio::time::Instant::now();
    if dbg {
        eprintln!("DEBUG start_node {id}: creating the extension {:?} after start_node began", t_begin.elapsed());
    }
    let mode = SECOND_STORE.with(|c| c.get());
    let mut second = None;
    if mode == 2 {
        second = Some(start_second(&node, repair).await);
    }
    let ec = node
        .add_extension(EventuallyConsistentStoreExtension::new(store.clone()).with_repair_interval(repair))
        .await
        .expect("extension");
    if mode == 1 {
        second = Some(start_second(&node, repair).await);
    }
    if dbg {
        eprintln!("DEBUG start_node {id}: extension ready after {:?}", t_dbg.elapsed());
    }
    let handle = ec.handle();
    NodeH { id, addr, listen, dc: dc.to_string(), node, store, ec, handle, second }
}

async fn start_second(node: &DatacakeNode, repair: Duration) -> Second {
    let store = ModelStore::default();
    let ec = node
        .add_extension(EventuallyConsistentStoreExtension::new(SideStore(store.clone())).with_repair_interval(repair))
        .await
        .expect("second extension");
    let handle = ec.handle();
    Second { store, ec, handle }
}

pub async fn start_cluster(layout: &Layout) -> Vec<NodeH> {
    let members = members_of(&layout.nodes);
    let mut out = vec![];
    for (id, dc) in &layout.nodes {
        let store = ModelStore::default();
        if let Some(ms) = layout.storage_latency_ms.get(id) {
            let mut g = store.inner.lock();
            g.write_latency_ms = *ms;
            g.read_latency_ms = *ms;
        }
        out.push(start_node(*id, dc, store, &members, layout.repair_interval).await);
    }
    out
}

/// Stops a node the hard way (process death): its server disappears, its storage handle is fenced.
pub async fn kill_node(n: NodeH) -> (u8, String, ModelStore) {
    datacake_rpc::verif::unregister(n.listen);
    let NodeH { id, dc, node, store, ec, handle, .. } = n;
    drop(handle);
    drop(ec);
    node.shutdown().await;
    (id, dc, store)
}

/// Runs `f` inside a fresh deterministic paused-time runtime with the in-process transport enabled
/// and the HLC wall clocks following the runtime clock plus per-node skew.
pub fn sim<F, Fut, T>(seed: u64, base_secs: u64, skew_ms: BTreeMap<u8, i64>, f: F) -> T
where
    F: FnOnce(Net) -> Fut,
    Fut: Future<Output = T>,
{
    let mut bytes = [0u8; 32];
    let mut s = seed;
    for c in bytes.chunks_mut(8) {
        s = crate::core::splitmix64(s);
        c.copy_from_slice(&s.to_le_bytes());
    }
    let rt = tokio::runtime::Builder::new_current_thread()
        .enable_all()
        .start_paused(true)
        // the future given to block_on is otherwise polled only once per 61 task polls: operations awaited in it
        // would never interleave with the chains of wake-ups between spawned tasks
        .event_interval(1)
        .rng_seed(tokio::runtime::RngSeed::from_bytes(&bytes))
        .build()
        .expect("runtime");
    let out = rt.block_on(async move {
        let start = tokio::time::Instant::now();
        datacake_crdt::verif::set_wall(Some(Rc::new(move |node| {
            let skew = skew_ms.get(&node).copied().unwrap_or(0);
            let ms = base_secs as i64 * 1000 + start.elapsed().as_millis() as i64 + skew;
            Some(Duration::from_millis(ms.max(0) as u64))
        })));
        datacake_node::verif::set_rng_seed(Some(seed));
        datacake_rpc::verif::enable(true);
        let net = install_net();
        f(net).await
    });
    datacake_rpc::verif::enable(false);
    set_second_store(0);
    set_listen_elsewhere(false);
    datacake_node::verif::set_rng_seed(None);
    datacake_crdt::verif::set_wall(None);
    drop(rt);
    out
}

/// Sleeps until shortly after the pollers' next cycle started (pollers tick at 0.5 s and then at every
/// multiple of the repair interval after the extension was created), so that an operation issued now
/// is not overlapped by a repair cycle for `repair - 0.6 s`. `t0` = when the cluster finished starting.
pub async fn align_after_poller_cycle(t0: tokio::time::Instant, repair: Duration) {
    let r = repair.as_millis() as u64;
    let now = t0.elapsed().as_millis() as u64;
    let target = if now < 800 { 800 } else { (now / r + 1) * r + 300 };
    tokio::time::sleep(Duration::from_millis(target - now)).await;
}

pub async fn advance(ms: u64) {
    tokio::time::sleep(Duration::from_millis(ms)).await;
}
