#![allow(dead_code)]
//! `vp check <ID> [--tier quick|thorough]` and `vp replay <file>`.

use vp::{c17, parts_for};

use std::process::exit;

use vp::core::{install_quiet_panic_hook, load_known_findings, Report, RunCfg};

fn usage() -> ! {
    eprintln!("usage: vp check <ID> [--tier quick|thorough] [--part NAME] | vp replay <file> [--strict]");
    exit(2)
}

fn main() {
    let args: Vec<String> = std::env::args().collect();
    if args.len() < 3 {
        usage();
    }
    if std::env::var("VP_LOUD_PANICS").is_err() {
        install_quiet_panic_hook();
    }
    if std::env::var("VP_LOG").is_ok() {
        // debugging aid: the repository's tracing output (use with `vp replay` / `vp repeat`)
        tracing_subscriber::fmt().with_max_level(tracing_subscriber::filter::LevelFilter::INFO).with_writer(std::io::stderr).init();
    }
    match args[1].as_str() {
        "check" if !args.iter().any(|a| a == "--worker") => {
            exit(vp::core::supervise(&args));
        },
        "replay" if !args.iter().any(|a| a == "--worker") => {
            exit(vp::core::supervise_replay(&args));
        },
        "check" => {
            let id = args[2].as_str();
            let mut tier = std::env::var("VERIF_TIER").unwrap_or_else(|_| "quick".into());
            let mut only_part: Option<String> = None;
            let mut external: Vec<String> = vec![];
            let mut i = 3;
            while i < args.len() {
                match args[i].as_str() {
                    "--tier" => {
                        tier = args.get(i + 1).cloned().unwrap_or_else(|| usage());
                        i += 2;
                    },
                    "--part" => {
                        only_part = Some(args.get(i + 1).cloned().unwrap_or_else(|| usage()));
                        i += 2;
                    },
                    "--worker" => i += 1,
                    "--external" => {
                        external.push(args.get(i + 1).cloned().unwrap_or_else(|| usage()));
                        i += 2;
                    },
                    _ => usage(),
                }
            }
            if tier != "quick" && tier != "thorough" {
                tier = "quick".into();
            }
            let seed = std::env::var("VERIF_SEED")
                .ok()
                .and_then(|s| s.trim().parse::<i128>().ok())
                .map(|v| v as u64)
                .unwrap_or(0);
            // 0 is remapped to a fixed constant
            let seed = if seed == 0 { 0x5EED_DA7A_CA4E } else { seed };
            let threads = std::env::var("VP_THREADS")
                .ok()
                .and_then(|s| s.parse().ok())
                .unwrap_or_else(|| std::thread::available_parallelism().map(|n| n.get()).unwrap_or(8));
            let cfg = RunCfg { seed, tier, threads };
            let Some((sid, parts, assumptions)) = parts_for(id) else {
                eprintln!("unknown property {id}");
                exit(2)
            };
            let known = load_known_findings();
            let mut report = Report::new(sid, &cfg);
            report.assumptions = assumptions;
            for p in &parts {
                if let Some(o) = &only_part {
                    if p.part() != o {
                        continue;
                    }
                }
                let r = p.run(&cfg, &known);
                if std::env::var("VP_SHARD").is_ok() {
                    // a shard child of a process-isolated part: hand the result to the parent
                    println!("VP_SHARD_RESULT {}", vp::core::part_result_to_json(&r));
                    exit(0);
                }
                let failed = r.failure.is_some();
                report.parts.push(r);
                if failed {
                    break;
                }
            }
            for path in external {
                if let Ok(text) = std::fs::read_to_string(&path) {
                    if let Ok(v) = serde_json::from_str::<serde_json::Value>(&text) {
                        if v["property"].as_str() == Some(sid) {
                            report.external.extend(v["parts"].as_array().cloned().unwrap_or_default());
                            report.external_wall_s += v["wall_s"].as_f64().unwrap_or(0.0);
                        }
                    }
                }
            }
            let code = report.finish();
            c17::cleanup_scratch();
            exit(code);
        },
        "replay" => {
            let text = std::fs::read_to_string(&args[2]).unwrap_or_else(|e| {
                eprintln!("cannot read {}: {e}", args[2]);
                exit(2)
            });
            let v: serde_json::Value = serde_json::from_str(&text).unwrap_or_else(|e| {
                eprintln!("bad replay file: {e}");
                exit(2)
            });
            if v["whole_run"].as_bool() == Some(true) {
                // a crash that needs the whole deterministic run: run it again under supervision
                let run_args: Vec<String> = v["args"].as_array().map(|a| a.iter().filter_map(|x| x.as_str().map(String::from)).collect()).unwrap_or_default();
                let mut cmd = std::process::Command::new(std::env::current_exe().unwrap());
                cmd.args(&run_args).arg("--worker").stdout(std::process::Stdio::null());
                if let Some(seed) = v["verif_seed"].as_str().filter(|s| !s.is_empty()) {
                    cmd.env("VERIF_SEED", seed);
                }
                let st = cmd.status().expect("spawn worker");
                match st.code() {
                    Some(c @ (0 | 1 | 2)) => {
                        println!("replay: the whole run ended with status {c} this time");
                        exit(if c == 1 { 1 } else { 0 })
                    },
                    _ => {
                        println!("replay: the whole run terminated the process abnormally again ({st})");
                        println!("VIOLATION property={} replay={}", v["property"].as_str().unwrap_or("?"), args[2]);
                        exit(1)
                    },
                }
            }
            let id = v["property"].as_str().unwrap_or("");
            let part = v["part"].as_str().unwrap_or("");
            let choices: Vec<u64> = v["choices"]
                .as_array()
                .map(|a| a.iter().filter_map(|x| x.as_u64()).collect())
                .unwrap_or_default();
            let Some((sid, parts, _)) = parts_for(id) else {
                eprintln!("unknown property {id}");
                exit(2)
            };
            let Some(p) = parts.iter().find(|p| p.part() == part) else {
                eprintln!("unknown part {part} of {id}");
                exit(2)
            };
            let (out, case) = p.replay(&choices);
            println!("{}", serde_json::to_string_pretty(&case).unwrap());
            match out {
                Ok(pass) => {
                    println!("replay {sid}/{part}: property holds on this case (labels {:?})", pass.labels);
                    exit(0)
                },
                Err(f) => {
                    let known = load_known_findings();
                    if let Some(k) = known.iter().find(|k| k.property == sid && k.signature == f.signature) {
                        println!("KNOWN-FINDING: property={sid} {} [{}]", k.what, k.signature);
                        println!("replay {sid}/{part}: {}", f.message);
                        exit(0)
                    }
                    println!("replay {sid}/{part}: [{}] {}", f.signature, f.message);
                    println!("VIOLATION property={sid} replay={}", args[2]);
                    exit(1)
                },
            }
        },
        "corpus" => {
            // vp corpus <ID> <part> <dir> <n>: seed corpus for the coverage-guided engine
            let n = args.get(5).and_then(|s| s.parse().ok()).unwrap_or(200);
            let seed = std::env::var("VERIF_SEED").ok().and_then(|s| s.trim().parse::<i128>().ok()).map(|v| v as u64).unwrap_or(0);
            let w = vp::fuzzing::write_corpus(&args[2], &args[3], &args[4], n, seed);
            println!("{w} seed inputs written to {}", args[4]);
            exit(if w > 0 { 0 } else { 2 })
        },
        "describe" => {
            let v: serde_json::Value = serde_json::from_str(&std::fs::read_to_string(&args[2]).unwrap()).unwrap();
            let choices: Vec<u64> = v["choices"].as_array().unwrap().iter().filter_map(|x| x.as_u64()).collect();
            let (_, parts, _) = parts_for(v["property"].as_str().unwrap()).unwrap();
            let p = parts.iter().find(|p| p.part() == v["part"].as_str().unwrap()).unwrap();
            println!("{}", serde_json::to_string_pretty(&p.describe(&choices)).unwrap());
            exit(0)
        },
        "repeat" => {
            // debugging aid: run one saved case N times in this process and print each outcome
            // usage: vp repeat N file [file ...]   (files run in the given order, N rounds)
            let n: usize = args[2].parse().unwrap_or(1);
            for round in 0..n {
                for file in &args[3..] {
                    let v: serde_json::Value = serde_json::from_str(&std::fs::read_to_string(file).unwrap()).unwrap();
                    let choices: Vec<u64> = v["choices"].as_array().unwrap().iter().filter_map(|x| x.as_u64()).collect();
                    let (_, parts, _) = parts_for(v["property"].as_str().unwrap()).unwrap();
                    let p = parts.iter().find(|p| p.part() == v["part"].as_str().unwrap()).unwrap();
                    let (out, _) = p.replay(&choices);
                    println!("round {round} {file}: {}", match out { Ok(p) => format!("pass {:?}", p.labels), Err(f) => format!("[{}] {}", f.signature, f.message) });
                }
            }
            exit(0)
        },
        _ => usage(),
    }
}
