//! C01, part `exchange-schedules` (E2): real keyspace actors and stores for 2-4 replicas; the harness owns
//! the "network": every direct / batched replication message of every operation is lost, delayed (hence
//! reordered) or duplicated, repair exchanges happen at arbitrary points with their two halves interleaved
//! with other traffic, and the history ends with EXACTLY ONE complete round of pairwise exchanges in a
//! generated order -- the weakest condition under which the property promises convergence.

use std::collections::BTreeMap;

use datacake_eventual_consistency::verif::Diff;
use datacake_eventual_consistency::{Document, DocumentMetadata};
use serde_json::{json, Value};

use crate::core::{Outcome, Pass, Prop, Src};
use crate::e2::{self, actor_set, Group};
use crate::ensure;
use crate::model::{lww, SetOp, Stamp};
use crate::registry::{DynPart, Gen};
use crate::store::ModelStore;

const KS: &str = "ks";
const BASE: u64 = 50_000_000;

#[derive(Debug, Clone)]
pub struct OpPlan {
    pub at: u64,
    pub origin: usize,
    pub keys: Vec<u64>,
    pub delete: bool,
    pub bulk: bool,
    /// per other replica: direct message fate (None = lost, Some(delay)), duplicate?, and the same for the
    /// batched copy the distributor sends about a second later
    pub direct: Vec<(Option<u64>, bool)>,
    pub batch: Vec<Option<u64>>,
}

#[derive(Debug, Clone)]
pub struct Case {
    pub n: usize,
    pub skew_s: Vec<i64>,
    pub ops: Vec<OpPlan>,
    /// mid-history exchanges: (time, receiver, peer, delay of removal half, delay of modification half)
    pub exchanges: Vec<(u64, usize, usize, u64, u64)>,
    /// order of the final round (indices into the list of ordered pairs) and which half goes first
    pub final_order: Vec<usize>,
    pub final_removal_first: Vec<bool>,
}

pub struct Schedules;

impl Prop for Schedules {
    type Case = Case;

    fn id(&self) -> &'static str {
        "C01"
    }

    fn part(&self) -> &'static str {
        "exchange-schedules"
    }

    fn width(&self) -> usize {
        12 * 24 + 80
    }

    fn shrink_budget(&self) -> usize {
        2_000
    }

    fn gen(&self, src: &mut Src) -> Case {
        let n = 2 + src.below(3);
        let skew_s = (0..n).map(|_| *src.pick(&[0i64, 0, 30, -30, 100])).collect();
        let m = 1 + src.below(12);
        let n_keys = 1 + src.below64(3);
        let mut at = 200u64;
        let mut ops = vec![];
        for _ in 0..m {
            at += *src.pick(&[0u64, 1, 5, 60, 300, 600]);
            let bulk = src.chance(1, 4);
            let keys: Vec<u64> = if bulk {
                let mut s = std::collections::BTreeSet::new();
                for _ in 0..1 + src.below(3) {
                    s.insert(1 + src.below64(n_keys + 1));
                }
                s.into_iter().collect()
            } else {
                vec![1 + src.below64(n_keys)]
            };
            let direct = (0..n - 1)
                .map(|_| {
                    let fate = match src.weighted(&[4, 3, 3]) {
                        0 => Some(*src.pick(&[0u64, 1, 2])),
                        1 => None,
                        _ => Some(*src.pick(&[10u64, 100, 700, 2_000])),
                    };
                    (fate, src.chance(1, 6))
                })
                .collect();
            let batch = (0..n - 1)
                .map(|_| match src.weighted(&[3, 4, 2]) {
                    0 => Some(1u64),
                    1 => None,
                    _ => Some(*src.pick(&[5u64, 400, 1_500])),
                })
                .collect();
            ops.push(OpPlan { at, origin: src.below(n), keys, delete: src.chance(2, 5), bulk, direct, batch });
        }
        let horizon = at + 2_100;
        let exchanges = (0..src.below(6))
            .map(|_| {
                let r = src.below(n);
                let q = (r + 1 + src.below(n - 1)) % n;
                (src.below64(horizon), r, q, *src.pick(&[0u64, 0, 50, 700]), *src.pick(&[0u64, 0, 50, 700]))
            })
            .collect();
        let pairs = n * (n - 1);
        let final_order = src.permutation(pairs);
        let final_removal_first = (0..pairs).map(|_| src.chance(1, 2)).collect();
        Case { n, skew_s, ops, exchanges, final_order, final_removal_first }
    }

    fn run(&self, case: &Case) -> Outcome {
        e2::block_on_sim(60_000_000, e2::no_skew(), run(case))
    }

    fn describe(&self, case: &Case) -> Value {
        let pairs = ordered_pairs(case.n);
        json!({
            "replicas": case.n,
            "clock_skew_s": case.skew_s,
            "ops": case.ops.iter().enumerate().map(|(i, o)| json!({
                "i": i, "at_s": o.at, "origin": o.origin, "keys": o.keys, "op": if o.delete {"del"} else {"put"}, "bulk": o.bulk,
                "direct_to_others(delay_s|lost, duplicated)": o.direct, "batched_copy_to_others(delay_s|lost)": o.batch,
            })).collect::<Vec<_>>(),
            "mid_history_exchanges(at_s, receiver, peer, removal_delay, modification_delay)": case.exchanges,
            "final_round(receiver<-peer, removals_first)": case.final_order.iter().map(|i| (pairs[*i], case.final_removal_first[*i])).collect::<Vec<_>>(),
        })
    }

    fn rule(&self) -> &'static str {
        "2-4 replicas (real keyspace actors + stores), per-origin clock skew up to 100 s, 1-12 single or bulk puts/deletes \
         on 1-4 keys inside one forgiveness period, applied locally at their origin; each direct message and each batched \
         copy to every other replica is delivered at once, lost, delayed by up to 2000 s (so it overtakes or is overtaken), \
         or duplicated; 0-5 repair exchanges at arbitrary moments whose removal half and fetched modification half are \
         applied 0-700 s after the diff was computed, interleaved with all other traffic; the history ends with exactly ONE \
         round of pairwise exchanges in a generated order, halves in generated order; oracle: every replica's documents \
         (ids, stamps, bytes) equal the LWW model of all operations; non-trivial = >=2 origins, >=1 message lost or \
         overtaken, and the final round transferred something"
    }
}

fn ordered_pairs(n: usize) -> Vec<(usize, usize)> {
    let mut v = vec![];
    for r in 0..n {
        for q in 0..n {
            if r != q {
                v.push((r, q));
            }
        }
    }
    v
}

fn stamp_of(case: &Case, i: usize) -> Stamp {
    let o = &case.ops[i];
    let secs = (BASE + o.at) as i64 + case.skew_s[o.origin];
    Stamp { secs: secs as u64, frac: 0, counter: i as u16, node: o.origin as u8 + 1 }
}

#[derive(Debug, Clone)]
enum Ev {
    Apply { op: usize, to: usize, as_bulk: bool },
    DiffStart { x: usize },
    Removal { x: usize },
    Modified { x: usize },
}

struct Exchange {
    r: usize,
    q: usize,
    modified: Vec<(u64, datacake_crdt::HLCTimestamp)>,
    removed: Vec<(u64, datacake_crdt::HLCTimestamp)>,
}

async fn apply_op(case: &Case, groups: &[Group], op: usize, to: usize, as_bulk: bool) {
    let o = &case.ops[op];
    let stamp = stamp_of(case, op);
    let mailbox = groups[to].get_or_create_keyspace(KS).await;
    if as_bulk || o.keys.len() > 1 {
        if o.delete {
            let docs = o.keys.iter().map(|k| e2::meta(*k, stamp)).collect();
            let _ = mailbox.send(e2::msg_multi_del(0, docs)).await;
        } else {
            let docs = o.keys.iter().map(|k| e2::doc(*k, stamp, 5)).collect();
            let _ = mailbox.send(e2::msg_multi_set(0, docs)).await;
        }
    } else if o.delete {
        let _ = mailbox.send(e2::msg_del(0, e2::meta(o.keys[0], stamp))).await;
    } else {
        let _ = mailbox.send(e2::msg_set(0, e2::doc(o.keys[0], stamp, 5))).await;
    }
}

async fn diff_start(groups: &[Group], r: usize, q: usize) -> Exchange {
    let mut x = Exchange { r, q, modified: vec![], removed: vec![] };
    if let Some(peer_set) = actor_set(&groups[q], KS).await {
        let mailbox = groups[r].get_or_create_keyspace(KS).await;
        let (m, d) = mailbox.send(Diff(peer_set)).await;
        x.modified = m;
        x.removed = d;
    }
    x
}

async fn removal_half(groups: &[Group], x: &Exchange) -> bool {
    if x.removed.is_empty() {
        return false;
    }
    let mailbox = groups[x.r].get_or_create_keyspace(KS).await;
    if x.removed.len() == 1 {
        let (id, ts) = x.removed[0];
        let _ = mailbox.send(e2::msg_del(1, DocumentMetadata::new(id, ts))).await;
    } else {
        let docs = x.removed.iter().map(|(id, ts)| DocumentMetadata::new(*id, *ts)).collect();
        let _ = mailbox.send(e2::msg_multi_del(1, docs)).await;
    }
    true
}

async fn modified_half(groups: &[Group], stores: &[ModelStore], x: &Exchange) -> bool {
    if x.modified.is_empty() {
        return false;
    }
    // fetch_docs returns what the peer's storage holds at fetch time
    let peer_docs = stores[x.q].docs(KS);
    let docs: Vec<Document> = x
        .modified
        .iter()
        .filter_map(|(id, _)| peer_docs.get(id).map(|(ts, b)| Document::new(*id, *ts, b.clone())))
        .collect();
    let mailbox = groups[x.r].get_or_create_keyspace(KS).await;
    let _ = mailbox.send(e2::msg_multi_set(1, docs)).await;
    true
}

async fn run(case: &Case) -> Outcome {
    let stores: Vec<ModelStore> = (0..case.n).map(|_| ModelStore::default()).collect();
    let mut groups = vec![];
    for (i, s) in stores.iter().enumerate() {
        groups.push(e2::new_group(s.clone(), i as u8 + 1).await);
    }

    let mut evs: Vec<(u64, usize, Ev)> = vec![];
    let mut seq = 0usize;
    let mut push = |t: u64, e: Ev, evs: &mut Vec<(u64, usize, Ev)>| {
        evs.push((t, seq, e));
        seq += 1;
    };
    let mut lost_or_late = false;
    for (i, o) in case.ops.iter().enumerate() {
        push(o.at, Ev::Apply { op: i, to: o.origin, as_bulk: false }, &mut evs);
        let others: Vec<usize> = (0..case.n).filter(|r| *r != o.origin).collect();
        for (k, r) in others.iter().enumerate() {
            match o.direct[k] {
                (Some(d), dup) => {
                    push(o.at + d, Ev::Apply { op: i, to: *r, as_bulk: false }, &mut evs);
                    if dup {
                        push(o.at + d + 3, Ev::Apply { op: i, to: *r, as_bulk: false }, &mut evs);
                    }
                    if d >= 10 {
                        lost_or_late = true;
                    }
                },
                (None, _) => lost_or_late = true,
            }
            if let Some(d) = o.batch[k] {
                push(o.at + 1 + d, Ev::Apply { op: i, to: *r, as_bulk: true }, &mut evs);
            }
        }
    }
    let mut exchanges: Vec<Option<Exchange>> = vec![];
    for (t, r, q, d_rem, d_mod) in &case.exchanges {
        let x = exchanges.len();
        exchanges.push(None);
        push(*t, Ev::DiffStart { x }, &mut evs);
        push(*t + *d_rem, Ev::Removal { x }, &mut evs);
        push(*t + *d_mod, Ev::Modified { x }, &mut evs);
        let _ = (r, q);
    }
    evs.sort_by_key(|(t, s, _)| (*t, *s));
    for (_, _, ev) in evs {
        match ev {
            Ev::Apply { op, to, as_bulk } => apply_op(case, &groups, op, to, as_bulk).await,
            Ev::DiffStart { x } => {
                let (_, r, q, _, _) = case.exchanges[x];
                exchanges[x] = Some(diff_start(&groups, r, q).await);
            },
            Ev::Removal { x } => {
                if let Some(e) = &exchanges[x] {
                    removal_half(&groups, e).await;
                }
            },
            Ev::Modified { x } => {
                if let Some(e) = &exchanges[x] {
                    modified_half(&groups, &stores, e).await;
                }
            },
        }
    }

    // exactly one complete round of pairwise exchanges, in the generated order
    let pairs = ordered_pairs(case.n);
    let mut final_transferred = false;
    for idx in &case.final_order {
        let (r, q) = pairs[*idx];
        let x = diff_start(&groups, r, q).await;
        if case.final_removal_first[*idx] {
            final_transferred |= removal_half(&groups, &x).await;
            final_transferred |= modified_half(&groups, &stores, &x).await;
        } else {
            final_transferred |= modified_half(&groups, &stores, &x).await;
            final_transferred |= removal_half(&groups, &x).await;
        }
    }

    let mut all_ops = vec![];
    for (i, o) in case.ops.iter().enumerate() {
        for k in &o.keys {
            all_ops.push(SetOp { key: *k, stamp: stamp_of(case, i), delete: o.delete });
        }
    }
    let model = lww(all_ops);
    let expect: BTreeMap<u64, (Stamp, Vec<u8>)> =
        model.iter().filter(|(_, o)| !o.delete).map(|(k, o)| (*k, (o.stamp, e2::payload(*k, o.stamp, 5)))).collect();
    let brief = |m: &BTreeMap<u64, (Stamp, Vec<u8>)>| -> Vec<String> { m.iter().map(|(id, (s, _))| format!("{id}@{}", s.json())).collect() };
    for r in 0..case.n {
        let got: BTreeMap<u64, (Stamp, Vec<u8>)> = stores[r].docs(KS).into_iter().map(|(id, (ts, b))| (id, (Stamp::of(ts), b))).collect();
        ensure!(
            got == expect,
            "not-converged-to-lww",
            "after one complete round of exchanges replica {r} returns {:?}, last-writer-wins result is {:?}",
            brief(&got),
            brief(&expect)
        );
    }
    let origins: std::collections::BTreeSet<usize> = case.ops.iter().map(|o| o.origin).collect();
    let mut labels = vec![];
    if lost_or_late {
        labels.push("message_lost_or_overtaken");
    }
    if final_transferred {
        labels.push("final_round_transferred");
    }
    if case.ops.iter().any(|o| o.bulk) {
        labels.push("bulk");
    }
    if !case.exchanges.is_empty() {
        labels.push("mid_history_exchange");
    }
    Ok(Pass { nontrivial: origins.len() >= 2 && lost_or_late && final_transferred, labels })
}

pub fn parts() -> Vec<Box<dyn DynPart>> {
    vec![Box::new(Gen::new(Schedules, 150_000, 8_000_000))]
}
