//! C19 — a peer receives the sender's keyspace state unchanged.

use std::collections::BTreeMap;
use std::net::SocketAddr;
use std::sync::Arc;

use datacake_crdt::{HLCTimestamp, OrSWotSet};
use datacake_eventual_consistency::verif::{KeyspaceOrSwotSet, ReplicationClient, ReplicationService};
use datacake_node::Clock;
use datacake_rpc::{to_view_bytes, Channel, DataView, Server};
use rkyv::AlignedVec;
use serde_json::{json, Value};

use crate::core::{Fail, Outcome, Pass, Prop, Src};
use crate::e2::{self, actor_set};
use crate::e3;
use crate::ensure;
use crate::model::{apply, view, SetOp, Stamp};
use crate::registry::{DynPart, Gen};
use crate::store::ModelStore;

#[derive(Debug, Clone)]
pub enum Build {
    /// (op, source) applied one by one
    Ops(Vec<(SetOp, usize)>),
    Purge,
    /// `n` live entries (or `n` tombstones) from `origins` origins via bulk requests on alternating sources
    Bulk { n: usize, origins: usize, base_secs: u64, delete: bool },
    /// one bulk request of 2-12 entries on keys 1-12 whose storage call fails: nothing written (fault 0), the first k
    /// written (1), an arbitrary subset written (2). The sender applies what storage reports as written; what that is, is
    /// read from the store's own write log (after the seeded change `C19q`)
    FaultyBulk { n: usize, secs: u64, delete: bool, fault: u8, arg: u64, source: usize },
}

#[derive(Debug, Clone)]
pub struct Case {
    pub build: Vec<Build>,
    /// fetch (and compare) the state after stage i as well, not only at the end
    pub fetch_after: Vec<bool>,
    pub keyspace: String,
    /// 0 = the sender's server hosts one store; 1 / 2 = it also serves a second store of another storage type (holding a
    /// keyspace of the same name with other content), registered after / before the one under test (seeded change `C19l`)
    pub other_store: u8,
}

pub struct Transfer;

fn gen_ops(src: &mut Src) -> Vec<(SetOp, usize)> {
    let n = src.below(14);
    let nodes: Vec<u8> = match src.below(3) {
        0 => vec![1],
        1 => vec![1, 2, 3],
        _ => vec![0, 9, 200, 255],
    };
    let mut t = *src.pick(&[100_000u64, 3_700, 50_000_000]);
    let mut counter = 0u16;
    let mut ops = vec![];
    for _ in 0..n {
        let step = *src.pick(&[0u64, 1, 600, 3_601, 7_200]);
        t += step;
        counter = if step == 0 { counter + 1 } else { 0 };
        let stamp = Stamp { secs: t, frac: *src.pick(&[0u8, 249]), counter, node: *src.pick(&nodes) };
        ops.push((SetOp { key: 1 + src.below64(5), stamp, delete: src.chance(1, 2) }, src.below(2)));
    }
    ops
}

impl Prop for Transfer {
    type Case = Case;

    fn id(&self) -> &'static str {
        "C19"
    }

    fn part(&self) -> &'static str {
        "get-state"
    }

    fn width(&self) -> usize {
        200
    }

    fn breadcrumbs(&self) -> bool {
        true
    }

    fn shrink_budget(&self) -> usize {
        500
    }

    fn gen(&self, src: &mut Src) -> Case {
        let mut build = vec![];
        let stages = src.below(6);
        for _ in 0..stages {
            match src.weighted(&[6, 2, 2, 2]) {
                0 => build.push(Build::Ops(gen_ops(src))),
                1 => build.push(Build::Purge),
                3 => build.push(Build::FaultyBulk {
                    n: 2 + src.below(11),
                    secs: *src.pick(&[100_000u64, 50_000_100, 60_020_000]),
                    delete: src.chance(1, 3),
                    fault: src.below(3) as u8,
                    arg: src.word(),
                    source: src.below(2),
                }),
                _ => {
                    let n = match src.weighted(&[5, 3, 1]) {
                        0 => 1 + src.below(50),
                        1 => 50 + src.below(1_000),
                        _ => *src.pick(&[5_000usize, 20_000]),
                    };
                    let origins = 1 + src.below(40);
                    let base_secs = 60_000_000 + src.below64(10_000);
                    build.push(Build::Bulk { n, origins, base_secs, delete: src.chance(1, 3) });
                },
            }
        }
        let keyspace = src.pick(&["ks", "a", "a-much-longer-keyspace-name-to-shift-offsets", "k\u{e9}y"]).to_string();
        let fetch_after = (0..build.len()).map(|_| src.chance(1, 2)).collect();
        let other_store = *src.pick(&[0u8, 0, 1, 2]);
        Case { build, fetch_after, keyspace, other_store }
    }

    fn run(&self, case: &Case) -> Outcome {
        e3::sim(1, 70_000_000, BTreeMap::new(), |_net| run(case))
    }

    fn describe(&self, case: &Case) -> Value {
        json!({
            "keyspace": case.keyspace,
            "second_store_on_the_server": match case.other_store { 0 => "none", 1 => "registered after the one under test", _ => "registered before the one under test" },
            "fetch_after_stage": case.fetch_after,
            "build": case.build.iter().map(|b| match b {
                Build::Ops(ops) => json!(ops.iter().map(|(o, s)| { let mut j = o.json(); j["source"] = json!(s); j }).collect::<Vec<_>>()),
                Build::Purge => json!("purge"),
                Build::FaultyBulk { n, secs, delete, fault, arg, source } => json!({(if *delete { "bulk_delete_whose_storage_call_fails" } else { "bulk_set_whose_storage_call_fails" }): n, "secs": secs, "source": source,
                    "storage": match fault { 0 => "writes nothing".to_string(), 1 => format!("writes the first {} entries", (*arg as usize) % *n), _ => format!("writes the entries of mask {:#x}", arg & 0xFFF) }}),
                Build::Bulk { n, origins, base_secs, delete } => json!({(if *delete { "bulk_tombstones" } else { "bulk_live_entries" }): n, "origins": origins, "base_secs": base_secs}),
            }).collect::<Vec<_>>(),
        })
    }

    fn rule(&self) -> &'static str {
        "sender keyspace states built on a real KeyspaceGroup by 0-5 stages: op histories (0-13 inserts/deletes, 1-4 \
         origins, both sources, stamps stepping up to 2 h), purges, bulk loads of 1-20000 live entries or tombstones from 1-40 \
         origins, and bulk requests of 2-12 entries whose storage call fails (nothing / a prefix / a subset written; the reference takes over what the store's write log shows); the state is fetched with the real ReplicationClient::get_state from the real ReplicationService \
         over the in-process transport, at the end and after a generated subset of the stages (so a fetch can follow a \
         purge or a failed request directly); oracle: received set == the sender's set at that moment in live ids, \
         tombstones and stamps, in will_apply on a probe grid (every key and an unused key x every held stamp +-1 \
         counter, -1 h, +1 h, per origin), and in the return value and effect of one further insert/delete applied to \
         clones of both; last_updated equals the sender's; non-trivial = >=1 tombstone, >=2 origins and both sources \
         stamped"
    }
}

async fn run(case: &Case) -> Outcome {
    let addr: SocketAddr = ([10, 4, 0, 1], 7000).into();
    let store = ModelStore::default();
    let group = e2::new_group(store.clone(), 1).await;
    let server = Server::listen(addr).await.expect("listen");
    let ks = case.keyspace.as_str();
    // A node may host several replicated stores (one extension per storage type): a second store with a keyspace of the
    // same name and other content is served by the same server; the peer must still be handed the state it asked for.
    let other_group = if case.other_store != 0 {
        let g = datacake_eventual_consistency::verif::KeyspaceGroup::new(
            std::sync::Arc::new(crate::store::SideStore(ModelStore::default())),
            Clock::new(1),
        )
        .await;
        let m = g.get_or_create_keyspace(ks).await;
        let decoy = Stamp { secs: 60_000_000, frac: 0, counter: 0, node: 77 };
        let _ = m
            .send(datacake_eventual_consistency::verif::Set::<crate::store::SideStore> {
                source: 0,
                doc: e2::doc(999_999, decoy, 0),
                ctx: None,
                _marker: std::marker::PhantomData,
            })
            .await;
        Some(g)
    } else {
        None
    };
    if case.other_store == 2 {
        server.add_service(ReplicationService::new(other_group.clone().unwrap()));
    }
    server.add_service(ReplicationService::new(group.clone()));
    if case.other_store == 1 {
        server.add_service(ReplicationService::new(other_group.clone().unwrap()));
    }

    let mut origins = std::collections::BTreeSet::new();
    let mut sources = std::collections::BTreeSet::new();
    // Reference state, built by applying the same operations directly to a set of our own (the
    // keyspace actor applies an operation iff will_apply, bulk requests in stamp order).
    let mut reference = OrSWotSet::<2>::default();
    let mut client = ReplicationClient::<ModelStore>::new(Clock::new(2), Channel::connect(addr));
    let mut fetches = 0;
    let mut faulty = 0;
    let mut seen: Vec<Stamp> = vec![];
    for (stage, b) in case.build.iter().enumerate() {
        match b {
            Build::Ops(ops) => {
                let m = group.get_or_create_keyspace(ks).await;
                for (op, source) in ops {
                    seen.push(op.stamp);
                    origins.insert(op.stamp.node);
                    sources.insert(*source);
                    if op.delete {
                        let _ = m.send(e2::msg_del(*source, e2::meta(op.key, op.stamp))).await;
                    } else {
                        let _ = m.send(e2::msg_set(*source, e2::doc(op.key, op.stamp, 0))).await;
                    }
                    if reference.will_apply(op.key, op.stamp.hlc()) {
                        apply(&mut reference, *source, op);
                    }
                }
            },
            Build::Purge => {
                let m = group.get_or_create_keyspace(ks).await;
                let _ = m.send(e2::msg_purge()).await;
                reference.purge_old_deletes();
            },
            Build::FaultyBulk { n, secs, delete, fault, arg, source } => {
                let m = group.get_or_create_keyspace(ks).await;
                let ops: Vec<SetOp> = (0..*n).map(|i| SetOp { key: 1 + i as u64, stamp: Stamp { secs: *secs, frac: 0, counter: i as u16, node: 33 }, delete: *delete }).collect();
                origins.insert(33);
                sources.insert(*source);
                let log_before = {
                    let mut g = store.inner.lock();
                    let next = g.mutating_calls;
                    g.faults.insert(next, match fault {
                        0 => crate::store::Fault::FailBefore,
                        1 => crate::store::Fault::Partial((*arg as usize) % *n),
                        _ => crate::store::Fault::Subset(*arg),
                    });
                    g.log.len()
                };
                if *delete {
                    let _ = m.send(e2::msg_multi_del(*source, ops.iter().map(|o| e2::meta(o.key, o.stamp)).collect())).await;
                } else {
                    let _ = m.send(e2::msg_multi_set(*source, ops.iter().map(|o| e2::doc(o.key, o.stamp, 0)).collect())).await;
                }
                // what the sender's storage says it wrote is what the sender's set must have taken over
                let mut written: Vec<SetOp> = {
                    let mut g = store.inner.lock();
                    g.faults.clear();
                    g.log[log_before..].iter().filter(|(k, _, _, _)| k == ks).map(|(_, id, ts, bytes)| SetOp { key: *id, stamp: Stamp::of(*ts), delete: bytes.is_none() }).collect()
                };
                written.sort_by_key(|o| o.stamp);
                seen.extend(written.iter().map(|o| o.stamp));
                for op in &written {
                    if reference.will_apply(op.key, op.stamp.hlc()) {
                        apply(&mut reference, *source, op);
                    }
                }
                faulty += 1;
            },
            Build::Bulk { n, origins: o, base_secs, delete } => {
                let m = group.get_or_create_keyspace(ks).await;
                for (chunk_no, chunk) in (0..*n).collect::<Vec<_>>().chunks(2_000).enumerate() {
                    let mut in_chunk = vec![];
                    let mut metas = vec![];
                    let docs: Vec<_> = chunk
                        .iter()
                        .map(|i| {
                            let node = (*i % *o) as u8 + 10;
                            origins.insert(node);
                            let stamp = Stamp { secs: base_secs + (*i as u64 / 60_000), frac: 0, counter: (*i % 60_000) as u16, node };
                            in_chunk.push(SetOp { key: 1_000 + *i as u64, stamp, delete: *delete });
                            metas.push(e2::meta(1_000 + *i as u64, stamp));
                            e2::doc(1_000 + *i as u64, stamp, 0)
                        })
                        .collect();
                    in_chunk.retain(|op| reference.will_apply(op.key, op.stamp.hlc()));
                    in_chunk.sort_by_key(|op| op.stamp);
                    for op in &in_chunk {
                        apply(&mut reference, chunk_no % 2, op);
                    }
                    sources.insert(chunk_no % 2);
                    if *delete {
                        let _ = m.send(e2::msg_multi_del(chunk_no % 2, metas)).await;
                    } else {
                        let _ = m.send(e2::msg_multi_set(chunk_no % 2, docs)).await;
                    }
                }
            },
        }
        if case.fetch_after[stage] {
            fetches += 1;
            let _ = group.get_or_create_keyspace(ks).await;
            match client.get_state(ks).await {
                Ok((_, received)) => compare_sets_seen(&reference, &received, &seen).map_err(|mut f| {
                    f.message = format!("fetch after stage {stage}: {}", f.message);
                    f
                })?,
                Err(status) => {
                    return Err(Fail { signature: "get-state-failed".into(), message: format!("get_state after stage {stage} failed: {status:?}") })
                },
            }
        }
    }
    // make sure the keyspace exists on the sender (an empty state is a legal state)
    let _ = group.get_or_create_keyspace(ks).await;
    let _ = actor_set(&group, ks).await;
    let sender: OrSWotSet<2> = reference;
    let sender_last_updated = group
        .verif_get(ks)
        .unwrap()
        .send(datacake_eventual_consistency::verif::LastUpdated)
        .await;

    let got = client.get_state(ks).await;
    let (last_updated, received) = match got {
        Ok(v) => v,
        Err(status) => {
            return Err(Fail { signature: "get-state-failed".into(), message: format!("get_state failed: {status:?}") });
        },
    };
    ensure!(
        last_updated == sender_last_updated,
        "last-updated-differs",
        "received last_updated {:?}, sender's is {:?}",
        Stamp::of(last_updated),
        Stamp::of(sender_last_updated)
    );
    compare_sets_seen(&sender, &received, &seen)?;

    // A peer that is up but does not serve its state (its store is not attached yet, or was detached): whatever the
    // requester is handed must still be the peer's state — an error is fine, somebody's idea of "nothing" is not
    // (since the seeded change `C19n`).
    server.remove_service(<ReplicationService<ModelStore> as datacake_rpc::RpcService>::service_name());
    if let Ok((_, received)) = client.get_state(ks).await {
        compare_sets(&sender, &received).map_err(|mut f| {
            f.signature = "state-from-a-peer-that-does-not-serve-it".into();
            f.message = format!("the peer's replication service is not registered, yet get_state returned a state, and it is not the peer's: {}", f.message);
            f
        })?;
    }
    datacake_rpc::verif::unregister(addr);
    server.shutdown();

    let v = view(&sender);
    let entries = v.live.len() + v.dead.len();
    let mut labels = vec![];
    if case.other_store != 0 {
        labels.push("second_store_on_the_server");
    }
    labels.push(match entries {
        0 => "size_0",
        1..=20 => "size_1..20",
        21..=1000 => "size_21..1000",
        _ => "size>1000",
    });
    if v.live.is_empty() && !v.dead.is_empty() {
        labels.push("tombstones_only");
    }
    if case.build.iter().any(|b| matches!(b, Build::Purge)) {
        labels.push("purged_stage");
    }
    if fetches > 0 {
        labels.push("several_fetches");
    }
    if faulty > 0 {
        labels.push("bulk_request_with_a_storage_failure");
    }
    let nontrivial = !v.dead.is_empty() && origins.len() >= 2 && sources.len() == 2;
    let _ = Arc::new(());
    Ok(Pass { nontrivial, labels })
}

pub fn compare_sets(sender: &OrSWotSet<2>, received: &OrSWotSet<2>) -> Result<(), Fail> {
    compare_sets_seen(sender, received, &[])
}

/// `seen`: stamps of operations the sender has been handed, whether or not their origin still owns an entry or a tombstone
/// (after the seeded change `C19r`: what a state remembers about an origin that owns nothing any more -- its cut-off -- is
/// part of the "accept / refuse decisions for any further operation")
pub fn compare_sets_seen(sender: &OrSWotSet<2>, received: &OrSWotSet<2>, seen: &[Stamp]) -> Result<(), Fail> {
    let sv = view(sender);
    let rv = view(received);
    ensure!(sv.live == rv.live, "live-differs", "received live ids differ: sender {} entries, received {} entries; first differences: {:?}", sv.live.len(), rv.live.len(), first_diff(&sv.live, &rv.live));
    ensure!(sv.dead == rv.dead, "tombstones-differ", "received tombstones differ: {:?}", first_diff(&sv.dead, &rv.dead));

    // probe grid
    let mut keys: Vec<u64> = sv.live.keys().chain(sv.dead.keys()).copied().take(40).collect();
    keys.push(987_654_321);
    let held: Vec<Stamp> = sv.live.values().chain(sv.dead.values()).copied().collect();
    let mut per_origin: BTreeMap<u8, (Stamp, Stamp)> = BTreeMap::new();
    for s in held.iter().chain(seen.iter()) {
        let e = per_origin.entry(s.node).or_insert((*s, *s));
        if *s < e.0 {
            e.0 = *s;
        }
        if *s > e.1 {
            e.1 = *s;
        }
    }
    let mut probes: Vec<Stamp> = vec![];
    let around = |s: Stamp, probes: &mut Vec<Stamp>| {
        probes.push(s);
        probes.push(Stamp { counter: s.counter.wrapping_add(1), ..s });
        probes.push(Stamp { counter: s.counter.saturating_sub(1), ..s });
        for d in [3_599u64, 3_600, 3_601, 7_200] {
            probes.push(Stamp { secs: s.secs.saturating_sub(d), ..s });
            probes.push(Stamp { secs: s.secs + d, ..s });
        }
    };
    for (lo, hi) in per_origin.values() {
        around(*lo, &mut probes);
        around(*hi, &mut probes);
    }
    for s in held.iter().take(30) {
        around(*s, &mut probes);
    }
    probes.push(Stamp { secs: 1, frac: 0, counter: 0, node: 77 });
    for k in &keys {
        for p in &probes {
            let ts: HLCTimestamp = p.hlc();
            let a = sender.will_apply(*k, ts);
            let b = received.will_apply(*k, ts);
            ensure!(a == b, "will-apply-differs", "will_apply({k},{:?}): sender {a}, received copy {b}", p);
        }
    }
    // one further operation on clones (sampled pairs; cloning a large set per probe is expensive)
    let entries = sv.live.len() + sv.dead.len();
    let big = entries > 200;
    let stride = if entries > 50_000 {
        (keys.len() * probes.len() / 3).max(5)
    } else if big {
        (keys.len() * probes.len() / 12).max(5)
    } else {
        5
    };
    for (i, k) in keys.iter().enumerate() {
        for (j, p) in probes.iter().enumerate() {
            if (i * probes.len() + j) % stride != 0 {
                continue;
            }
            for delete in [false, true] {
                for source in 0..2 {
                    let op = SetOp { key: *k, stamp: *p, delete };
                    let mut a = sender.clone();
                    let mut b = received.clone();
                    let ra = apply(&mut a, source, &op);
                    let rb = apply(&mut b, source, &op);
                    ensure!(ra == rb, "further-op-differs", "{:?} via source {source}: sender returns {ra}, received copy {rb}", op);
                    if sv.live.len() + sv.dead.len() <= 200 {
                        ensure!(view(&a) == view(&b), "further-op-differs", "{:?} via source {source} leaves different states", op);
                    }
                }
            }
        }
    }
    Ok(())
}

fn first_diff(a: &BTreeMap<u64, Stamp>, b: &BTreeMap<u64, Stamp>) -> Vec<String> {
    let mut out = vec![];
    for (k, v) in a {
        if b.get(k) != Some(v) {
            out.push(format!("key {k}: sender {:?}, received {:?}", v, b.get(k)));
        }
        if out.len() >= 3 {
            return out;
        }
    }
    for (k, v) in b {
        if !a.contains_key(k) {
            out.push(format!("key {k}: sender nothing, received {:?}", v));
        }
        if out.len() >= 3 {
            break;
        }
    }
    out
}

// ---------------------------------------------------------------------------------------
// Part `huge-states`: "for states of any size". 70 000 - 1 200 000 entries (1 - 20 MB on the wire), a third of
// them optionally tombstoned by a second bulk stage, through the same transfer and the same comparison.

pub struct Huge;

impl Prop for Huge {
    type Case = Case;

    fn id(&self) -> &'static str {
        "C19"
    }

    fn part(&self) -> &'static str {
        "huge-states"
    }

    fn width(&self) -> usize {
        12
    }

    fn breadcrumbs(&self) -> bool {
        true
    }

    fn shrink_budget(&self) -> usize {
        12
    }

    fn gen(&self, src: &mut Src) -> Case {
        let n = *src.pick(&[70_000usize, 150_000, 300_000, 600_000, 1_200_000]);
        let origins = 1 + src.below(40);
        let base_secs = 60_000_000 + src.below64(10_000);
        let mut build = vec![Build::Bulk { n, origins, base_secs, delete: false }];
        if src.chance(1, 2) {
            build.push(Build::Bulk { n: n / 3, origins, base_secs: base_secs + 100, delete: true });
        }
        let fetch_after = build.iter().map(|_| false).collect();
        Case { build, fetch_after, keyspace: src.pick(&["ks", "k\u{e9}y"]).to_string(), other_store: 0 }
    }

    fn run(&self, case: &Case) -> Outcome {
        e3::sim(1, 70_000_000, BTreeMap::new(), |_net| run(case))
    }

    fn describe(&self, case: &Case) -> Value {
        Transfer.describe(case)
    }

    fn rule(&self) -> &'static str {
        "sender states of 70 000 / 150 000 / 300 000 / 600 000 / 1 200 000 entries from 1-40 origins (about 1-20 MB on the wire), in half of \
         the cases a third of the entries tombstoned by a second bulk stage, fetched with the real ReplicationClient::get_state from the \
         real ReplicationService; same differential oracle as part get-state (live ids, tombstones, stamps, will_apply probe grid, one \
         further operation on clones); non-trivial as in part get-state: tombstones present, >= 2 origins, both sources"
    }
}

// ---------------------------------------------------------------------------------------
// Part `undecodable`: a damaged reply frame is refused, never turned into a state.

pub struct Undecodable;

#[derive(Debug, Clone)]
pub struct FrameCase {
    pub ops: Vec<(SetOp, usize)>,
    pub noise: u64,
    /// further entries loaded in bulk (0 = none): replies of 70 KB - 1 MB, i.e. beyond any window a checksum might be limited to
    pub bulk: usize,
}

impl Prop for Undecodable {
    type Case = FrameCase;

    fn id(&self) -> &'static str {
        "C19"
    }

    fn part(&self) -> &'static str {
        "undecodable-reply"
    }

    fn width(&self) -> usize {
        100
    }

    fn breadcrumbs(&self) -> bool {
        true
    }

    fn gen(&self, src: &mut Src) -> FrameCase {
        let ops = gen_ops(src);
        let noise = src.word();
        let bulk = if src.chance(1, 8) { *src.pick(&[3_000usize, 4_200, 9_000, 40_000]) } else { 0 };
        FrameCase { ops, noise, bulk }
    }

    fn run(&self, case: &FrameCase) -> Outcome {
        let mut set = OrSWotSet::<2>::default();
        for (op, s) in &case.ops {
            apply(&mut set, *s, op);
        }
        for i in 0..case.bulk {
            let stamp = Stamp { secs: 80_000_000 + (i as u64 / 60_000), frac: 0, counter: (i % 60_000) as u16, node: 20 + (i % 5) as u8 };
            apply(&mut set, i % 2, &SetOp { key: 10_000 + i as u64, stamp, delete: i % 7 == 0 });
        }
        let bytes = rkyv::to_bytes::<_, 4096>(&set).expect("serialise").into_vec();
        let ts = Stamp { secs: 70_000_000, frac: 0, counter: 1, node: 1 }.hlc();
        let msg = KeyspaceOrSwotSet { timestamp: ts, last_updated: ts, set: bytes };
        let frame = to_view_bytes(&msg).expect("frame");
        let n = frame.len();
        let mk = |b: &[u8]| {
            let mut v = AlignedVec::with_capacity(b.len());
            v.extend_from_slice(b);
            v
        };
        // the intact frame decodes to the same state
        let ok = DataView::<KeyspaceOrSwotSet>::using(mk(&frame));
        ensure!(ok.is_ok(), "valid-reply-refused", "an intact get_state reply frame ({n} bytes) is refused");
        let view_ok = ok.unwrap();
        let back: OrSWotSet<2> = unsafe { rkyv::from_bytes_unchecked(&view_ok.set).expect("decode") };
        compare_sets(&set, &back)?;
        // every single-bit flip (<= 2 KiB) or 1500 sampled ones, and every truncation: refused
        let bits = n * 8;
        let mut x = case.noise | 1;
        let flips: Vec<usize> = if n <= 2048 {
            (0..bits).collect()
        } else {
            // sampled; the first and last 64 bits and the bits around every 64 KiB boundary are always among them
            let mut v: Vec<usize> = (0..64).chain(bits - 64..bits).collect();
            let mut boundary = 65_536 * 8;
            while boundary + 8 < bits {
                v.extend([boundary - 1, boundary, bits - boundary, bits - boundary - 1]);
                boundary += 65_536 * 8;
            }
            v.extend((0..1500).map(|_| {
                x = crate::core::splitmix64(x);
                (x % bits as u64) as usize
            }));
            v
        };
        for bit in flips {
            let mut f = frame.to_vec();
            f[bit / 8] ^= 1 << (bit % 8);
            ensure!(
                DataView::<KeyspaceOrSwotSet>::using(mk(&f)).is_err(),
                "damaged-reply-accepted",
                "get_state reply with bit {bit} flipped is accepted as a state"
            );
        }
        let root = std::mem::size_of::<rkyv::Archived<KeyspaceOrSwotSet>>();
        // every truncation for frames up to 8 KiB; for larger ones every length below root + trailer + 64 and 300 sampled lengths
        let lens: Vec<usize> = if n <= 8_192 {
            (0..n).collect()
        } else {
            let mut v: Vec<usize> = (0..(root + 4 + 64).min(n)).collect();
            v.extend((0..300).map(|_| {
                x = crate::core::splitmix64(x);
                (x % n as u64) as usize
            }));
            v
        };
        for len in lens {
            let f = &frame[..len];
            let trailer_ok = len >= 4 && crc32fast::hash(&f[..len - 4]).to_le_bytes() == f[len - 4..];
            if len < root + 4 || !trailer_ok {
                ensure!(
                    DataView::<KeyspaceOrSwotSet>::using(mk(f)).is_err(),
                    "truncated-reply-accepted",
                    "get_state reply truncated from {n} to {len} bytes is accepted as a state"
                );
            }
        }
        let v = view(&set);
        let mut labels = vec![];
        if n > 65_536 {
            labels.push("reply>64KiB");
        }
        Ok(Pass { nontrivial: !v.dead.is_empty() && !v.live.is_empty(), labels })
    }

    fn describe(&self, case: &FrameCase) -> Value {
        json!({"ops": case.ops.iter().map(|(o, _)| o.json()).collect::<Vec<_>>(), "further_entries_loaded_in_bulk": case.bulk})
    }

    fn rule(&self) -> &'static str {
        "a get_state reply frame (KeyspaceOrSwotSet wrapping the rkyv bytes of a generated set exactly as the actor \
         and service produce them): the intact frame decodes to an observably identical set; every single-bit flip \
         (all bits up to 2 KiB; beyond that 1500 sampled ones plus the first and last 64 bits and the bits around every 64 KiB boundary) and every \
         truncation (sampled above 8 KiB) is refused by DataView::using, so no state is produced from it; one case in 8 loads 3000-40000 further \
         entries, i.e. replies of 70 KB - 1 MB; non-trivial = the set has live ids and tombstones"
    }
}


// ---------------------------------------------------------------------------------------
// Part `get-state-under-writes`: "the peer's state at the moment it answered".  The reply carries the keyspace's
// change stamp next to the state, and the poller stops asking while the peer keeps reporting that stamp: a reply
// labelled with the stamp the keyspace still has once everything is quiet must therefore carry that final state.

#[derive(Debug, Clone)]
pub struct UnderWritesCase {
    /// documents in the keyspace before anything else happens
    pub preload: usize,
    /// (start after ms, key, delete?) -- writes sent to the keyspace actor concurrently
    pub writes: Vec<(u64, u64, bool)>,
    /// start times of the state requests
    pub fetches: Vec<u64>,
    pub write_latency_ms: u64,
}

pub struct UnderWrites;

impl Prop for UnderWrites {
    type Case = UnderWritesCase;

    fn id(&self) -> &'static str {
        "C19"
    }

    fn part(&self) -> &'static str {
        "get-state-under-writes"
    }

    fn width(&self) -> usize {
        48
    }

    fn breadcrumbs(&self) -> bool {
        true
    }

    fn shrink_budget(&self) -> usize {
        300
    }

    fn gen(&self, src: &mut Src) -> UnderWritesCase {
        let write_latency_ms = *src.pick(&[1u64, 3, 10]);
        let n_w = 1 + src.below(5);
        let writes = (0..n_w).map(|_| (src.below64(40), 1 + src.below64(4), src.chance(1, 3))).collect();
        let n_f = 1 + src.below(4);
        let fetches = (0..n_f).map(|_| src.below64(45)).collect();
        UnderWritesCase { preload: src.below(4), writes, fetches, write_latency_ms }
    }

    fn run(&self, case: &UnderWritesCase) -> Outcome {
        e3::sim(1, 70_000_000, BTreeMap::new(), |_net| run_under_writes(case))
    }

    fn describe(&self, case: &UnderWritesCase) -> Value {
        json!({
            "preloaded_documents": case.preload,
            "storage_write_latency_ms": case.write_latency_ms,
            "writes_(start_ms,key,delete)": case.writes,
            "state_requests_start_ms": case.fetches,
        })
    }

    fn rule(&self) -> &'static str {
        "one keyspace served by the real ReplicationService over a store whose writes take 1-10 simulated ms; 1-5 \
         writes (set / delete on 1-4 keys) are sent to the keyspace actor and 1-4 state requests are issued through the \
         real ReplicationClient at generated instants within 45 ms, so that requests queue between writes; once \
         everything is quiet the state is requested again; oracle: every reply whose change stamp equals the final \
         change stamp carries exactly the final state (live ids, tombstones, stamps); non-trivial = a state request \
         was issued while a write was in flight"
    }
}

async fn run_under_writes(case: &UnderWritesCase) -> Outcome {
    let addr: SocketAddr = ([10, 4, 0, 2], 7000).into();
    let store = ModelStore::default();
    let group = e2::new_group(store.clone(), 1).await;
    let server = Server::listen(addr).await.expect("listen");
    server.add_service(ReplicationService::new(group.clone()));
    let ks = "ks";
    let m = group.get_or_create_keyspace(ks).await;
    for i in 0..case.preload {
        let stamp = Stamp { secs: 69_999_000, frac: 0, counter: i as u16, node: 3 };
        let _ = m.send(e2::msg_set(0, e2::doc(10 + i as u64, stamp, 2))).await;
    }
    store.inner.lock().write_latency_ms = case.write_latency_ms;
    let t0 = tokio::time::Instant::now();
    let mut overlapped = false;
    let in_flight = Arc::new(std::sync::atomic::AtomicUsize::new(0));
    let mut write_tasks = vec![];
    for (i, (at, key, delete)) in case.writes.iter().enumerate() {
        let m = m.clone();
        let (at, key, delete) = (*at, *key, *delete);
        let in_flight = in_flight.clone();
        write_tasks.push(tokio::spawn(async move {
            tokio::time::sleep(std::time::Duration::from_millis(at)).await;
            let stamp = Stamp { secs: 70_000_000 + i as u64, frac: 0, counter: 0, node: 3 };
            in_flight.fetch_add(1, std::sync::atomic::Ordering::SeqCst);
            if delete {
                let _ = m.send(e2::msg_del(0, e2::meta(key, stamp))).await;
            } else {
                let _ = m.send(e2::msg_set(0, e2::doc(key, stamp, 2))).await;
            }
            in_flight.fetch_sub(1, std::sync::atomic::Ordering::SeqCst);
        }));
    }
    let mut fetch_tasks = vec![];
    for at in &case.fetches {
        let at = *at;
        let in_flight = in_flight.clone();
        fetch_tasks.push(tokio::spawn(async move {
            tokio::time::sleep(std::time::Duration::from_millis(at)).await;
            let busy = in_flight.load(std::sync::atomic::Ordering::SeqCst) > 0;
            let mut client = ReplicationClient::<ModelStore>::new(Clock::new(2), Channel::connect(addr));
            (at, busy, client.get_state("ks").await)
        }));
    }
    for t in write_tasks {
        let _ = t.await;
    }
    let mut replies = vec![];
    for t in fetch_tasks {
        let (at, busy, r) = t.await.expect("fetch task");
        overlapped |= busy;
        match r {
            Ok((lu, set)) => replies.push((at, lu, set)),
            Err(status) => return Err(Fail { signature: "get-state-failed".into(), message: format!("get_state at {at} ms failed: {status:?}") }),
        }
    }
    let _ = t0;
    // quiet now: the final word
    let mut client = ReplicationClient::<ModelStore>::new(Clock::new(2), Channel::connect(addr));
    let (final_lu, final_set) = client.get_state(ks).await.map_err(|s| Fail { signature: "get-state-failed".into(), message: format!("final get_state failed: {s:?}") })?;
    let final_view = view(&final_set);
    let mut current_label = 0;
    for (at, lu, set) in &replies {
        if *lu == final_lu {
            current_label += 1;
            let v = view(set);
            ensure!(
                v == final_view,
                "state-older-than-its-change-stamp",
                "the reply to the request issued at {at} ms is labelled with change stamp {:?}, which is still the keyspace's stamp when everything is quiet, but carries {:?} while the keyspace holds {:?}: a peer that records this stamp will not ask again",
                Stamp::of(*lu),
                v,
                final_view
            );
        }
    }
    datacake_rpc::verif::unregister(addr);
    server.shutdown();
    let mut labels = vec![];
    if overlapped {
        labels.push("request_while_a_write_was_in_flight");
    }
    if current_label > 0 {
        labels.push("reply_labelled_with_the_final_stamp");
    }
    Ok(Pass { nontrivial: overlapped, labels })
}

pub fn parts() -> Vec<Box<dyn DynPart>> {
    vec![
        Box::new(Gen::new(Transfer, 6_000, 300_000)),
        Box::new(Gen::new(Huge, 16, 400)),
        Box::new(Gen::new(Undecodable, 3_000, 100_000)),
        Box::new(Gen::new(UnderWrites, 60_000, 3_000_000)),
    ]
}
