//! C04 — per key the greatest timestamp wins, whatever order operations arrive in.

use std::collections::BTreeMap;

use datacake_crdt::OrSWotSet;
use serde_json::{json, Value};

use crate::core::{Outcome, Pass, Prop, Src};
use crate::ensure;
use crate::model::{apply, lww, view, SetOp, Stamp, StampGen};
use crate::registry::{DynPart, Gen};

#[derive(Debug, Clone)]
pub struct Case {
    pub sources: usize,
    /// arrival order
    pub ops: Vec<(SetOp, usize)>,
}

pub struct C04;

pub fn gen_ops(src: &mut Src, max_ops: usize, window: u64) -> Vec<SetOp> {
    let n = 1 + src.below(max_ops);
    let n_keys = 1 + src.below(3) as u64;
    let nodes: Vec<u8> = match src.below(4) {
        0 => vec![1, 2],
        1 => vec![1],
        2 => vec![0, 1, 255],
        _ => vec![3, 7, 9, 200],
    };
    // Stamps start >= 1 h after the datacake epoch (2023-01-01): the purge cut-off saturates at the
    // epoch, and no real clock can issue earlier stamps.
    let base = *src.pick(&[5_000u64, 3_700, 4_000, 1_000_000, (1u64 << 32) - 1 - 3_600, 10, 3_000]);
    // keep the whole window inside the 32-bit seconds a timestamp can carry
    let base = base.min((1u64 << 32) - 1 - window);
    let mut sg = StampGen::new(base, window, nodes);
    let mut ops = vec![];
    for _ in 0..n {
        let key = 1 + src.below64(n_keys);
        let delete = src.chance(2, 5);
        let stamp = sg.draw(src);
        ops.push(SetOp { key, stamp, delete });
    }
    ops
}

impl Prop for C04 {
    type Case = Case;

    fn id(&self) -> &'static str {
        "C04"
    }

    fn part(&self) -> &'static str {
        "arrival-order"
    }

    fn width(&self) -> usize {
        64
    }

    fn gen(&self, src: &mut Src) -> Case {
        let sources = 1 + src.below(2);
        // one case in three spreads the stamps over up to four hours: the statement's condition is per ORIGIN (no
        // operation older than the forgiveness window relative to what the replica has already seen from its
        // origin), operations of different origins may be hours apart
        let wide = src.chance(1, 3);
        let window = if wide { *src.pick(&[7_200u64, 14_400]) } else { 3_000 };
        let ops = gen_ops(src, 7, window);
        let perm = src.permutation(ops.len());
        let mut ops: Vec<(SetOp, usize)> = perm
            .into_iter()
            .map(|i| {
                let s = src.below(sources);
                (ops[i], s)
            })
            .collect();
        // "operation multisets": the same operation may be delivered again (direct replication plus repair,
        // duplicated messages), through the same or the other source
        for _ in 0..src.weighted(&[4, 2, 1]) {
            let which = src.below(ops.len());
            let at = which + 1 + src.below(ops.len() - which);
            let copy = (ops[which].0, src.below(sources));
            ops.insert(at, copy);
        }
        if wide {
            // keep the per-origin condition by construction: an operation that would arrive more than (just under) an
            // hour behind the newest operation of its origin that has already arrived is not delivered at all
            let mut newest: BTreeMap<u8, u64> = BTreeMap::new();
            ops.retain(|(op, _)| {
                let seen = newest.get(&op.stamp.node).copied().unwrap_or(0);
                if op.stamp.secs + 3_590 < seen {
                    return false;
                }
                newest.insert(op.stamp.node, seen.max(op.stamp.secs));
                true
            });
        }
        Case { sources, ops }
    }

    fn run(&self, case: &Case) -> Outcome {
        // the wall clock of the process is irrelevant to the set: run under one of three, picked by the case's size
        crate::model::with_wall((case.ops.len() + case.sources) as u8, || match case.sources {
            1 => run_n::<1>(case),
            _ => run_n::<2>(case),
        })
    }

    fn describe(&self, case: &Case) -> Value {
        json!({
            "sources": case.sources,
            "arrival_order": case.ops.iter().map(|(o, s)| {
                let mut j = o.json();
                j["source"] = json!(s);
                j
            }).collect::<Vec<_>>(),
        })
    }

    fn rule(&self) -> &'static str {
        "1-7 inserts/deletes on 1-3 keys, distinct stamps from a tie-rich grid inside a 3000 s window (one case in three: over 2 or 4 hours, an operation \
         arriving more than an hour behind the newest already-arrived operation of its own origin being left out), \
         arrival order = generated permutation, 0-2 of them delivered a second time later on (same or other source), \
         source per op generated (OrSWotSet<1> and <2>); oracle: \
         after every op will_apply(before)==return value==(view of the key changed), no key both live and \
         tombstoned, final live set == \
         LWW model; non-trivial = some op arrives after a newer op of the same origin on the same source"
    }
}

fn run_n<const N: usize>(case: &Case) -> Outcome {
    let mut set = OrSWotSet::<N>::default();
    // newest stamp seen per (source, origin)
    let mut newest: BTreeMap<(usize, u8), Stamp> = BTreeMap::new();
    let mut late = false;
    let mut cross_node_tie = false;
    for (i, (op, source)) in case.ops.iter().enumerate() {
        if let Some(prev) = newest.get(&(*source, op.stamp.node)) {
            if *prev > op.stamp {
                late = true;
            }
        }
        let e = newest.entry((*source, op.stamp.node)).or_insert(op.stamp);
        if *e < op.stamp {
            *e = op.stamp;
        }

        let before = view(&set);
        let predicted = set.will_apply(op.key, op.stamp.hlc());
        let returned = apply(&mut set, *source, op);
        let after = view(&set);
        let key_before = (before.live.get(&op.key), before.dead.get(&op.key));
        let key_after = (after.live.get(&op.key), after.dead.get(&op.key));
        let changed = key_before != key_after;
        ensure!(
            returned == changed,
            "return-vs-change",
            "step {i}: {:?} returned {returned} but view of key changed = {changed} (before {:?}, after {:?})",
            op,
            key_before,
            key_after
        );
        ensure!(
            predicted == returned,
            "will-apply-vs-return",
            "step {i}: will_apply predicted {predicted} but {:?} returned {returned}",
            op
        );
        ensure!(
            after.live.keys().all(|k| !after.dead.contains_key(k)),
            "key-live-and-tombstoned",
            "step {i}: after {:?} a key is both live and tombstoned: {:?}",
            op,
            after
        );
        // other keys untouched
        for k in before.live.keys().chain(before.dead.keys()) {
            if *k != op.key {
                ensure!(
                    (before.live.get(k), before.dead.get(k)) == (after.live.get(k), after.dead.get(k)),
                    "other-key-changed",
                    "step {i}: op on key {} changed key {k}",
                    op.key
                );
            }
        }
    }

    let model = lww(case.ops.iter().map(|(o, _)| *o));
    for (a, _) in &case.ops {
        for (b, _) in &case.ops {
            if a.key == b.key
                && a.stamp.node != b.stamp.node
                && (a.stamp.secs, a.stamp.frac, a.stamp.counter) == (b.stamp.secs, b.stamp.frac, b.stamp.counter)
            {
                cross_node_tie = true;
            }
        }
    }
    let got = view(&set);
    for (key, winner) in &model {
        let live = got.live.get(key).copied();
        if winner.delete {
            ensure!(
                live.is_none(),
                "lww-deleted-but-live",
                "key {key}: greatest op is delete at {:?} but key is live at {:?}",
                winner.stamp,
                live
            );
            ensure!(
                set.get(key).is_none(),
                "lww-deleted-but-live",
                "key {key}: get() returns a live entry after winning delete"
            );
        } else {
            ensure!(
                live == Some(winner.stamp),
                "lww-insert-not-live",
                "key {key}: greatest op is insert at {:?} but live stamp is {:?}",
                winner.stamp,
                live
            );
            ensure!(
                set.get(key).map(|t| Stamp::of(*t)) == Some(winner.stamp),
                "lww-insert-not-live",
                "key {key}: get() disagrees with the winning insert {:?}",
                winner.stamp
            );
        }
    }
    ensure!(
        got.live.keys().all(|k| model.contains_key(k)),
        "invented-key",
        "live key never operated on: {:?}",
        got.live
    );

    let mut labels = vec![];
    if late {
        labels.push("late_same_origin_same_source");
    }
    if cross_node_tie {
        labels.push("time_counter_tie_across_nodes");
    }
    if N == 2 {
        labels.push("two_sources");
    }
    let secs: Vec<u64> = case.ops.iter().map(|(o, _)| o.stamp.secs).collect();
    if secs.iter().max().unwrap_or(&0) - secs.iter().min().unwrap_or(&0) > 3_600 {
        labels.push("stamps_span_more_than_one_hour");
    }
    Ok(Pass { nontrivial: late, labels })
}

/// Exhaustive small scope: ≤4 ops over keys {1,2}, 2 origins × 3 stamps, all permutations,
/// all source assignments for N=2. Encoded as explicit cases (not choice sequences).
pub struct C04Exhaustive;

fn small_stamps() -> Vec<Stamp> {
    let mut v = vec![];
    for node in [1u8, 2] {
        for (secs, counter) in [(5_000u64, 0u16), (5_000, 1), (6_000, 0)] {
            v.push(Stamp { secs, frac: 0, counter, node });
        }
    }
    v
}

/// The exhaustive space is indexed by one integer; `gen` decodes the index from the first
/// choice word, so the same driver / replay format is used.
pub fn exhaustive_space() -> Vec<Vec<u64>> {
    // ops: choose k in 1..=3 distinct stamps (ordered = arrival order), each with key in {1,2},
    // kind in {ins,del}, source in {0,1}
    let stamps = small_stamps();
    let mut out = vec![];
    let n = stamps.len() as u64;
    for k in 1..=3u64 {
        // ordered selections of k distinct stamps
        let mut idx = vec![0u64; k as usize];
        loop {
            let distinct = {
                let mut s = idx.clone();
                s.sort();
                s.dedup();
                s.len() == idx.len()
            };
            if distinct {
                let combos = 8u64.pow(k as u32); // (key, kind, source) per op = 3 bits
                for c in 0..combos {
                    let mut words = vec![k];
                    for (j, si) in idx.iter().enumerate() {
                        words.push(*si);
                        words.push((c >> (3 * j)) & 7);
                    }
                    out.push(words);
                }
            }
            // increment idx in base n
            let mut p = 0;
            loop {
                if p == idx.len() {
                    break;
                }
                idx[p] += 1;
                if idx[p] < n {
                    break;
                }
                idx[p] = 0;
                p += 1;
            }
            if p == idx.len() {
                break;
            }
        }
    }
    out
}

impl Prop for C04Exhaustive {
    type Case = Case;

    fn id(&self) -> &'static str {
        "C04"
    }

    fn part(&self) -> &'static str {
        "small-scope"
    }

    fn width(&self) -> usize {
        8
    }

    fn gen(&self, src: &mut Src) -> Case {
        // raw words, not scaled
        let stamps = small_stamps();
        let k = src.word().clamp(1, 3);
        let mut ops = vec![];
        for _ in 0..k {
            let si = (src.word() as usize) % stamps.len();
            let bits = src.word();
            ops.push((
                SetOp { key: 1 + (bits & 1), stamp: stamps[si], delete: bits & 2 != 0 },
                ((bits >> 2) & 1) as usize,
            ));
        }
        // drop duplicates of a stamp (cannot occur in the enumerated space)
        let mut seen = std::collections::BTreeSet::new();
        ops.retain(|(o, _)| seen.insert(o.stamp));
        Case { sources: 2, ops }
    }

    fn run(&self, case: &Case) -> Outcome {
        run_n::<2>(case)
    }

    fn describe(&self, case: &Case) -> Value {
        C04.describe(case)
    }

    fn rule(&self) -> &'static str {
        "exhaustive: every arrival sequence of 1-3 ops with distinct stamps out of 2 origins x 3 stamps \
         (incl. a (time,counter) tie across nodes), keys {1,2}, insert/delete, source 0/1 on OrSWotSet<2>; \
         same oracle"
    }
}

pub fn parts() -> Vec<Box<dyn DynPart>> {
    vec![
        Box::new(Gen::new(C04, 6_000_000, 600_000_000)),
        Box::new(Gen::listed(C04Exhaustive, exhaustive_space)),
    ]
}
