//! C16 — membership change events add up to the live membership.

use std::collections::BTreeMap;
use std::net::SocketAddr;
use std::time::Duration;

use datacake_node::{ClusterMember, ConnectionConfig, DCAwareSelector, DatacakeNodeBuilder, MembershipChange};
use futures::StreamExt;
use serde_json::{json, Value};

use crate::core::{Fail, Outcome, Pass, Prop, Src};
use crate::e3;
use crate::registry::{DynPart, Gen};

const ME: u8 = 1;

/// other members: id -> address variant (0 or 1: an id may come back with a different address)
pub type Snapshot = BTreeMap<u8, u8>;

#[derive(Debug, Clone)]
pub struct Case {
    pub snapshots: Vec<Snapshot>,
    /// inject snapshot i+1 without letting the publisher run in between (publisher skips snapshot i)
    pub back_to_back: Vec<bool>,
    /// the component subscribes just before snapshot `subscribe_at` is injected
    pub subscribe_at: usize,
    /// does the subscriber read after snapshot i
    pub drain: Vec<bool>,
    /// does the subscriber read right after subscribing (it is handed the most recent change)
    pub read_at_subscribe: bool,
    pub seed: u64,
}

pub struct C16;

fn addr(id: u8, variant: u8) -> SocketAddr {
    // variants 0 and 1 are addresses of the id's own; 2 and 3 come from a pool every id may use (a node that
    // restarts under a new id on the old address, two nodes swapping addresses)
    if variant >= 2 {
        return ([10, 1, 9, variant], 7000).into();
    }
    ([10, 1, variant, id], 7000).into()
}

fn member(id: u8, variant: u8) -> ClusterMember {
    ClusterMember::new(id, addr(id, variant), format!("dc-{}", id % 2))
}

impl Prop for C16 {
    type Case = Case;

    fn id(&self) -> &'static str {
        "C16"
    }

    fn part(&self) -> &'static str {
        "membership-deltas"
    }

    fn width(&self) -> usize {
        96
    }

    fn shrink_budget(&self) -> usize {
        800
    }

    fn gen(&self, src: &mut Src) -> Case {
        let n = 1 + src.below(10);
        let mut cur = Snapshot::new();
        let mut snapshots = vec![];
        for _ in 0..n {
            // mutate the previous snapshot: joins, leaves, address changes
            let changes = 1 + src.below(3);
            for _ in 0..changes {
                let id = 2 + src.below(5) as u8;
                match src.weighted(&[4, 3, 1]) {
                    0 => {
                        let v = *src.pick(&[0u8, 0, 0, 0, 1, 2, 2, 3]);
                        cur.entry(id).or_insert(v);
                    },
                    1 => {
                        cur.remove(&id);
                    },
                    _ => {
                        let to = *src.pick(&[0u8, 1, 2, 2, 3]);
                        if let Some(v) = cur.get_mut(&id) {
                            *v = if *v == to { (to + 1) % 4 } else { to };
                        } else {
                            cur.insert(id, to);
                        }
                    },
                }
            }
            snapshots.push(cur.clone());
        }
        let back_to_back = (0..n).map(|_| src.chance(1, 8)).collect();
        let subscribe_at = if src.chance(1, 2) { 0 } else { src.below(n + 1) };
        let drain_all = src.chance(1, 2);
        let drain = (0..n).map(|_| drain_all || src.chance(1, 2)).collect();
        Case { snapshots, back_to_back, subscribe_at, drain, read_at_subscribe: src.chance(1, 2), seed: src.word() }
    }

    fn run(&self, case: &Case) -> Outcome {
        e3::sim(case.seed, 70_000_000, BTreeMap::new(), |_net| run(case))
    }

    fn describe(&self, case: &Case) -> Value {
        json!({
            "snapshots_of_other_members(id->address variant)": case.snapshots,
            "published_back_to_back_with_next": case.back_to_back,
            "subscribe_before_snapshot": case.subscribe_at,
            "subscriber_reads_after_snapshot": case.drain,
            "subscriber_reads_right_after_subscribing": case.read_at_subscribe,
        })
    }

    fn rule(&self) -> &'static str {
        "one real DatacakeNode (id 1); 1-10 membership snapshots over ids 2-6 (joins, leaves, rejoins, address \
         changes, addresses of an id's own or from a pool of two that several ids may hold at once or one after the other) published where chitchat would publish them (hook H-members), some back to back so the node's own \
         publisher skips one; a component subscribes via membership_changes() at a generated moment and reads after a \
         generated subset of the snapshots, always reading once more at the end; it applies each change like the \
         replication services do (remove `left` ids, then insert `joined`); oracle 1: each delta it is handed equals \
         the difference between the two snapshots the publisher computed it from, `left` carrying the OLD address; \
         oracle 2: at the end it holds exactly the other members of the final snapshot; non-trivial = >=1 leave or \
         address change"
    }
}

fn expected_delta(prev: &Snapshot, new: &Snapshot) -> (BTreeMap<u8, SocketAddr>, BTreeMap<u8, SocketAddr>) {
    let mut joined = BTreeMap::new();
    let mut left = BTreeMap::new();
    for (id, v) in new {
        if prev.get(id) != Some(v) {
            joined.insert(*id, addr(*id, *v));
        }
    }
    for (id, v) in prev {
        if new.get(id) != Some(v) {
            left.insert(*id, addr(*id, *v));
        }
    }
    (joined, left)
}

fn delta_maps(d: &MembershipChange) -> (BTreeMap<u8, SocketAddr>, BTreeMap<u8, SocketAddr>, bool) {
    let mut dup = false;
    let mut joined = BTreeMap::new();
    let mut left = BTreeMap::new();
    for m in &d.joined {
        dup |= joined.insert(m.node_id, m.public_addr).is_some();
    }
    for m in &d.left {
        dup |= left.insert(m.node_id, m.public_addr).is_some();
    }
    (joined, left, dup)
}

async fn run(case: &Case) -> Outcome {
    let a = addr(ME, 0);
    let cfg = ConnectionConfig::new(a, a, Vec::<String>::new());
    let node = DatacakeNodeBuilder::<DCAwareSelector>::new(ME, cfg).connect().await.expect("connect");
    tokio::time::sleep(Duration::from_millis(10)).await;

    let n = case.snapshots.len();
    let mut stream = None;
    let mut held: BTreeMap<u8, SocketAddr> = BTreeMap::new();
    // snapshot the publisher last computed a delta against / the one before it
    let mut consumed_prev = Snapshot::new();
    let mut consumed = Snapshot::new();
    let mut published = 0usize; // deltas published since the subscription
    let mut observed = 0usize;
    let mut first_read = true;
    let mut missed_before_subscription = false;
    let mut every_observed_correct = true;
    let mut first_wrong: Option<String> = None;
    let mut pending_unconsumed = false;
    let mut skipped = false;

    for i in 0..=n {
        if i == case.subscribe_at && pending_unconsumed {
            // the previous snapshot was published without giving the node's publisher a chance to run;
            // subscribing and reading now would let it run: settle it first, so the model knows what the
            // publisher has consumed (the back-to-back class then simply does not apply to this snapshot)
            tokio::time::sleep(Duration::from_millis(1)).await;
            pending_unconsumed = false;
            consumed_prev = consumed.clone();
            consumed = case.snapshots[i - 1].clone();
            if stream.is_some() {
                published += 1;
            }
        }
        if i == case.subscribe_at {
            stream = Some(node.membership_changes());
            // anything that joined before this moment was announced before we listened
            missed_before_subscription = !consumed.is_empty() || i > 0;
            if case.read_at_subscribe {
                // a watch channel hands a new subscriber the most recent value: the change computed for the
                // last snapshot the publisher consumed (for a fresh node: its own start-up snapshot, which
                // has no other members)
                let st = stream.as_mut().unwrap();
                while let Ok(Some(delta)) = tokio::time::timeout(Duration::from_millis(1), st.next()).await {
                    first_read = false;
                    let (joined, left, dup) = delta_maps(&delta);
                    let (ej, el) = expected_delta(&consumed_prev, &consumed);
                    if (joined != ej || left != el || dup) && first_wrong.is_none() {
                        every_observed_correct = false;
                        first_wrong = Some(format!(
                            "right after subscribing before snapshot {i}: handed joined={:?} left={:?}, but the last membership change was {:?} -> {:?} (expected joined={:?} left={:?})",
                            joined, left, consumed_prev, consumed, ej, el
                        ));
                    }
                    for id in left.keys() {
                        held.remove(id);
                    }
                    for (id, a) in joined {
                        held.insert(id, a);
                    }
                }
            }
        }
        if i == n {
            break;
        }
        let snap = &case.snapshots[i];
        let mut members: Vec<ClusterMember> = snap.iter().map(|(id, v)| member(*id, *v)).collect();
        members.push(member(ME, 0));
        node.verif_set_members(members);
        let b2b = case.back_to_back[i] && i + 1 < n;
        if b2b {
            // no await: the publisher cannot observe this snapshot on its own
            pending_unconsumed = true;
            skipped = true;
            continue;
        }
        tokio::time::sleep(Duration::from_millis(1)).await;
        let _ = pending_unconsumed;
        pending_unconsumed = false;
        // the publisher has now consumed `snap` (and skipped any back-to-back predecessor)
        consumed_prev = consumed.clone();
        consumed = snap.clone();
        if stream.is_some() {
            published += 1;
        }

        let last = i + 1 == n;
        if let Some(st) = stream.as_mut() {
            if case.drain[i] || last {
                // read whatever is available now
                while let Ok(Some(delta)) = tokio::time::timeout(Duration::from_millis(1), st.next()).await {
                    observed += 1;
                    let (joined, left, dup) = delta_maps(&delta);
                    // a watch channel hands out the latest value: the delta computed for the last consumed snapshot
                    let (ej, el) = expected_delta(&consumed_prev, &consumed);
                    let stale_first = first_read && published == 0;
                    first_read = false;
                    if !stale_first && (joined != ej || left != el || dup) && first_wrong.is_none() {
                        every_observed_correct = false;
                        first_wrong = Some(format!(
                            "after snapshot {i}: handed joined={:?} left={:?}, but the membership went {:?} -> {:?} (expected joined={:?} left={:?})",
                            joined, left, consumed_prev, consumed, ej, el
                        ));
                    }
                    for id in left.keys() {
                        held.remove(id);
                    }
                    for (id, a) in joined {
                        held.insert(id, a);
                    }
                }
            }
        }
    }
    // final read for a subscriber that subscribed after the last snapshot
    if case.subscribe_at == n {
        if let Some(st) = stream.as_mut() {
            while let Ok(Some(delta)) = tokio::time::timeout(Duration::from_millis(1), st.next()).await {
                observed += 1;
                let (joined, left, _) = delta_maps(&delta);
                for id in left.keys() {
                    held.remove(id);
                }
                for (id, a) in joined {
                    held.insert(id, a);
                }
            }
        }
    }
    node.shutdown().await;

    if let Some(msg) = first_wrong {
        return Err(Fail { signature: "delta-wrong".into(), message: msg });
    }
    let expect: BTreeMap<u8, SocketAddr> = consumed.iter().map(|(id, v)| (*id, addr(*id, *v))).collect();
    let saw_everything = !missed_before_subscription && observed >= published && case.subscribe_at == 0;
    if held != expect {
        let msg = format!(
            "at quiescence the subscriber holds {:?} but the live other members are {:?} (subscribed before snapshot {}, observed {observed} of {published} published changes)",
            held, expect, case.subscribe_at
        );
        if every_observed_correct && !saw_everything {
            // deltas travel on a latest-value channel: a late or slow subscriber can never recover what it missed
            return Err(Fail { signature: "watch-latest-only".into(), message: msg });
        }
        return Err(Fail { signature: "sum-of-deltas-wrong".into(), message: msg });
    }

    let mut leave_or_change = false;
    let mut prev = Snapshot::new();
    for s in &case.snapshots {
        let (_, l) = expected_delta(&prev, s);
        if !l.is_empty() {
            leave_or_change = true;
        }
        prev = s.clone();
    }
    let mut labels = vec![];
    if saw_everything {
        labels.push("observed_every_delta");
    } else {
        labels.push("late_or_slow_subscriber");
    }
    if skipped {
        labels.push("publisher_skipped");
    }
    if leave_or_change {
        labels.push("leave_or_address_change");
    }
    Ok(Pass { nontrivial: leave_or_change, labels })
}

pub fn parts() -> Vec<Box<dyn DynPart>> {
    vec![Box::new(Gen::new(C16, 200_000, 5_000_000))]
}
