//! C16 — membership change events add up to the live membership.

use std::collections::BTreeMap;
use std::net::SocketAddr;
use std::time::Duration;

use datacake_node::{ClusterMember, ConnectionConfig, DCAwareSelector, DatacakeNodeBuilder, MembershipChange};
use futures::StreamExt;
use serde_json::{json, Value};

use crate::core::{Fail, Outcome, Pass, Prop, Src};
use crate::e3;
use crate::registry::{DynPart, Gen};


/// other members: id -> address variant (0 or 1: an id may come back with a different address)
pub type Snapshot = BTreeMap<u8, u8>;

#[derive(Debug, Clone)]
pub struct Case {
    pub snapshots: Vec<Snapshot>,
    /// inject snapshot i+1 without letting the publisher run in between (publisher skips snapshot i)
    pub back_to_back: Vec<bool>,
    /// the component subscribes just before snapshot `subscribe_at` is injected
    pub subscribe_at: usize,
    /// does the subscriber read after snapshot i
    pub drain: Vec<bool>,
    /// does the subscriber read right after subscribing (it is handed the most recent change)
    pub read_at_subscribe: bool,
    pub seed: u64,
    /// before snapshot i is published, this many callers ask the node for a replica selection at once (0 = none; the
    /// selector's request queue holds 100, so more than that keep the membership watcher waiting for the selector)
    pub busy: Vec<usize>,
    /// snapshot i+1 is published by a task of its own, spawned right after snapshot i was published, after this many
    /// yields: it lands while the node is still busy with snapshot i
    pub next_by_task: Vec<Option<usize>>,
    /// the observing node's own id: mostly 1, but also the smallest and the greatest id there is and one in the middle of the
    /// other members' ids (after the seeded change `C16q`, which only misbehaved on the node whose id is 255)
    pub me: u8,
}

pub struct C16;

thread_local! {
    /// the observing node's id while a case runs (address variant 4 is the observer's own address)
    static OBSERVER: std::cell::Cell<u8> = const { std::cell::Cell::new(1) };
}

fn addr(id: u8, variant: u8) -> SocketAddr {
    // variants 0 and 1 are addresses of the id's own; 2 and 3 come from a pool every id may use (a node that
    // restarts under a new id on the old address, two nodes swapping addresses); 4 is the address the observing node
    // itself advertises (an earlier incarnation of it that the membership layer still reports live under another id;
    // after the seeded change `C16r`)
    if variant == 4 {
        return ([10, 1, 0, OBSERVER.with(|c| c.get())], 7000).into();
    }
    if variant >= 2 {
        return ([10, 1, 9, variant], 7000).into();
    }
    ([10, 1, variant, id], 7000).into()
}

fn member(id: u8, variant: u8) -> ClusterMember {
    ClusterMember::new(id, addr(id, variant), format!("dc-{}", id % 2))
}

impl Prop for C16 {
    type Case = Case;

    fn id(&self) -> &'static str {
        "C16"
    }

    fn part(&self) -> &'static str {
        "membership-deltas"
    }

    fn width(&self) -> usize {
        200
    }

    fn shrink_budget(&self) -> usize {
        800
    }

    fn gen(&self, src: &mut Src) -> Case {
        let me = *src.pick(&[1u8, 1, 1, 0, 255, 4]);
        let n = 1 + src.below(10);
        let mut cur = Snapshot::new();
        let mut snapshots = vec![];
        for _ in 0..n {
            // mutate the previous snapshot: joins, leaves, address changes; one snapshot in six repeats the previous
            // one (the membership layer publishes whenever anything about any member changes, also about itself)
            let changes = if src.chance(1, 6) { 0 } else { 1 + src.below(3) };
            for _ in 0..changes {
                let id = 2 + src.below(5) as u8;
                let id = if id == me { 7 } else { id };
                match src.weighted(&[4, 3, 1]) {
                    0 => {
                        let v = *src.pick(&[0u8, 0, 0, 0, 1, 2, 2, 3, 4]);
                        cur.entry(id).or_insert(v);
                    },
                    1 => {
                        cur.remove(&id);
                    },
                    _ => {
                        let to = *src.pick(&[0u8, 1, 2, 2, 3, 4]);
                        if let Some(v) = cur.get_mut(&id) {
                            *v = if *v == to { (to + 1) % 5 } else { to };
                        } else {
                            cur.insert(id, to);
                        }
                    },
                }
            }
            snapshots.push(cur.clone());
        }
        let back_to_back = (0..n).map(|_| src.chance(1, 8)).collect();
        let subscribe_at = if src.chance(1, 2) { 0 } else { src.below(n + 1) };
        let drain_all = src.chance(1, 2);
        let drain = (0..n).map(|_| drain_all || src.chance(1, 2)).collect();
        let read_at_subscribe = src.chance(1, 2);
        let seed = src.word();
        let crowded = src.chance(1, 3);
        let busy: Vec<usize> = (0..n).map(|_| if crowded && src.chance(1, 2) { *src.pick(&[101usize, 99, 100, 130, 160, 250]) } else { 0 }).collect();
        let next_by_task = (0..n).map(|i| if (busy[i] > 0 && src.chance(2, 3)) || src.chance(1, 16) { Some(src.below(4)) } else { None }).collect();
        Case { snapshots, back_to_back, subscribe_at, drain, read_at_subscribe, seed, busy, next_by_task, me }
    }

    fn run(&self, case: &Case) -> Outcome {
        e3::sim(case.seed, 70_000_000, BTreeMap::new(), |_net| run(case))
    }

    fn describe(&self, case: &Case) -> Value {
        json!({
            "own_node_id": case.me,
            "snapshots_of_other_members(id->address variant)": case.snapshots,
            "published_back_to_back_with_next": case.back_to_back,
            "subscribe_before_snapshot": case.subscribe_at,
            "subscriber_reads_after_snapshot": case.drain,
            "subscriber_reads_right_after_subscribing": case.read_at_subscribe,
            "concurrent_selection_requests_before_snapshot": case.busy,
            "next_snapshot_published_by_a_task_after_yields": case.next_by_task,
        })
    }

    fn rule(&self) -> &'static str {
        "one real DatacakeNode (id 1, or 0, 255 or 4 in half of the cases); 1-10 membership snapshots over ids 2-6 (7 instead of the node's own) (joins, leaves, rejoins, address \
         changes, addresses of an id's own, from a pool of two that several ids may hold at once or one after the other, or the observing node's own address) published where chitchat would publish them (hook H-members), some back to back so the node's own \
         publisher skips one, some repeating the previous one, some published while 99-250 callers keep the node's selector busy (its request queue holds 100)          and followed at once by the next snapshot from a task of its own (it lands while the node is still working on the previous one); a component subscribes via membership_changes() at a generated moment and reads after a \
         generated subset of the snapshots, always reading once more at the end; it applies each change like the \
         replication services do (remove `left` ids, then insert `joined`); oracle 1: each non-empty delta it is handed equals \
         the difference between two of the snapshots published so far (in order: not before the position the previous delta led to), \
         `left` carrying the OLD address, no node named twice; \
         oracle 2: at the end it holds exactly the other members of the final snapshot - a violation for a subscriber that subscribed \
         first and read after every single snapshot, the recorded finding `watch-latest-only` for one that subscribed late or let another \
         snapshot follow a membership-changing one between two reads (only then can an event have been overwritten); non-trivial = >=1 leave or \
         address change"
    }
}

fn expected_delta(prev: &Snapshot, new: &Snapshot) -> (BTreeMap<u8, SocketAddr>, BTreeMap<u8, SocketAddr>) {
    let mut joined = BTreeMap::new();
    let mut left = BTreeMap::new();
    for (id, v) in new {
        if prev.get(id) != Some(v) {
            joined.insert(*id, addr(*id, *v));
        }
    }
    for (id, v) in prev {
        if new.get(id) != Some(v) {
            left.insert(*id, addr(*id, *v));
        }
    }
    (joined, left)
}

fn delta_maps(d: &MembershipChange) -> (BTreeMap<u8, SocketAddr>, BTreeMap<u8, SocketAddr>, bool) {
    let mut dup = false;
    let mut joined = BTreeMap::new();
    let mut left = BTreeMap::new();
    for m in &d.joined {
        dup |= joined.insert(m.node_id, m.public_addr).is_some();
    }
    for m in &d.left {
        dup |= left.insert(m.node_id, m.public_addr).is_some();
    }
    (joined, left, dup)
}

/// What the subscriber knows and what it was handed, judged without a model of HOW the node turns snapshots into
/// change events (whether it emits an empty event for a snapshot that changes nothing, whether it coalesces snapshots
/// published back to back): the statement only speaks about what a subscriber holds at quiescence and about every
/// departure being reported with the address the node had.
struct Subscriber<'a> {
    case: &'a Case,
    held: BTreeMap<u8, SocketAddr>,
    /// index of the last snapshot handed to the membership layer so far (-1: none)
    published: isize,
    /// lower bound of the position in the snapshot sequence the last non-empty event led to
    chain: isize,
    /// snapshots published since the subscriber last read (or subscribed)
    unread: usize,
    /// a snapshot that changed the membership was published since the subscriber last read
    unread_change: bool,
    /// ... and another snapshot was published after it: the event of the former may have been overwritten
    overwritable: bool,
    /// the schedule alone allows that an event was overwritten before the subscriber read it
    may_have_missed: bool,
    first_wrong: Option<String>,
}

impl<'a> Subscriber<'a> {
    fn snap(&self, i: isize) -> Snapshot {
        if i < 0 {
            Snapshot::new()
        } else {
            self.case.snapshots[i as usize].clone()
        }
    }

    fn begin_read(&mut self) {
        // Events travel on a latest-value channel. An event can only have been replaced before this read if a snapshot
        // that changed the membership was followed by another snapshot (changing or not: the node may publish an
        // empty event for it). Snapshots that repeat their predecessor produce no event worth keeping.
        if self.overwritable {
            self.may_have_missed = true;
        }
        self.unread = 0;
        self.unread_change = false;
        self.overwritable = false;
    }

    /// bookkeeping for snapshot `i` being handed to the membership layer
    fn publish(&mut self, i: usize, subscribed: bool) {
        let changing = self.snap(i as isize - 1) != self.snap(i as isize);
        self.published = i as isize;
        if subscribed {
            self.unread += 1;
            if self.unread_change {
                self.overwritable = true;
            }
            if changing {
                self.unread_change = true;
            }
        }
    }

    fn handed(&mut self, delta: &MembershipChange, when: &str) {
        let (joined, left, dup) = delta_maps(delta);
        if dup && self.first_wrong.is_none() {
            self.first_wrong = Some(format!("{when}: handed an event that names a node twice: joined={:?} left={:?}", delta.joined, delta.left));
        }
        if !(joined.is_empty() && left.is_empty()) {
            // the event must be the difference between two snapshots a < b published so far, not before the
            // position the previous event led to (events are handed over in order)
            let mut best: Option<isize> = None;
            for a in self.chain.max(-1)..self.published {
                for b in (a + 1)..=self.published {
                    if expected_delta(&self.snap(a), &self.snap(b)) == (joined.clone(), left.clone()) {
                        best = Some(best.map_or(b, |x: isize| x.min(b)));
                    }
                }
            }
            match best {
                Some(b) => self.chain = b,
                None => {
                    if self.first_wrong.is_none() {
                        let seq: Vec<Snapshot> = (-1..=self.published).map(|i| self.snap(i)).collect();
                        self.first_wrong = Some(format!(
                            "{when}: handed joined={:?} left={:?}, which is not the difference between any two of the snapshots published so far (from position {} on): {:?}",
                            joined, left, self.chain, seq
                        ));
                    }
                },
            }
        }
        for id in left.keys() {
            self.held.remove(id);
        }
        for (id, a) in joined {
            self.held.insert(id, a);
        }
    }
}

async fn run(case: &Case) -> Outcome {
    let me = case.me;
    OBSERVER.with(|c| c.set(me));
    let a = addr(me, 0);
    let cfg = ConnectionConfig::new(a, a, Vec::<String>::new());
    let node = std::sync::Arc::new(DatacakeNodeBuilder::<DCAwareSelector>::new(me, cfg).connect().await.expect("connect"));
    tokio::time::sleep(Duration::from_millis(10)).await;
    let members_of = |snap: &Snapshot| -> Vec<ClusterMember> {
        let mut members: Vec<ClusterMember> = snap.iter().map(|(id, v)| member(*id, *v)).collect();
        members.push(member(me, 0));
        members
    };
    let mut tasks = vec![];
    let mut published_by_task = false;
    let mut crowded = false;
    let mut by_task = false;

    let n = case.snapshots.len();
    let mut stream = None;
    let mut sub = Subscriber { case, held: BTreeMap::new(), published: -1, chain: -1, unread: 0, unread_change: false, overwritable: false, may_have_missed: case.subscribe_at > 0, first_wrong: None };
    let mut observed = 0usize;
    let mut pending_unconsumed = false;
    let mut skipped = false;

    for i in 0..=n {
        if i == case.subscribe_at && pending_unconsumed {
            // the previous snapshot was published without giving the node's publisher a chance to run: let it
            tokio::time::sleep(Duration::from_millis(1)).await;
            pending_unconsumed = false;
        }
        if i == case.subscribe_at {
            stream = Some(node.membership_changes());
            sub.unread = 0;
            sub.unread_change = false;
            sub.overwritable = false;
            if case.read_at_subscribe {
                // a new subscriber may be handed the most recent event at once
                let st = stream.as_mut().unwrap();
                sub.begin_read();
                while let Ok(Some(delta)) = tokio::time::timeout(Duration::from_millis(1), st.next()).await {
                    observed += 1;
                    sub.handed(&delta, &format!("right after subscribing before snapshot {i}"));
                }
            }
        }
        if i == n {
            break;
        }
        if !published_by_task {
            // callers that keep the selector busy: each asks for a selection; they are queued ahead of everything
            // the snapshot sets in motion
            if case.busy[i] > 0 {
                crowded = true;
                let h = node.handle();
                for _ in 0..case.busy[i] {
                    let h = h.clone();
                    tasks.push(tokio::spawn(async move {
                        let _ = h.select_nodes(datacake_node::Consistency::One).await;
                    }));
                }
            }
            node.verif_set_members(members_of(&case.snapshots[i]));
            sub.publish(i, stream.is_some());
        }
        published_by_task = false;
        // the next snapshot arrives from a task of its own while the node is busy with this one; the subscriber
        // cannot read in between (it would be the subscription point otherwise)
        if let (Some(yields), true) = (case.next_by_task[i], i + 1 < n && i + 1 != case.subscribe_at) {
            by_task = true;
            let node2 = node.clone();
            let members = members_of(&case.snapshots[i + 1]);
            tasks.push(tokio::spawn(async move {
                for _ in 0..yields {
                    tokio::task::yield_now().await;
                }
                node2.verif_set_members(members);
            }));
            sub.publish(i + 1, stream.is_some());
            published_by_task = true;
            // settle: everything the two snapshots set in motion runs before the harness goes on
            tokio::time::sleep(Duration::from_millis(1)).await;
            pending_unconsumed = false;
            continue;
        }
        let b2b = case.back_to_back[i] && i + 1 < n;
        if b2b {
            // no await: the node's publisher cannot observe this snapshot on its own
            pending_unconsumed = true;
            skipped = true;
            continue;
        }
        tokio::time::sleep(Duration::from_millis(1)).await;
        pending_unconsumed = false;

        let last = i + 1 == n;
        if let Some(st) = stream.as_mut() {
            if case.drain[i] || last {
                sub.begin_read();
                while let Ok(Some(delta)) = tokio::time::timeout(Duration::from_millis(1), st.next()).await {
                    observed += 1;
                    sub.handed(&delta, &format!("after snapshot {i}"));
                }
            }
        }
    }
    // final read for a subscriber that subscribed after the last snapshot
    if case.subscribe_at == n {
        if let Some(st) = stream.as_mut() {
            sub.begin_read();
            while let Ok(Some(delta)) = tokio::time::timeout(Duration::from_millis(1), st.next()).await {
                observed += 1;
                sub.handed(&delta, "after the last snapshot");
            }
        }
    }
    for t in tasks {
        let _ = t.await;
    }
    match std::sync::Arc::try_unwrap(node) {
        Ok(node) => node.shutdown().await,
        Err(_) => return Err(Fail { signature: "harness".into(), message: "a task still holds the node".into() }),
    }

    if let Some(msg) = sub.first_wrong.take() {
        return Err(Fail { signature: "delta-wrong".into(), message: msg });
    }
    let expect: BTreeMap<u8, SocketAddr> = case.snapshots[n - 1].iter().map(|(id, v)| (*id, addr(*id, *v))).collect();
    let saw_everything = !sub.may_have_missed;
    if sub.held != expect {
        let msg = format!(
            "at quiescence the subscriber holds {:?} but the live other members are {:?} (subscribed before snapshot {}, was handed {observed} events; {})",
            sub.held,
            expect,
            case.subscribe_at,
            if saw_everything { "it subscribed first and no event it could be handed was ever replaced before it read" } else { "it subscribed late or let another snapshot follow a membership-changing one between two reads" }
        );
        if !saw_everything {
            // deltas travel on a latest-value channel: a late or slow subscriber can never recover what it missed
            return Err(Fail { signature: "watch-latest-only".into(), message: msg });
        }
        return Err(Fail { signature: "sum-of-deltas-wrong".into(), message: msg });
    }

    let mut leave_or_change = false;
    let mut prev = Snapshot::new();
    for s in &case.snapshots {
        let (_, l) = expected_delta(&prev, s);
        if !l.is_empty() {
            leave_or_change = true;
        }
        prev = s.clone();
    }
    let mut labels = vec![];
    if saw_everything {
        labels.push("observed_every_delta");
    } else {
        labels.push("late_or_slow_subscriber");
    }
    if skipped {
        labels.push("publisher_skipped");
    }
    if crowded {
        labels.push("snapshot_while_the_selector_is_crowded");
    }
    if by_task {
        labels.push("snapshot_landing_while_the_previous_one_is_processed");
    }
    if leave_or_change {
        labels.push("leave_or_address_change");
    }
    if case.me != 1 {
        labels.push(match case.me { 0 => "own_id_0", 255 => "own_id_255", _ => "own_id_between_the_others" });
    }
    if case.snapshots.iter().any(|s| s.values().any(|v| *v == 4)) {
        labels.push("a_member_on_the_observers_own_address");
    }
    Ok(Pass { nontrivial: leave_or_change, labels })
}

/// Exhaustive to a length bound (the statement's quantifier): every sequence of 1-4 (thorough: 5) snapshots over two other
/// members, each absent, on its own address or on an address both may hold; every subscription point; every placement of the
/// subscriber's reads; reading right after subscribing or not. Words: [n, state x n, subscribe_at, drain bits, read at once].
pub struct C16Small;

fn small_state(w: u64) -> Snapshot {
    // base-3 digits: member 2, member 3; 0 = absent, 1 = own address (variant 0), 2 = shared address (variant 2)
    let mut snap = Snapshot::new();
    for (i, id) in [2u8, 3].iter().enumerate() {
        match (w / 3u64.pow(i as u32)) % 3 {
            0 => {},
            1 => {
                snap.insert(*id, 0);
            },
            _ => {
                snap.insert(*id, 2);
            },
        }
    }
    snap
}

fn small_space_len(max_n: u64) -> Vec<Vec<u64>> {
    let mut out = vec![];
    for n in 1..=max_n {
        for seq in 0..9u64.pow(n as u32) {
            for sub in 0..=n {
                for drain in 0..(1u64 << n) {
                    for at_once in 0..2u64 {
                        let mut w = vec![n];
                        for i in 0..n {
                            w.push((seq / 9u64.pow(i as u32)) % 9);
                        }
                        w.extend([sub, drain, at_once]);
                        out.push(w);
                    }
                }
            }
        }
    }
    out
}

pub fn small_space() -> Vec<Vec<u64>> {
    small_space_len(4)
}

pub fn small_space_thorough() -> Vec<Vec<u64>> {
    small_space_len(5)
}

impl Prop for C16Small {
    type Case = Case;

    fn id(&self) -> &'static str {
        "C16"
    }

    fn part(&self) -> &'static str {
        "small-scope-sequences"
    }

    fn width(&self) -> usize {
        8
    }

    fn shrink_budget(&self) -> usize {
        200
    }

    fn gen(&self, src: &mut Src) -> Case {
        let n = src.word().clamp(1, 5) as usize;
        let snapshots: Vec<Snapshot> = (0..n).map(|_| small_state(src.word())).collect();
        let subscribe_at = (src.word() as usize).min(n);
        let bits = src.word();
        let drain = (0..n).map(|i| (bits >> i) & 1 == 1).collect();
        let read_at_subscribe = src.word() & 1 == 1;
        Case {
            snapshots,
            back_to_back: vec![false; n],
            subscribe_at,
            drain,
            read_at_subscribe,
            seed: 1,
            busy: vec![0; n],
            next_by_task: vec![None; n],
            me: 1,
        }
    }

    fn run(&self, case: &Case) -> Outcome {
        C16.run(case)
    }

    fn describe(&self, case: &Case) -> Value {
        C16.describe(case)
    }

    fn rule(&self) -> &'static str {
        "exhaustive to a length bound: every sequence of 1-4 (thorough: 1-5) membership snapshots over two other members, each absent, \
         on an address of its own or on an address both may hold (joins, leaves, rejoins, address changes, one id replacing the other on \
         the same address, repeated snapshots), every subscription point, every placement of the subscriber's reads between snapshots, \
         with and without a read right after subscribing; same oracle as membership-deltas"
    }
}

pub fn parts() -> Vec<Box<dyn DynPart>> {
    vec![
        Box::new(Gen::new(C16, 200_000, 5_000_000)),
        Box::new(Gen::listed2(C16Small, small_space, small_space_thorough)),
    ]
}
