//! Shared machinery: choice-sequence source, sharded seeded driver, shrinker,
//! evidence / replay writers, known-findings handling.
//!
//! Every case of every property is a pure function of a `Vec<u64>` ("choice sequence").
//! The sequences are produced by proptest (`vec(any::<u64>(), N)` on a seeded `TestRunner`),
//! the property's `gen` decodes a sequence into a structured case (monotone: smaller numbers
//! decode to simpler cases, an exhausted sequence yields zeros), and `run` evaluates the
//! oracle. A failing sequence is shrunk (chunk deletion, zeroing, per-element binary search),
//! written as a replay file, and can be re-executed without proptest by `vp replay`.

use std::collections::{BTreeMap, HashSet};
use std::hash::{Hash, Hasher};
use std::sync::atomic::{AtomicBool, AtomicU64, Ordering};
use std::sync::{Arc, Mutex};
use std::time::Instant;

use proptest::strategy::{Strategy, ValueTree};
use proptest::test_runner::{Config, RngAlgorithm, TestRng, TestRunner};
use serde_json::{json, Value};

/// Root of the verification tree: /verif, or the directory `./check` was started from (snapshot runs).
pub fn verif_dir() -> String {
    std::env::var("VP_ROOT").unwrap_or_else(|_| "/verif".to_string())
}

// ---------------------------------------------------------------------------------------
// choice source

pub struct Src<'a> {
    data: &'a [u64],
    pos: usize,
}

impl<'a> Src<'a> {
    pub fn new(data: &'a [u64]) -> Self {
        Self { data, pos: 0 }
    }

    /// Raw next word, 0 once the sequence is exhausted.
    pub fn word(&mut self) -> u64 {
        let v = self.data.get(self.pos).copied().unwrap_or(0);
        self.pos += 1;
        v
    }

    /// Uniform in `0..n`, monotone in the underlying word (so shrinking moves towards 0).
    pub fn below(&mut self, n: usize) -> usize {
        if n <= 1 {
            self.word();
            return 0;
        }
        ((self.word() as u128 * n as u128) >> 64) as usize
    }

    pub fn below64(&mut self, n: u64) -> u64 {
        if n <= 1 {
            self.word();
            return 0;
        }
        ((self.word() as u128 * n as u128) >> 64) as u64
    }

    /// Inclusive range.
    pub fn range(&mut self, lo: u64, hi: u64) -> u64 {
        debug_assert!(lo <= hi);
        if hi - lo == u64::MAX {
            return self.word();
        }
        lo + self.below64(hi - lo + 1)
    }

    /// true with probability num/den; false is the "simple" value.
    pub fn chance(&mut self, num: u64, den: u64) -> bool {
        self.below64(den) >= den - num
    }

    pub fn pick<'b, T>(&mut self, items: &'b [T]) -> &'b T {
        &items[self.below(items.len())]
    }

    /// Weighted choice: returns index; index 0 is the simplest.
    pub fn weighted(&mut self, weights: &[u32]) -> usize {
        let total: u64 = weights.iter().map(|w| *w as u64).sum();
        let mut x = self.below64(total);
        for (i, w) in weights.iter().enumerate() {
            if x < *w as u64 {
                return i;
            }
            x -= *w as u64;
        }
        weights.len() - 1
    }

    pub fn bytes(&mut self, len: usize) -> Vec<u8> {
        let mut out = Vec::with_capacity(len);
        let mut w = 0u64;
        for i in 0..len {
            if i % 8 == 0 {
                w = self.word();
            }
            out.push((w >> ((i % 8) * 8)) as u8);
        }
        out
    }

    /// A permutation of 0..n (Fisher-Yates driven by the source; zeros = identity).
    pub fn permutation(&mut self, n: usize) -> Vec<usize> {
        let mut p: Vec<usize> = (0..n).collect();
        for i in 0..n.saturating_sub(1) {
            let j = i + self.below(n - i);
            p.swap(i, j);
        }
        p
    }

    pub fn used(&self) -> usize {
        self.pos
    }
}

// ---------------------------------------------------------------------------------------
// outcomes

#[derive(Debug, Clone)]
pub struct Pass {
    /// non-trivial by the property's stated rule
    pub nontrivial: bool,
    /// class labels for the histogram
    pub labels: Vec<&'static str>,
}

#[derive(Debug, Clone)]
pub struct Fail {
    /// stable signature of the failure *class* (used for known findings)
    pub signature: String,
    pub message: String,
}

pub type Outcome = Result<Pass, Fail>;

pub fn fail<T>(signature: &str, message: String) -> Result<T, Fail> {
    Err(Fail { signature: signature.to_string(), message })
}

#[macro_export]
macro_rules! ensure {
    ($cond:expr, $sig:expr, $($arg:tt)*) => {
        if !($cond) {
            return Err($crate::core::Fail { signature: $sig.to_string(), message: format!($($arg)*) });
        }
    };
}

pub trait Prop: Sync {
    type Case: Send;
    fn id(&self) -> &'static str;
    /// short name of this sub-check (one property may have several)
    fn part(&self) -> &'static str;
    /// how many choice words one case may consume
    fn width(&self) -> usize;
    fn gen(&self, src: &mut Src) -> Self::Case;
    fn run(&self, case: &Self::Case) -> Outcome;
    fn describe(&self, case: &Self::Case) -> Value;
    fn rule(&self) -> &'static str;
    /// cap on shrink re-executions (expensive properties lower it)
    fn shrink_budget(&self) -> usize {
        4000
    }
    /// Parts that drive `unsafe` code (or whole node stacks) leave a breadcrumb of the running case in
    /// /dev/shm, so that a case which kills the process (abort, segfault) can be identified and
    /// reported as a violation by the supervising parent process.
    fn breadcrumbs(&self) -> bool {
        false
    }
    /// Run the shards of this part in separate single-threaded child processes instead of threads
    /// (for code under test whose native library keeps per-process / per-thread global state).
    fn process_isolated(&self) -> bool {
        false
    }
}

pub struct Crumb {
    file: Option<std::fs::File>,
}

impl Crumb {
    pub fn open(part: &str, shard: u64, enabled: bool) -> Self {
        let file = if enabled {
            std::env::var("VP_CRUMBS").ok().and_then(|dir| {
                std::fs::OpenOptions::new().create(true).write(true).open(format!("{dir}/{part}-{shard}")).ok()
            })
        } else {
            None
        };
        Crumb { file }
    }

    pub fn note(&self, choices: &[u64]) {
        use std::os::unix::fs::FileExt;
        if let Some(f) = &self.file {
            let mut buf = Vec::with_capacity(8 + choices.len() * 8);
            buf.extend_from_slice(&(choices.len() as u64).to_le_bytes());
            for c in choices {
                buf.extend_from_slice(&c.to_le_bytes());
            }
            let _ = f.write_at(&buf, 0);
        }
    }

    pub fn read(path: &str) -> Option<Vec<u64>> {
        let b = std::fs::read(path).ok()?;
        if b.len() < 8 {
            return None;
        }
        let n = u64::from_le_bytes(b[0..8].try_into().ok()?) as usize;
        if b.len() < 8 + n * 8 {
            return None;
        }
        Some((0..n).map(|i| u64::from_le_bytes(b[8 + i * 8..16 + i * 8].try_into().unwrap())).collect())
    }
}

// ---------------------------------------------------------------------------------------
// known findings

#[derive(Debug, Clone)]
pub struct KnownFinding {
    pub property: String,
    pub signature: String,
    pub what: String,
}

pub fn load_known_findings() -> Vec<KnownFinding> {
    let path = format!("{}/known_findings.json", verif_dir());
    let Ok(text) = std::fs::read_to_string(&path) else { return vec![] };
    let v: Value = serde_json::from_str(&text).expect("known_findings.json must be valid JSON");
    let mut out = vec![];
    if let Some(list) = v.get("findings").and_then(|f| f.as_array()) {
        for f in list {
            out.push(KnownFinding {
                property: f["property"].as_str().unwrap_or("").to_string(),
                signature: f["signature"].as_str().unwrap_or("").to_string(),
                what: f["what"].as_str().unwrap_or("").to_string(),
            });
        }
    }
    out
}

// ---------------------------------------------------------------------------------------
// statistics

#[derive(Default)]
pub struct Stats {
    pub evaluations: u64,
    pub nontrivial: u64,
    pub distinct_nontrivial: HashSet<u64>,
    pub labels: BTreeMap<&'static str, u64>,
    pub excluded_known: BTreeMap<String, u64>,
    pub samples: Vec<Value>,
}

impl Stats {
    pub fn merge(&mut self, other: Stats) {
        self.evaluations += other.evaluations;
        self.nontrivial += other.nontrivial;
        self.distinct_nontrivial.extend(other.distinct_nontrivial);
        for (k, v) in other.labels {
            *self.labels.entry(k).or_default() += v;
        }
        for (k, v) in other.excluded_known {
            *self.excluded_known.entry(k).or_default() += v;
        }
        for s in other.samples {
            if self.samples.len() < 4 {
                self.samples.push(s);
            }
        }
    }
}

pub fn hash_words(words: &[u64]) -> u64 {
    let mut h = std::collections::hash_map::DefaultHasher::new();
    words.hash(&mut h);
    h.finish()
}

pub fn hash_str(s: &str) -> u64 {
    let mut h = std::collections::hash_map::DefaultHasher::new();
    s.hash(&mut h);
    h.finish()
}

pub fn splitmix64(mut x: u64) -> u64 {
    x = x.wrapping_add(0x9E3779B97F4A7C15);
    let mut z = x;
    z = (z ^ (z >> 30)).wrapping_mul(0xBF58476D1CE4E5B9);
    z = (z ^ (z >> 27)).wrapping_mul(0x94D049BB133111EB);
    z ^ (z >> 31)
}

pub fn derive_seed(seed: u64, id: &str, part: &str, tier: &str, shard: u64) -> u64 {
    let mut s = splitmix64(seed ^ 0xD1B54A32D192ED03);
    s = splitmix64(s ^ hash_str(id));
    s = splitmix64(s ^ hash_str(part));
    s = splitmix64(s ^ hash_str(tier));
    splitmix64(s ^ shard)
}

fn runner_for(seed: u64) -> TestRunner {
    let mut bytes = [0u8; 32];
    let mut s = seed;
    for chunk in bytes.chunks_mut(8) {
        s = splitmix64(s);
        chunk.copy_from_slice(&s.to_le_bytes());
    }
    let rng = TestRng::from_seed(RngAlgorithm::ChaCha, &bytes);
    let config = Config { failure_persistence: None, ..Config::default() };
    TestRunner::new_with_rng(config, rng)
}

// ---------------------------------------------------------------------------------------
// failures

#[derive(Debug, Clone)]
pub struct Failure {
    pub property: String,
    pub part: String,
    pub choices: Vec<u64>,
    pub signature: String,
    pub message: String,
    pub case: Value,
    pub shrink_runs: usize,
}

/// Outcome of running one sub-check.
pub struct PartResult {
    pub part: &'static str,
    pub rule: &'static str,
    pub stats: Stats,
    pub failure: Option<Failure>,
    pub known_hits: Vec<KnownFinding>,
    pub exhaustive: bool,
}

fn panic_text(p: Box<dyn std::any::Any + Send>) -> String {
    if let Some(s) = p.downcast_ref::<String>() {
        s.clone()
    } else if let Some(s) = p.downcast_ref::<&str>() {
        s.to_string()
    } else {
        "panic".to_string()
    }
}

fn run_guarded<P: Prop>(prop: &P, choices: &[u64]) -> (Outcome, Option<P::Case>) {
    let case = match std::panic::catch_unwind(std::panic::AssertUnwindSafe(|| {
        let mut src = Src::new(choices);
        prop.gen(&mut src)
    })) {
        Ok(c) => c,
        Err(p) => {
            // a panic while decoding a case is a harness error, never a property violation
            eprintln!("HARNESS ERROR: generator of {}/{} panicked: {}", prop.id(), prop.part(), panic_text(p));
            std::process::exit(2);
        },
    };
    let res = std::panic::catch_unwind(std::panic::AssertUnwindSafe(|| prop.run(&case)));
    match res {
        Ok(out) => (out, Some(case)),
        Err(p) => (
            Err(Fail { signature: "panic".into(), message: format!("panicked: {}", panic_text(p)) }),
            Some(case),
        ),
    }
}

fn known_match<'a>(known: &'a [KnownFinding], id: &str, sig: &str) -> Option<&'a KnownFinding> {
    known.iter().find(|k| k.property == id && k.signature == sig)
}

/// Shrinks a failing choice sequence. Accepts a candidate only if it still fails with the
/// same signature (so a known finding can never be shrunk into a different failure, nor the
/// reverse).
fn shrink<P: Prop>(prop: &P, mut best: Vec<u64>, signature: &str) -> (Vec<u64>, usize) {
    let budget = prop.shrink_budget();
    let mut runs = 0usize;
    let mut still_fails = |cand: &[u64], runs: &mut usize| -> bool {
        *runs += 1;
        match run_guarded(prop, cand).0 {
            Err(f) => f.signature == signature,
            Ok(_) => false,
        }
    };
    // trim trailing zeros (semantically identical)
    while best.last() == Some(&0) {
        best.pop();
    }
    let mut progress = true;
    while progress && runs < budget {
        progress = false;
        // pass 1: delete chunks
        for size in [32usize, 16, 8, 4, 2, 1] {
            let mut i = 0;
            while i + size <= best.len() && runs < budget {
                let mut cand = best.clone();
                cand.drain(i..i + size);
                if still_fails(&cand, &mut runs) {
                    best = cand;
                    progress = true;
                } else {
                    i += size;
                }
            }
        }
        // pass 2: zero chunks / elements
        for size in [8usize, 4, 2, 1] {
            let mut i = 0;
            while i + size <= best.len() && runs < budget {
                if best[i..i + size].iter().all(|v| *v == 0) {
                    i += size;
                    continue;
                }
                let mut cand = best.clone();
                for v in &mut cand[i..i + size] {
                    *v = 0;
                }
                if still_fails(&cand, &mut runs) {
                    best = cand;
                    progress = true;
                }
                i += size;
            }
        }
        // pass 3: binary search each element downwards
        for i in 0..best.len() {
            if best[i] == 0 || runs >= budget {
                continue;
            }
            let mut lo = 0u64; // known not failing (or untested lower bound)
            let mut hi = best[i]; // known failing
            let mut steps = 0;
            while lo < hi && steps < 16 && runs < budget {
                let mid = lo + (hi - lo) / 2;
                let mut cand = best.clone();
                cand[i] = mid;
                if still_fails(&cand, &mut runs) {
                    hi = mid;
                    progress = true;
                } else {
                    lo = mid + 1;
                }
                steps += 1;
            }
            best[i] = hi;
        }
        while best.last() == Some(&0) {
            best.pop();
        }
    }
    (best, runs)
}

pub struct RunCfg {
    pub seed: u64,
    pub tier: String,
    pub threads: usize,
}

/// Runs `cases` generated cases of `prop`, sharded over threads.
pub fn run_generated<P: Prop>(prop: &P, cfg: &RunCfg, cases: u64, known: &[KnownFinding]) -> PartResult {
    if prop.process_isolated() && std::env::var("VP_SHARD").is_err() {
        return run_in_child_processes(prop, cfg, cases, known);
    }
    let threads = cfg.threads.max(1) as u64;
    // inside a shard child: run exactly one shard of `VP_SHARD=<i>/<n>` on this thread
    let (shard_lo, shard_hi, threads) = match std::env::var("VP_SHARD").ok().filter(|_| prop.process_isolated()) {
        Some(v) => {
            let (i, n) = v.split_once('/').expect("VP_SHARD=i/n");
            let (i, n): (u64, u64) = (i.parse().unwrap(), n.parse().unwrap());
            (i, i + 1, n)
        },
        None => (0, threads, threads),
    };
    let stop = AtomicBool::new(false);
    let first_fail: Mutex<Option<(Vec<u64>, Fail)>> = Mutex::new(None);
    let total = Mutex::new(Stats::default());
    let known_hits: Mutex<BTreeMap<String, KnownFinding>> = Mutex::new(BTreeMap::new());
    let counter = AtomicU64::new(0);

    std::thread::scope(|scope| {
        for shard in shard_lo..shard_hi {
            let stop = &stop;
            let first_fail = &first_fail;
            let total = &total;
            let known_hits = &known_hits;
            let counter = &counter;
            let cfg = &*cfg;
            scope.spawn(move || {
                let seed = derive_seed(cfg.seed, prop.id(), prop.part(), &cfg.tier, shard);
                let mut runner = runner_for(seed);
                let strat = proptest::collection::vec(proptest::num::u64::ANY, prop.width());
                let mut stats = Stats::default();
                let mut done = 0u64;
                let crumb = Crumb::open(prop.part(), shard, prop.breadcrumbs());
                loop {
                    if stop.load(Ordering::Relaxed) {
                        break;
                    }
                    // static assignment: shard i runs cases i, i+T, i+2T, ... (reproducible counts)
                    if shard + done * threads >= cases {
                        break;
                    }
                    done += 1;
                    counter.fetch_add(1, Ordering::Relaxed);
                    let choices: Vec<u64> = strat
                        .new_tree(&mut runner)
                        .expect("generation cannot fail")
                        .current();
                    crumb.note(&choices);
                    let (out, case) = run_guarded(prop, &choices);
                    if std::env::var("VP_TRACE").is_ok() {
                        eprintln!("TRACE shard {shard} choices {:?} -> {:?}", &choices, out.as_ref().map(|p| p.labels.clone()).map_err(|f| f.signature.clone()));
                    }
                    stats.evaluations += 1;
                    match out {
                        Ok(pass) => {
                            for l in &pass.labels {
                                *stats.labels.entry(l).or_default() += 1;
                            }
                            if pass.nontrivial {
                                stats.nontrivial += 1;
                                stats.distinct_nontrivial.insert(hash_words(&choices));
                                if stats.samples.len() < 2 {
                                    if let Some(c) = &case {
                                        stats.samples.push(prop.describe(c));
                                    }
                                }
                            }
                        },
                        Err(f) => {
                            if let Some(k) = known_match(known, prop.id(), &f.signature) {
                                *stats.excluded_known.entry(k.signature.clone()).or_default() += 1;
                                known_hits
                                    .lock()
                                    .unwrap()
                                    .entry(k.signature.clone())
                                    .or_insert_with(|| k.clone());
                            } else {
                                let mut g = first_fail.lock().unwrap();
                                if g.is_none() {
                                    *g = Some((choices, f));
                                }
                                stop.store(true, Ordering::Relaxed);
                                break;
                            }
                        },
                    }
                }
                total.lock().unwrap().merge(stats);
            });
        }
    });

    let stats = total.into_inner().unwrap();
    let failure = first_fail.into_inner().unwrap().map(|(choices, f)| {
        let (min, runs) = shrink(prop, choices, &f.signature);
        finalize_failure(prop, min, f, runs)
    });
    PartResult {
        part: prop.part(),
        rule: prop.rule(),
        stats,
        failure,
        known_hits: known_hits.into_inner().unwrap().into_values().collect(),
        exhaustive: false,
    }
}

fn finalize_failure<P: Prop>(prop: &P, choices: Vec<u64>, orig: Fail, runs: usize) -> Failure {
    let (out, case) = run_guarded(prop, &choices);
    let f = match out {
        Err(f) => f,
        Ok(_) => orig, // cannot happen: shrink only accepts failing candidates
    };
    Failure {
        property: prop.id().to_string(),
        part: prop.part().to_string(),
        case: case.map(|c| prop.describe(&c)).unwrap_or(Value::Null),
        choices,
        signature: f.signature,
        message: f.message,
        shrink_runs: runs,
    }
}

/// Shrinks a failing case that was found outside `run_generated` (the coverage-guided engine of /verif/fuzz) and
/// turns it into a `Failure` exactly as a generated run would.
pub fn shrink_failure<P: Prop>(prop: &P, choices: Vec<u64>, f: Fail) -> Failure {
    let (min, runs) = shrink(prop, choices, &f.signature);
    finalize_failure(prop, min, f, runs)
}

/// Writes the replay file of a failure and returns its path (same format as `Report::finish`).
pub fn write_replay(f: &Failure, seed: u64, tier: &str, engine: &str) -> String {
    let h = hash_words(&f.choices);
    let dir = format!("{}/replays", verif_dir());
    let _ = std::fs::create_dir_all(&dir);
    let path = format!("{dir}/{}-{}-{:016x}.json", f.property, f.part, h);
    let body = json!({
        "property": f.property, "part": f.part, "signature": f.signature, "message": f.message,
        "choices": f.choices, "case": f.case, "shrink_runs": f.shrink_runs, "seed": seed, "tier": tier,
        "found_by": engine,
    });
    std::fs::write(&path, serde_json::to_string_pretty(&body).unwrap()).expect("write replay");
    path
}

/// `n` choice sequences exactly as `run_generated` draws them (seed corpus of the coverage-guided engine).
pub fn generated_choices(width: usize, seed: u64, n: usize) -> Vec<Vec<u64>> {
    let mut runner = runner_for(seed);
    let strat = proptest::collection::vec(proptest::num::u64::ANY, width);
    (0..n).map(|_| strat.new_tree(&mut runner).expect("generation cannot fail").current()).collect()
}

/// Runs an explicit list of choice sequences (used by exhaustive enumerators and corpus
/// replays); `exhaustive` is what the caller asserts about the list.
pub fn run_listed<P: Prop>(
    prop: &P,
    cfg: &RunCfg,
    list: &[Vec<u64>],
    known: &[KnownFinding],
    exhaustive: bool,
) -> PartResult {
    let threads = cfg.threads.max(1);
    let stop = AtomicBool::new(false);
    let first_fail: Mutex<Option<(Vec<u64>, Fail)>> = Mutex::new(None);
    let total = Mutex::new(Stats::default());
    let known_hits: Mutex<BTreeMap<String, KnownFinding>> = Mutex::new(BTreeMap::new());
    let next = AtomicU64::new(0);
    let shard_no = AtomicU64::new(0);
    std::thread::scope(|scope| {
        for _ in 0..threads {
            scope.spawn(|| {
                let mut stats = Stats::default();
                let crumb = Crumb::open(prop.part(), shard_no.fetch_add(1, Ordering::Relaxed), prop.breadcrumbs());
                loop {
                    if stop.load(Ordering::Relaxed) {
                        break;
                    }
                    let i = next.fetch_add(1, Ordering::Relaxed) as usize;
                    if i >= list.len() {
                        break;
                    }
                    let choices = &list[i];
                    crumb.note(choices);
                    let (out, case) = run_guarded(prop, choices);
                    stats.evaluations += 1;
                    match out {
                        Ok(pass) => {
                            for l in &pass.labels {
                                *stats.labels.entry(l).or_default() += 1;
                            }
                            if pass.nontrivial {
                                stats.nontrivial += 1;
                                stats.distinct_nontrivial.insert(hash_words(choices));
                                if stats.samples.len() < 1 {
                                    if let Some(c) = &case {
                                        stats.samples.push(prop.describe(c));
                                    }
                                }
                            }
                        },
                        Err(f) => {
                            if let Some(k) = known_match(known, prop.id(), &f.signature) {
                                *stats.excluded_known.entry(k.signature.clone()).or_default() += 1;
                                known_hits
                                    .lock()
                                    .unwrap()
                                    .entry(k.signature.clone())
                                    .or_insert_with(|| k.clone());
                            } else {
                                let mut g = first_fail.lock().unwrap();
                                if g.is_none() {
                                    *g = Some((choices.clone(), f));
                                }
                                stop.store(true, Ordering::Relaxed);
                                break;
                            }
                        },
                    }
                }
                total.lock().unwrap().merge(stats);
            });
        }
    });
    let stats = total.into_inner().unwrap();
    let failure = first_fail.into_inner().unwrap().map(|(choices, f)| {
        let (min, runs) = shrink(prop, choices, &f.signature);
        finalize_failure(prop, min, f, runs)
    });
    PartResult {
        part: prop.part(),
        rule: prop.rule(),
        stats,
        failure,
        known_hits: known_hits.into_inner().unwrap().into_values().collect(),
        exhaustive,
    }
}

/// Re-executes one choice sequence (replay).
pub fn run_outcome<P: Prop>(prop: &P, choices: &[u64]) -> Outcome {
    run_guarded(prop, choices).0
}

pub fn run_one<P: Prop>(prop: &P, choices: &[u64]) -> (Outcome, Value) {
    let (out, case) = run_guarded(prop, choices);
    (out, case.map(|c| prop.describe(&c)).unwrap_or(Value::Null))
}

// ---------------------------------------------------------------------------------------
// reporting

pub struct Report {
    pub id: &'static str,
    pub tier: String,
    pub seed: u64,
    pub parts: Vec<PartResult>,
    pub assumptions: Vec<String>,
    pub started: Instant,
    pub extra: BTreeMap<String, Value>,
    /// parts computed by another binary (engine E4), see `external_parts_json`
    pub external: Vec<Value>,
    pub external_wall_s: f64,
}

impl Report {
    pub fn new(id: &'static str, cfg: &RunCfg) -> Self {
        Self {
            id,
            tier: cfg.tier.clone(),
            seed: cfg.seed,
            parts: vec![],
            assumptions: vec![],
            started: Instant::now(),
            extra: BTreeMap::new(),
            external: vec![],
            external_wall_s: 0.0,
        }
    }

    pub fn failed(&self) -> bool {
        self.parts.iter().any(|p| p.failure.is_some())
    }

    /// Writes evidence + replay files, prints the verdict lines, returns the exit code.
    pub fn finish(self) -> i32 {
        let wall = self.started.elapsed().as_secs_f64() + self.external_wall_s;
        let mut evaluations = 0u64;
        let mut distinct = 0u64;
        let mut samples: Vec<Value> = vec![];
        let mut parts_json = vec![];
        let mut rules = vec![];
        let mut violations = 0;
        let mut all_exhaustive = !self.parts.is_empty();
        let mut printed_known = HashSet::new();

        for p in &self.parts {
            evaluations += p.stats.evaluations;
            distinct += p.stats.distinct_nontrivial.len() as u64;
            all_exhaustive &= p.exhaustive;
            for s in &p.stats.samples {
                if samples.len() < 6 {
                    samples.push(json!({"part": p.part, "case": s}));
                }
            }
            rules.push(format!("[{}] {}", p.part, p.rule));
            let labels: BTreeMap<String, u64> =
                p.stats.labels.iter().map(|(k, v)| (k.to_string(), *v)).collect();
            parts_json.push(json!({
                "part": p.part,
                "evaluations": p.stats.evaluations,
                "nontrivial": p.stats.nontrivial,
                "distinct_nontrivial": p.stats.distinct_nontrivial.len(),
                "exhaustive": p.exhaustive,
                "classes": labels,
                "excluded_known": p.stats.excluded_known,
            }));
            for k in &p.known_hits {
                if printed_known.insert(k.signature.clone()) {
                    println!("KNOWN-FINDING: property={} {} [{}]", self.id, k.what, k.signature);
                }
            }
        }

        for e in &self.external {
            evaluations += e["evaluations"].as_u64().unwrap_or(0);
            distinct += e["distinct_nontrivial"].as_u64().unwrap_or(0);
            all_exhaustive &= e["exhaustive"].as_bool().unwrap_or(false);
            if let Some(arr) = e["samples"].as_array() {
                for s in arr {
                    if samples.len() < 8 {
                        samples.push(json!({"part": e["part"], "case": s}));
                    }
                }
            }
            rules.push(format!("[{}] {}", e["part"].as_str().unwrap_or("?"), e["rule"].as_str().unwrap_or("")));
            if e["violation"].as_bool().unwrap_or(false) {
                violations += 1;
            }
            let mut pj = e.clone();
            if let Some(o) = pj.as_object_mut() {
                o.remove("samples");
                o.remove("rule");
            }
            parts_json.push(pj);
        }

        let mut replay_paths = vec![];
        for e in &self.external {
            if let Some(r) = e["replay"].as_str() {
                replay_paths.push(r.to_string());
            }
        }
        for p in &self.parts {
            if let Some(f) = &p.failure {
                violations += 1;
                let h = hash_words(&f.choices);
                let dir = format!("{}/replays", verif_dir());
                let _ = std::fs::create_dir_all(&dir);
                let path = format!("{dir}/{}-{}-{:016x}.json", self.id, f.part, h);
                let body = json!({
                    "property": f.property,
                    "part": f.part,
                    "signature": f.signature,
                    "message": f.message,
                    "choices": f.choices,
                    "case": f.case,
                    "shrink_runs": f.shrink_runs,
                    "seed": self.seed,
                    "tier": self.tier,
                });
                std::fs::write(&path, serde_json::to_string_pretty(&body).unwrap())
                    .expect("write replay");
                println!("--- failing case ({} / {}): {}", self.id, f.part, f.message);
                println!("{}", serde_json::to_string_pretty(&f.case).unwrap());
                println!("VIOLATION property={} replay={}", self.id, path);
                replay_paths.push(path);
            }
        }

        let mut coverage = json!({
            "evaluations": evaluations,
            "distinct_nontrivial": distinct,
            "rule": rules.join(" | "),
            "samples": samples,
            "exhaustive": all_exhaustive,
            "parts": parts_json,
        });
        for (k, v) in &self.extra {
            coverage[k] = v.clone();
        }
        let evidence = json!({
            "property_id": self.id,
            "tier": if self.tier == "thorough" { "thorough" } else { "quick" },
            "seed": self.seed,
            "level": "exploration",
            "coverage": coverage,
            "assumptions": self.assumptions,
            "wall_s": wall,
            "violations": violations,
            "replays": replay_paths,
        });
        let dir = format!("{}/evidence", verif_dir());
        let _ = std::fs::create_dir_all(&dir);
        std::fs::write(
            format!("{dir}/{}.json", self.id),
            serde_json::to_string_pretty(&evidence).unwrap(),
        )
        .expect("write evidence");

        println!(
            "{} tier={} seed={} evaluations={} distinct_nontrivial={} wall={:.1}s -> {}",
            self.id,
            self.tier,
            self.seed,
            evaluations,
            distinct,
            wall,
            if violations == 0 { "OK" } else { "VIOLATION" }
        );
        for p in &self.parts {
            let labels: Vec<String> =
                p.stats.labels.iter().map(|(k, v)| format!("{k}={v}")).collect();
            println!(
                "  [{}] n={} nontrivial={} distinct={} {}",
                p.part,
                p.stats.evaluations,
                p.stats.nontrivial,
                p.stats.distinct_nontrivial.len(),
                labels.join(" ")
            );
        }
        for e in &self.external {
            println!(
                "  [{}] n={} nontrivial={} distinct={} (engine {})",
                e["part"].as_str().unwrap_or("?"),
                e["evaluations"],
                e["nontrivial"],
                e["distinct_nontrivial"],
                e["engine"].as_str().unwrap_or("?")
            );
        }
        if violations > 0 {
            1
        } else {
            0
        }
    }
}

/// Used by a secondary binary: prints the verdict lines for its parts, writes replay files and returns
/// the parts as JSON for the main harness to merge into the evidence file.
pub fn external_parts_json(id: &str, cfg: &RunCfg, parts: &[PartResult], engine: &str, wall_s: f64) -> Value {
    let mut out = vec![];
    for p in parts {
        let labels: BTreeMap<String, u64> = p.stats.labels.iter().map(|(k, v)| (k.to_string(), *v)).collect();
        let mut replay = Value::Null;
        for k in &p.known_hits {
            println!("KNOWN-FINDING: property={} {} [{}]", id, k.what, k.signature);
        }
        if let Some(f) = &p.failure {
            let h = hash_words(&f.choices);
            let dir = format!("{}/replays", verif_dir());
            let _ = std::fs::create_dir_all(&dir);
            let path = format!("{dir}/{}-{}-{:016x}.json", id, f.part, h);
            let body = json!({
                "property": f.property, "part": f.part, "signature": f.signature, "message": f.message,
                "choices": f.choices, "case": f.case, "shrink_runs": f.shrink_runs, "seed": cfg.seed, "tier": cfg.tier,
                "engine": engine,
            });
            std::fs::write(&path, serde_json::to_string_pretty(&body).unwrap()).expect("write replay");
            println!("--- failing case ({} / {}): {}", id, f.part, f.message);
            println!("{}", serde_json::to_string_pretty(&f.case).unwrap());
            println!("VIOLATION property={} replay={}", id, path);
            replay = json!(path);
        }
        out.push(json!({
            "part": p.part,
            "engine": engine,
            "rule": p.rule,
            "evaluations": p.stats.evaluations,
            "nontrivial": p.stats.nontrivial,
            "distinct_nontrivial": p.stats.distinct_nontrivial.len(),
            "exhaustive": p.exhaustive,
            "classes": labels,
            "excluded_known": p.stats.excluded_known,
            "samples": p.stats.samples,
            "violation": p.failure.is_some(),
            "replay": replay,
        }));
    }
    json!({"property": id, "parts": out, "wall_s": wall_s})
}

/// Shared quiet panic hook: the environment sets RUST_BACKTRACE, and caught panics inside
/// cases would flood the output.
pub fn install_quiet_panic_hook() {
    std::panic::set_hook(Box::new(|_| {}));
}

pub fn arc<T>(t: T) -> Arc<T> {
    Arc::new(t)
}

/// Parent side of `vp check`: runs the real check in a child process; if the child is killed (abort,
/// segfault, ...) the breadcrumbs left by its shards are re-run one by one in fresh children and the
/// case that kills the process again is reported as a violation.
pub fn supervise(args: &[String]) -> i32 {
    let id = args[2].clone();
    let dir = format!("/dev/shm/vp-crumbs-{}", std::process::id());
    let _ = std::fs::remove_dir_all(&dir);
    let crumbs_ok = std::fs::create_dir_all(&dir).is_ok();
    let mut cmd = std::process::Command::new(std::env::current_exe().unwrap());
    cmd.args(&args[1..]).arg("--worker");
    if crumbs_ok {
        cmd.env("VP_CRUMBS", &dir);
    }
    let status = cmd.status().expect("spawn worker");
    let code = match status.code() {
        Some(c @ (0 | 1 | 2)) => c,
        _ => {
            println!("worker process for {id} terminated abnormally ({status}); looking for the case that did it");
            let mut verdict = 2;
            if let Ok(rd) = std::fs::read_dir(&dir) {
                let mut files: Vec<_> = rd.filter_map(|e| e.ok()).map(|e| e.path()).collect();
                files.sort();
                for f in files {
                    let name = f.file_name().unwrap().to_string_lossy().to_string();
                    let part = name.rsplit_once('-').map(|(p, _)| p.to_string()).unwrap_or(name.clone());
                    let Some(choices) = Crumb::read(f.to_str().unwrap()) else { continue };
                    let tmp = format!("{dir}/replay-{name}.json");
                    let body = serde_json::json!({
                        "property": id, "part": part, "signature": "process-crash",
                        "message": format!("running this case terminated the process abnormally ({status})"),
                        "choices": choices,
                    });
                    std::fs::write(&tmp, serde_json::to_string_pretty(&body).unwrap()).unwrap();
                    let st = std::process::Command::new(std::env::current_exe().unwrap())
                        .args(["replay", &tmp, "--worker"])
                        .stdout(std::process::Stdio::null())
                        .status()
                        .expect("spawn replay worker");
                    if !matches!(st.code(), Some(0 | 1 | 2)) {
                        let out_dir = format!("{}/replays", verif_dir());
                        let _ = std::fs::create_dir_all(&out_dir);
                        let path = format!("{out_dir}/{id}-{part}-crash-{:016x}.json", hash_words(&choices));
                        std::fs::copy(&tmp, &path).unwrap();
                        println!("--- case of {id}/{part} that kills the process ({st}); replay with ./check --replay {path}");
                        println!("VIOLATION property={id} replay={path}");
                        verdict = 1;
                        break;
                    }
                }
            }
            if verdict == 2 {
                // No single case kills a fresh process.  Memory corruption often needs the allocations of the cases
                // before it: run the whole (deterministic) check once more; if it dies again the crash belongs to this
                // tree and seed, and the replay file re-runs the whole check.
                let mut again = std::process::Command::new(std::env::current_exe().unwrap());
                again.args(&args[1..]).arg("--worker").stdout(std::process::Stdio::null());
                let st2 = again.status().expect("spawn worker again");
                if !matches!(st2.code(), Some(0 | 1 | 2)) {
                    let out_dir = format!("{}/replays", verif_dir());
                    let _ = std::fs::create_dir_all(&out_dir);
                    let seed = std::env::var("VERIF_SEED").unwrap_or_default();
                    let path = format!("{out_dir}/{id}-whole-run-crash-{:016x}.json", hash_words(&[seed.len() as u64, args.len() as u64]));
                    let body = serde_json::json!({
                        "property": id, "signature": "process-crash-whole-run", "whole_run": true,
                        "args": args[1..].to_vec(), "verif_seed": seed,
                        "message": format!("the check process terminated abnormally twice ({status}, then {st2}) on the same deterministic sequence of cases; no single case reproduces it in a fresh process"),
                    });
                    std::fs::write(&path, serde_json::to_string_pretty(&body).unwrap()).unwrap();
                    println!("--- the whole run of {id} kills the process twice ({status}, {st2}); replay with ./check --replay {path}");
                    println!("VIOLATION property={id} replay={path}");
                    verdict = 1;
                } else {
                    println!("INCONCLUSIVE: worker for {id} died ({status}); no single breadcrumb case reproduces it and a second full run ended with {st2}");
                }
            }
            verdict
        },
    };
    let _ = std::fs::remove_dir_all(&dir);
    code
}


/// Parent side of `replay`: runs the replay in a child so that a case which kills the process is
/// still reported as a violation.
pub fn supervise_replay(args: &[String]) -> i32 {
    let status = std::process::Command::new(std::env::current_exe().unwrap())
        .args(&args[1..])
        .arg("--worker")
        .status()
        .expect("spawn replay worker");
    match status.code() {
        Some(c @ (0 | 1 | 2)) => c,
        _ => {
            let v: Value = std::fs::read_to_string(&args[2]).ok().and_then(|t| serde_json::from_str(&t).ok()).unwrap_or(Value::Null);
            println!("replay: the case terminated the process abnormally ({status})");
            println!("VIOLATION property={} replay={}", v["property"].as_str().unwrap_or("?"), args[2]);
            1
        },
    }
}

// ---------------------------------------------------------------------------------------
// process-isolated shards

pub fn part_result_to_json(r: &PartResult) -> Value {
    json!({
        "evaluations": r.stats.evaluations,
        "nontrivial": r.stats.nontrivial,
        "distinct": r.stats.distinct_nontrivial.iter().collect::<Vec<_>>(),
        "labels": r.stats.labels.iter().map(|(k, v)| (k.to_string(), *v)).collect::<BTreeMap<String, u64>>(),
        "excluded_known": r.stats.excluded_known,
        "samples": r.stats.samples,
        "known_hits": r.known_hits.iter().map(|k| k.signature.clone()).collect::<Vec<_>>(),
        "failure": r.failure.as_ref().map(|f| json!({
            "property": f.property, "part": f.part, "choices": f.choices, "signature": f.signature,
            "message": f.message, "case": f.case, "shrink_runs": f.shrink_runs,
        })),
    })
}

fn run_in_child_processes<P: Prop>(prop: &P, cfg: &RunCfg, _cases: u64, known: &[KnownFinding]) -> PartResult {
    let n = cfg.threads.max(1);
    let exe = std::env::current_exe().expect("current exe");
    let mut children = vec![];
    for i in 0..n {
        let child = std::process::Command::new(&exe)
            .args(["check", prop.id(), "--part", prop.part(), "--tier", &cfg.tier, "--worker"])
            .env("VP_SHARD", format!("{i}/{n}"))
            .env("VP_THREADS", "1")
            .env("VERIF_SEED", cfg.seed.to_string())
            .stdout(std::process::Stdio::piped())
            .stderr(std::process::Stdio::null())
            .spawn()
            .expect("spawn shard process");
        children.push(child);
    }
    let mut stats = Stats::default();
    let mut failure: Option<Failure> = None;
    let mut hits: BTreeMap<String, KnownFinding> = BTreeMap::new();
    for (i, child) in children.into_iter().enumerate() {
        let out = child.wait_with_output().expect("wait shard");
        let text = String::from_utf8_lossy(&out.stdout).to_string();
        let line = text.lines().find(|l| l.starts_with("VP_SHARD_RESULT "));
        let Some(line) = line else {
            // the shard died: die the same way so that the supervising parent looks at the breadcrumbs
            eprintln!("shard {i}/{n} of {}/{} ended without a result ({})", prop.id(), prop.part(), out.status);
            std::process::abort();
        };
        let v: Value = serde_json::from_str(&line["VP_SHARD_RESULT ".len()..]).expect("shard json");
        stats.evaluations += v["evaluations"].as_u64().unwrap_or(0);
        stats.nontrivial += v["nontrivial"].as_u64().unwrap_or(0);
        for d in v["distinct"].as_array().into_iter().flatten() {
            if let Some(x) = d.as_u64() {
                stats.distinct_nontrivial.insert(x);
            }
        }
        for (k, c) in v["labels"].as_object().into_iter().flatten() {
            let key: &'static str = Box::leak(k.clone().into_boxed_str());
            *stats.labels.entry(key).or_default() += c.as_u64().unwrap_or(0);
        }
        for (k, c) in v["excluded_known"].as_object().into_iter().flatten() {
            *stats.excluded_known.entry(k.clone()).or_default() += c.as_u64().unwrap_or(0);
        }
        for s in v["samples"].as_array().into_iter().flatten() {
            if stats.samples.len() < 3 {
                stats.samples.push(s.clone());
            }
        }
        for sig in v["known_hits"].as_array().into_iter().flatten() {
            if let Some(k) = known.iter().find(|k| Some(k.signature.as_str()) == sig.as_str() && k.property == prop.id()) {
                hits.insert(k.signature.clone(), k.clone());
            }
        }
        if failure.is_none() && !v["failure"].is_null() {
            let f = &v["failure"];
            failure = Some(Failure {
                property: f["property"].as_str().unwrap_or("").to_string(),
                part: f["part"].as_str().unwrap_or("").to_string(),
                choices: f["choices"].as_array().map(|a| a.iter().filter_map(|x| x.as_u64()).collect()).unwrap_or_default(),
                signature: f["signature"].as_str().unwrap_or("").to_string(),
                message: f["message"].as_str().unwrap_or("").to_string(),
                case: f["case"].clone(),
                shrink_runs: f["shrink_runs"].as_u64().unwrap_or(0) as usize,
            });
        }
    }
    PartResult { part: prop.part(), rule: prop.rule(), stats, failure, known_hits: hits.into_values().collect(), exhaustive: false }
}
