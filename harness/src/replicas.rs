//! Shared construction of replica states for C03 / C05 / C19: one op pool, every replica applies a
//! part of it in a way that satisfies the properties' precondition *by construction*.

use datacake_crdt::OrSWotSet;
use serde_json::{json, Value};

use crate::core::Src;
use crate::model::{apply, SetOp, StampGen};

#[derive(Debug, Clone, Copy, PartialEq, Eq)]
pub enum Mode {
    /// all stamps inside one forgiveness period (3000 s window): arbitrary subsets, arbitrary order
    Window,
    /// stamps spread over up to 6 h: every replica applies, per origin, a gap-free prefix, in stamp order
    Prefix,
    /// stamps hours apart on an exact 1 h grid, arbitrary subsets in arbitrary order: OUTSIDE the
    /// precondition of C03 / C05's repair clause, used only for claims made about any replica
    Gaps,
}

#[derive(Debug, Clone)]
pub struct Pool {
    pub mode: Mode,
    /// sorted by stamp
    pub ops: Vec<SetOp>,
    pub nodes: Vec<u8>,
}

#[derive(Debug, Clone)]
pub struct ReplicaPlan {
    /// (index into pool.ops, source), in application order
    pub steps: Vec<(usize, usize)>,
}

/// Prefix-mode pool shaped so that purging happens: few origins, stamps advancing in steps of up to
/// two hours, so that both sources see stamps more than a forgiveness period after earlier deletes.
pub fn gen_pool_long(src: &mut Src, max_ops: usize) -> Pool {
    let n = 3 + src.below(max_ops.saturating_sub(2));
    let n_keys = 1 + src.below(4) as u64;
    let nodes: Vec<u8> = match src.below(3) {
        0 => vec![1],
        1 => vec![1, 2],
        _ => vec![1, 2, 200],
    };
    let mut t = *src.pick(&[100_000u64, 3_700, 1_000_000, 10]);
    let mut ops = vec![];
    let mut counter = 0u16;
    for _ in 0..n {
        let step = *src.pick(&[0u64, 1, 1_800, 3_601, 3_601, 7_200]);
        t += step;
        counter = if step == 0 { counter + 1 } else { 0 };
        let node = *src.pick(&nodes);
        let key = 1 + src.below64(n_keys);
        let delete = src.chance(1, 2);
        // distinct by construction: (t, counter) strictly increases
        ops.push(SetOp { key, stamp: crate::model::Stamp { secs: t, frac: 0, counter, node }, delete });
    }
    ops.sort_by_key(|o| o.stamp);
    Pool { mode: Mode::Prefix, ops, nodes }
}

/// Pool for mode `Gaps`: times on a grid whose steps include exactly one forgiveness period, equal
/// counters, so that a stamp can sit exactly on a replica's purge cut-off.
pub fn gen_pool_gaps(src: &mut Src, max_ops: usize) -> Pool {
    let n = 2 + src.below(max_ops.saturating_sub(1));
    let n_keys = 1 + src.below(4) as u64;
    let nodes: Vec<u8> = match src.below(3) {
        0 => vec![1],
        1 => vec![1, 2],
        _ => vec![1, 2, 200],
    };
    let base = *src.pick(&[100_000u64, 7_200]);
    let mut ops = vec![];
    let mut used = std::collections::BTreeSet::new();
    for _ in 0..n {
        let secs = base + *src.pick(&[0u64, 3_599, 3_600, 3_601, 7_200, 10_800]);
        let mut stamp = crate::model::Stamp { secs, frac: *src.pick(&[0u8, 0, 1]), counter: *src.pick(&[0u16, 0, 1]), node: *src.pick(&nodes) };
        while !used.insert(stamp) {
            stamp.counter += 1;
        }
        ops.push(SetOp { key: 1 + src.below64(n_keys), stamp, delete: src.chance(2, 5) });
    }
    ops.sort_by_key(|o| o.stamp);
    Pool { mode: Mode::Gaps, ops, nodes }
}

/// Local generator for the shapes that need thousands of choices (big pools and their plans): a pure function of one
/// choice word, so a case still is a function of its choice sequence (it just does not shrink below that word).
pub struct Mix(pub u64);

impl Mix {
    pub fn next(&mut self) -> u64 {
        self.0 = self.0.wrapping_add(0x9E37_79B9_7F4A_7C15);
        crate::core::splitmix64(self.0)
    }

    pub fn below(&mut self, n: u64) -> u64 {
        ((self.next() as u128 * n.max(1) as u128) >> 64) as u64
    }

    pub fn chance(&mut self, num: u64, den: u64) -> bool {
        self.below(den) < num
    }
}

/// Pools of hundreds to thousands of operations over many keys (round 11: sizes were a blind spot). Window mode (all stamps
/// inside 3000 s) or Prefix mode (stamps over up to 6 h).
pub fn gen_pool_big(src: &mut Src) -> Pool {
    let n = *src.pick(&[200usize, 1_000, 1_023, 1_025, 3_000, 5_000]);
    let mode = if src.chance(1, 2) { Mode::Prefix } else { Mode::Window };
    let nodes: Vec<u8> = match src.below(3) {
        0 => vec![1, 2],
        1 => vec![1, 2, 3],
        _ => vec![0, 7, 255],
    };
    let n_keys = (*src.pick(&[n as u64 / 4, n as u64, 4 * n as u64])).max(1);
    let base = *src.pick(&[100_000u64, 3_700, 1_000_000]);
    let window = if mode == Mode::Window { 3_000u64 } else { *src.pick(&[21_600u64, 8_000]) };
    let mut mix = Mix(src.word());
    let mut ops = vec![];
    for i in 0..n as u64 {
        // strictly increasing (time, counter): distinct by construction; bursts share a second
        let secs = base + (i * window) / n as u64;
        let stamp = crate::model::Stamp { secs, frac: (mix.below(3) * 100) as u8, counter: (i % 60_000) as u16, node: nodes[mix.below(nodes.len() as u64) as usize] };
        ops.push(SetOp { key: 1 + mix.below(n_keys), stamp, delete: mix.chance(2, 5) });
    }
    ops.sort_by_key(|o| o.stamp);
    Pool { mode, ops, nodes }
}

pub fn gen_pool(src: &mut Src, max_ops: usize) -> Pool {
    if src.chance(1, 4) {
        return gen_pool_long(src, max_ops);
    }
    let mode = if src.chance(1, 2) { Mode::Prefix } else { Mode::Window };
    let n = 1 + src.below(max_ops);
    let n_keys = 1 + src.below(4) as u64;
    let nodes: Vec<u8> = match src.below(5) {
        0 => vec![1, 2],
        1 => vec![1, 2, 3],
        2 => vec![0, 7, 255],
        3 => vec![5],
        _ => vec![1, 2],
    };
    let window = match mode {
        Mode::Gaps => unreachable!(),
        Mode::Window => 3_000,
        Mode::Prefix => *src.pick(&[21_600u64, 3_700, 8_000]),
    };
    let base = *src.pick(&[100_000u64, 3_700, 1_000_000, 10]);
    let mut sg = StampGen::new(base, window, nodes.clone());
    let mut ops = vec![];
    for _ in 0..n {
        let key = 1 + src.below64(n_keys);
        let delete = src.chance(2, 5);
        ops.push(SetOp { key, stamp: sg.draw(src), delete });
    }
    ops.sort_by_key(|o| o.stamp);
    Pool { mode, ops, nodes }
}

pub fn gen_plan(src: &mut Src, pool: &Pool, sources: usize) -> ReplicaPlan {
    let n = pool.ops.len();
    let mut steps = vec![];
    if n > 64 {
        // a big pool: the plan is drawn from one choice word
        let mut mix = Mix(src.word());
        match pool.mode {
            Mode::Window | Mode::Gaps => {
                let keep = 1 + mix.below(9);
                let mut chosen: Vec<usize> = (0..n).filter(|_| mix.below(10) < keep).collect();
                // arbitrary order: Fisher-Yates
                for i in (1..chosen.len()).rev() {
                    let j = mix.below(i as u64 + 1) as usize;
                    chosen.swap(i, j);
                }
                for i in chosen {
                    steps.push((i, mix.below(sources as u64) as usize));
                }
            },
            Mode::Prefix => {
                let mut cut = std::collections::BTreeMap::new();
                for node in &pool.nodes {
                    let total = pool.ops.iter().filter(|o| o.stamp.node == *node).count();
                    cut.insert(*node, mix.below(total as u64 + 1) as usize);
                }
                let mut cnt = std::collections::BTreeMap::<u8, usize>::new();
                for (i, op) in pool.ops.iter().enumerate() {
                    let c = cnt.entry(op.stamp.node).or_default();
                    if *c < cut[&op.stamp.node] {
                        *c += 1;
                        steps.push((i, mix.below(sources as u64) as usize));
                    }
                }
            },
        }
        return ReplicaPlan { steps };
    }
    match pool.mode {
        Mode::Window | Mode::Gaps => {
            let mut chosen: Vec<usize> = (0..n).filter(|_| src.chance(2, 3)).collect();
            let perm = src.permutation(chosen.len());
            chosen = perm.into_iter().map(|i| chosen[i]).collect();
            for i in chosen {
                steps.push((i, src.below(sources)));
            }
        },
        Mode::Prefix => {
            // per origin: how many of its ops (in stamp order) this replica has applied
            let mut cut = std::collections::BTreeMap::new();
            for node in &pool.nodes {
                let total = pool.ops.iter().filter(|o| o.stamp.node == *node).count();
                cut.insert(*node, src.below(total + 1));
            }
            let mut cnt = std::collections::BTreeMap::<u8, usize>::new();
            for (i, op) in pool.ops.iter().enumerate() {
                let c = cnt.entry(op.stamp.node).or_default();
                if *c < cut[&op.stamp.node] {
                    *c += 1;
                    steps.push((i, src.below(sources)));
                }
            }
        },
    }
    ReplicaPlan { steps }
}

pub fn build<const N: usize>(pool: &Pool, plan: &ReplicaPlan) -> OrSWotSet<N> {
    let mut s = OrSWotSet::<N>::default();
    for (i, source) in &plan.steps {
        apply(&mut s, (*source).min(N - 1), &pool.ops[*i]);
    }
    s
}

pub fn pool_json(pool: &Pool) -> Value {
    if pool.ops.len() > 64 {
        return json!({
            "mode": format!("{:?}", pool.mode),
            "big_pool_of": pool.ops.len(),
            "first_ops": pool.ops.iter().take(5).map(|o| o.json()).collect::<Vec<_>>(),
            "last_op": pool.ops.last().map(|o| o.json()),
        });
    }
    json!({
        "mode": format!("{:?}", pool.mode),
        "ops": pool.ops.iter().map(|o| o.json()).collect::<Vec<_>>(),
    })
}

pub fn plan_json(plan: &ReplicaPlan) -> Value {
    if plan.steps.len() > 64 {
        return json!({"steps": plan.steps.len(), "first": plan.steps.iter().take(8).map(|(i, s)| format!("op{}@src{}", i, s)).collect::<Vec<_>>()});
    }
    json!(plan.steps.iter().map(|(i, s)| format!("op{}@src{}", i, s)).collect::<Vec<_>>())
}

// ------------------------------------------------------------------------------------------------------------------
// Exhaustive small scope shared by C03 (`small-scope-triples`) and C05 (`small-scope-pairs`): every pool of 1-3
// operations with distinct stamps out of a universe of 4-5 stamps from two origins, keys {1,2}, insert / delete;
// every replica such a pool can build under the mode's rule (Window / Gaps: every ordered subset; Prefix: every
// per-origin gap-free prefix in stamp order) with every assignment of sources.

/// which: 0 = Window (all stamps within 1000 s, incl. a (time, counter) tie across the nodes), 1 = Prefix (stamps over
/// more than two forgiveness periods), 2 = Gaps (exact 1 h grid; outside the repair precondition, C05 exactness only)
pub fn small_universe(which: usize) -> Vec<crate::model::Stamp> {
    use crate::model::Stamp;
    let s = |secs: u64, counter: u16, node: u8| Stamp { secs, frac: 0, counter, node };
    match which {
        0 => vec![s(5_000, 0, 1), s(5_000, 0, 2), s(5_000, 1, 1), s(6_000, 0, 2)],
        1 => vec![s(5_000, 0, 1), s(5_001, 0, 2), s(8_700, 0, 1), s(8_800, 0, 2), s(12_400, 0, 1)],
        _ => vec![s(100_000, 0, 1), s(103_600, 0, 1), s(103_600, 0, 2), s(107_200, 0, 1), s(107_201, 0, 2)],
    }
}

pub struct Small {
    pub pools: Vec<Pool>,
    /// plans[pool][variant]: 0 = one source, 1 = two sources but one source per replica, 2 = every source assignment
    pub plans: Vec<[Vec<ReplicaPlan>; 3]>,
}

fn arrangements(k: usize) -> Vec<Vec<usize>> {
    // every ordered selection of distinct indices below k, the empty one included
    let mut out = vec![vec![]];
    let mut frontier: Vec<Vec<usize>> = vec![vec![]];
    for _ in 0..k {
        let mut next = vec![];
        for f in &frontier {
            for i in 0..k {
                if !f.contains(&i) {
                    let mut g = f.clone();
                    g.push(i);
                    next.push(g);
                }
            }
        }
        out.extend(next.iter().cloned());
        frontier = next;
    }
    out
}

fn with_sources(seqs: &[Vec<usize>], variant: usize) -> Vec<ReplicaPlan> {
    let mut out = vec![];
    for s in seqs {
        match variant {
            0 => out.push(ReplicaPlan { steps: s.iter().map(|i| (*i, 0)).collect() }),
            1 => {
                out.push(ReplicaPlan { steps: s.iter().map(|i| (*i, 0)).collect() });
                if !s.is_empty() {
                    out.push(ReplicaPlan { steps: s.iter().map(|i| (*i, 1)).collect() });
                }
            },
            _ => {
                for bits in 0..(1usize << s.len()) {
                    out.push(ReplicaPlan { steps: s.iter().enumerate().map(|(j, i)| (*i, (bits >> j) & 1)).collect() });
                }
            },
        }
    }
    out
}

fn build_small(which: usize) -> Small {
    let uni = small_universe(which);
    let mode = [Mode::Window, Mode::Prefix, Mode::Gaps][which];
    let mut pools = vec![];
    for mask in 1u32..(1 << uni.len()) {
        let k = mask.count_ones() as usize;
        if k > 3 {
            continue;
        }
        let stamps: Vec<_> = (0..uni.len()).filter(|i| mask & (1 << i) != 0).map(|i| uni[i]).collect();
        for bits in 0..(1u32 << (2 * k)) {
            let mut ops: Vec<SetOp> = stamps
                .iter()
                .enumerate()
                .map(|(j, st)| SetOp { key: 1 + ((bits >> (2 * j)) & 1) as u64, stamp: *st, delete: (bits >> (2 * j + 1)) & 1 == 1 })
                .collect();
            ops.sort_by_key(|o| o.stamp);
            pools.push(Pool { mode, ops, nodes: vec![1, 2] });
        }
    }
    let mut plans = vec![];
    for pool in &pools {
        let k = pool.ops.len();
        let seqs: Vec<Vec<usize>> = match mode {
            Mode::Window | Mode::Gaps => arrangements(k),
            Mode::Prefix => {
                let of = |node: u8| pool.ops.iter().enumerate().filter(|(_, o)| o.stamp.node == node).map(|(i, _)| i).collect::<Vec<_>>();
                let (n1, n2) = (of(1), of(2));
                let mut v = vec![];
                for c1 in 0..=n1.len() {
                    for c2 in 0..=n2.len() {
                        let mut s: Vec<usize> = n1[..c1].iter().chain(n2[..c2].iter()).copied().collect();
                        s.sort(); // pool is sorted by stamp: index order = stamp order
                        v.push(s);
                    }
                }
                v
            },
        };
        plans.push([with_sources(&seqs, 0), with_sources(&seqs, 1), with_sources(&seqs, 2)]);
    }
    Small { pools, plans }
}

pub fn small(which: usize) -> &'static Small {
    static T: [std::sync::OnceLock<Small>; 3] = [std::sync::OnceLock::new(), std::sync::OnceLock::new(), std::sync::OnceLock::new()];
    T[which.min(2)].get_or_init(|| build_small(which.min(2)))
}
