//! C10 — timestamp encoding is lossless and order-preserving; parsing never panics.

use std::str::FromStr;
use std::time::Duration;

use datacake_crdt::{HLCTimestamp, DATACAKE_EPOCH, TIMESTAMP_MAX};
use serde_json::{json, Value};

use crate::core::{Outcome, Pass, Prop, Src};
use crate::ensure;
use crate::model::Stamp;
use crate::registry::{DynPart, Gen};

const SECS: &[u64] = &[0, 1, 2, 3_599, 3_600, (1 << 31) - 1, 1 << 31, (1 << 31) + 1, (1 << 32) - 2, (1 << 32) - 1];
const FRACS: &[u8] = &[0, 1, 2, 124, 125, 126, 248, 249];
const COUNTERS: &[u16] = &[0, 1, 2, 255, 256, 257, 32_767, 32_768, 65_534, 65_535];
const NODES: &[u8] = &[0, 1, 2, 127, 128, 254, 255];

fn gen_stamp(src: &mut Src) -> Stamp {
    let secs = if src.chance(1, 2) { *src.pick(SECS) } else { src.range(0, TIMESTAMP_MAX) };
    let frac = if src.chance(1, 2) { *src.pick(FRACS) } else { src.range(0, 249) as u8 };
    let counter = if src.chance(1, 2) { *src.pick(COUNTERS) } else { src.range(0, 65_535) as u16 };
    let node = if src.chance(1, 2) { *src.pick(NODES) } else { src.range(0, 255) as u8 };
    Stamp { secs, frac, counter, node }
}

fn check_roundtrip(s: Stamp) -> Result<HLCTimestamp, crate::core::Fail> {
    let dur = Duration::from_secs(s.secs) + Duration::from_millis(s.frac as u64 * 4);
    let ts = HLCTimestamp::new(dur, s.counter, s.node);
    ensure!(
        (ts.seconds(), ts.fractional(), ts.counter(), ts.node()) == (s.secs, s.frac, s.counter, s.node),
        "accessors",
        "accessors of {:?} give ({}, {}, {}, {})",
        s,
        ts.seconds(),
        ts.fractional(),
        ts.counter(),
        ts.node()
    );
    ensure!(ts.datacake_timestamp() == dur, "duration", "datacake_timestamp of {:?} is {:?}", s, ts.datacake_timestamp());
    ensure!(ts.unix_timestamp() == dur + DATACAKE_EPOCH, "duration", "unix_timestamp of {:?} is {:?}", s, ts.unix_timestamp());
    let packed = ts.as_u64();
    let expect = (s.secs << 32) | ((s.frac as u64) << 24) | ((s.counter as u64) << 8) | s.node as u64;
    ensure!(packed == expect, "packed-layout", "{:?} packs to {packed:#x}, layout says {expect:#x}", s);
    ensure!(HLCTimestamp::from_u64(packed) == ts, "u64-roundtrip", "from_u64(as_u64) differs for {:?}", s);
    let text = ts.to_string();
    let parsed = HLCTimestamp::from_str(&text);
    ensure!(
        matches!(parsed, Ok(p) if p == ts),
        "text-roundtrip",
        "{:?} prints as {text:?} which parses to {:?}",
        s,
        parsed.map(Stamp::of).map_err(|_| "InvalidFormat")
    );
    let bytes = rkyv::to_bytes::<_, 16>(&ts).expect("serialise");
    let archived = unsafe { rkyv::archived_root::<HLCTimestamp>(&bytes) };
    ensure!(archived.cast() == ts, "archive-roundtrip", "archived form of {:?} casts to {:?}", s, Stamp::of(archived.cast()));
    let back: HLCTimestamp = rkyv::Deserialize::<HLCTimestamp, _>::deserialize(archived, &mut rkyv::Infallible).unwrap();
    ensure!(back == ts, "archive-roundtrip", "deserialised archive of {:?} differs", s);
    Ok(ts)
}

fn check_order(a: Stamp, b: Stamp, ta: HLCTimestamp, tb: HLCTimestamp) -> Result<(), crate::core::Fail> {
    let model = a.cmp(&b);
    ensure!(ta.cmp(&tb) == model, "ordering", "cmp({:?},{:?}) = {:?}, fields say {:?}", a, b, ta.cmp(&tb), model);
    ensure!(ta.partial_cmp(&tb) == Some(model), "ordering", "partial_cmp({:?},{:?}) disagrees", a, b);
    ensure!((ta == tb) == (a == b), "ordering", "eq({:?},{:?}) disagrees with fields", a, b);
    Ok(())
}

pub struct Roundtrip;

impl Prop for Roundtrip {
    type Case = (Stamp, Stamp);

    fn id(&self) -> &'static str {
        "C10"
    }

    fn part(&self) -> &'static str {
        "roundtrip-order"
    }

    fn width(&self) -> usize {
        24
    }

    fn gen(&self, src: &mut Src) -> (Stamp, Stamp) {
        let a = gen_stamp(src);
        // b: independent, or a neighbour of a differing in exactly one field
        let b = match src.below(4) {
            0 => gen_stamp(src),
            1 => Stamp { node: *src.pick(NODES), ..a },
            2 => Stamp { counter: *src.pick(COUNTERS), ..a },
            _ => Stamp { frac: *src.pick(FRACS), node: *src.pick(NODES), ..a },
        };
        (a, b)
    }

    fn run(&self, case: &(Stamp, Stamp)) -> Outcome {
        let ta = check_roundtrip(case.0)?;
        let tb = check_roundtrip(case.1)?;
        check_order(case.0, case.1, ta, tb)?;
        let mut labels = vec![];
        let (a, b) = (case.0, case.1);
        let same_time = (a.secs, a.frac) == (b.secs, b.frac);
        if same_time && a.counter == b.counter && a.node != b.node {
            labels.push("differs_only_in_node");
        }
        if same_time && a.counter != b.counter {
            labels.push("differs_in_counter");
        }
        if a.secs >= 1 << 31 {
            labels.push("secs_top_bit");
        }
        Ok(Pass { nontrivial: a != b, labels })
    }

    fn describe(&self, case: &(Stamp, Stamp)) -> Value {
        json!({"a": case.0.json(), "b": case.1.json()})
    }

    fn rule(&self) -> &'static str {
        "pairs of valid (secs<=2^32-1, frac<=249, counter, node) quadruples, half boundary values half uniform, \
         second stamp independent or differing from the first in one field; oracle: accessors, packed layout, \
         from_u64, Display->FromStr, rkyv archive->cast all identities and cmp == lexicographic field cmp; \
         non-trivial = the two stamps differ"
    }
}

/// Exhaustive boundary grid: every value of SECS x FRACS x COUNTERS x NODES compared with every other.
pub struct Grid;

fn grid_value(i: u64) -> Stamp {
    let mut i = i as usize;
    let node = NODES[i % NODES.len()];
    i /= NODES.len();
    let counter = COUNTERS[i % COUNTERS.len()];
    i /= COUNTERS.len();
    let frac = FRACS[i % FRACS.len()];
    i /= FRACS.len();
    let secs = SECS[i % SECS.len()];
    Stamp { secs, frac, counter, node }
}

fn grid_len() -> u64 {
    (SECS.len() * FRACS.len() * COUNTERS.len() * NODES.len()) as u64
}

pub fn grid_list() -> Vec<Vec<u64>> {
    (0..grid_len()).map(|i| vec![i]).collect()
}

impl Prop for Grid {
    type Case = u64;

    fn id(&self) -> &'static str {
        "C10"
    }

    fn part(&self) -> &'static str {
        "boundary-grid"
    }

    fn width(&self) -> usize {
        1
    }

    fn gen(&self, src: &mut Src) -> u64 {
        src.word() % grid_len()
    }

    fn run(&self, case: &u64) -> Outcome {
        let a = grid_value(*case);
        let ta = check_roundtrip(a)?;
        for j in 0..grid_len() {
            let b = grid_value(j);
            let tb = b.hlc();
            check_order(a, b, ta, tb)?;
        }
        Ok(Pass { nontrivial: true, labels: vec![] })
    }

    fn describe(&self, case: &u64) -> Value {
        json!({"a": grid_value(*case).json(), "compared_with": format!("all {} grid values", grid_len())})
    }

    fn rule(&self) -> &'static str {
        "exhaustive: each of the 5600 boundary-grid stamps round-trips and is compared with all 5600 \
         (31M ordered pairs); a case = one grid stamp against the whole grid"
    }
}

// ---------------------------------------------------------------------------------------

pub struct Parse;

fn field(src: &mut Src, kind: usize) -> String {
    // kind: 0 secs, 1 frac, 2 counter(hex), 3 node
    let mode = src.weighted(&[20, 2, 2, 1, 1, 1, 1, 1]);
    match (mode, kind) {
        (0, 0) => (if src.chance(1, 2) { *src.pick(SECS) } else { src.range(0, TIMESTAMP_MAX) }).to_string(),
        (0, 1) => format!("{:0>4}", src.range(0, 249)),
        (0, 2) => format!("{:0>4X}", src.range(0, 65_535)),
        (0, _) => format!("{:0>4}", src.range(0, 255)),
        // just out of range
        (1, 0) => src
            .pick(&[1u128 << 32, (1 << 32) + 1, (1 << 33), u64::MAX as u128 / 1000, u64::MAX as u128 - 1, u64::MAX as u128, u64::MAX as u128 + 1, 1u128 << 100])
            .to_string(),
        (1, 1) => src.pick(&[250u32, 251, 254, 255, 256, 1000, 65_536]).to_string(),
        (1, 2) => src.pick(&["10000", "FFFFF", "ffff", "fFfF", "0x10", "G", "1G"]).to_string(),
        (1, _) => src.pick(&["256", "257", "1000", "65536"]).to_string(),
        // largest valid seconds with the largest fractional values (carry overflow)
        (2, 0) => src.pick(&[(1u64 << 32) - 1, (1 << 32) - 2]).to_string(),
        (2, 1) => src.pick(&["249", "250", "255", "0250"]).to_string(),
        (2, 2) => src.pick(&["FFFF", "0", "00000", "0000000000000001"]).to_string(),
        (2, _) => src.pick(&["255", "0", "00000000255"]).to_string(),
        (3, _) => String::new(),
        (4, _) => src.pick(&["-1", "+1", "-0", " 1", "1 ", "1.0", "1e3", "0x1", "١", "１", "\u{0}", "NaN"]).to_string(),
        (5, _) => {
            // very long digit strings
            let n = 1 + src.below(60);
            let d = *src.pick(&['0', '9', '1']);
            std::iter::repeat(d).take(n).collect()
        },
        (6, _) => {
            let n = 1 + src.below(12);
            String::from_utf8_lossy(&src.bytes(n)).to_string()
        },
        _ => src.range(0, u64::MAX).to_string(),
    }
}

impl Prop for Parse {
    type Case = String;

    fn id(&self) -> &'static str {
        "C10"
    }

    fn part(&self) -> &'static str {
        "parse"
    }

    fn width(&self) -> usize {
        40
    }

    fn gen(&self, src: &mut Src) -> String {
        match src.weighted(&[8, 1, 1]) {
            0 => {
                let n_fields = *src.pick(&[4usize, 4, 4, 4, 3, 5, 2, 1]);
                let mut parts = vec![];
                for k in 0..n_fields {
                    parts.push(field(src, k.min(3)));
                }
                let sep = *src.pick(&["-", "-", "-", "-", "--", "_", " - ", ""]);
                let mut s = parts.join(sep);
                if src.chance(1, 10) {
                    s.push_str(*src.pick(&["-", "\n", " ", "-0", "\u{0}"]));
                }
                s
            },
            1 => {
                // printed valid stamp with one character mutated
                let mut chars: Vec<char> = gen_stamp(src).hlc().to_string().chars().collect();
                let i = src.below(chars.len());
                chars[i] = *src.pick(&['-', '0', '9', 'F', 'g', ' ', '+', '\u{661}']);
                chars.into_iter().collect()
            },
            _ => {
                let n = src.below(40);
                String::from_utf8_lossy(&src.bytes(n)).to_string()
            },
        }
    }

    fn run(&self, case: &String) -> Outcome {
        // a panic is caught by the driver and reported with signature "panic"
        let res = HLCTimestamp::from_str(case);
        match res {
            Ok(ts) => {
                let printed = ts.to_string();
                let again = HLCTimestamp::from_str(&printed);
                ensure!(
                    matches!(again, Ok(t) if t == ts),
                    "parse-print-parse",
                    "{case:?} parses to {:?}, which prints as {printed:?}, which does not parse back to it",
                    Stamp::of(ts)
                );
                ensure!(ts.seconds() <= TIMESTAMP_MAX, "parse-range", "{case:?} parsed to seconds {}", ts.seconds());
                Ok(Pass { nontrivial: true, labels: vec!["accepted"] })
            },
            Err(_) => Ok(Pass { nontrivial: case.matches('-').count() >= 3, labels: vec!["rejected"] }),
        }
    }

    fn describe(&self, case: &String) -> Value {
        json!({"text": case})
    }

    fn rule(&self) -> &'static str {
        "strings assembled from 1-5 dash-separated fields, each valid, just out of range (2^32, frac 250-255, \
         5 hex digits, node 256), carry-overflow combinations, empty, signed/space/unicode digits, very long \
         digit runs or random bytes; printed valid stamps with one mutated character; random lossy-UTF8; \
         oracle: from_str returns (panic = violation) and Ok(t) implies parse(print(t)) == t; non-trivial = accepted or at least four fields present"
    }
}

/// Regression corpus: the inputs of the repaired defect D2 and other crafted boundary strings,
/// executed directly (no generator involved).
pub struct ParseCorpus;

const CORPUS: &[&str] = &[
    "4294967296-0-0-0",
    "4294967295-250-0-0",
    "4294967295-255-FFFF-255",
    "18446744073709551615-255-0-0",
    "18446744073709551615-0-0-0",
    "18446744073709551-255-0-0",
    "4294967295-249-FFFF-255",
    "0-0-0-0",
    "0-0000-0000-0000",
    "",
    "-",
    "---",
    "----",
    "1-2-3",
    "1-2-3-4-5",
    "1-2-3-4-",
    "1-0-g-1",
    "1-0-+A-1",
    "+1-0-0-0",
    "1-+0-0-0",
    "1-0-0-+0",
    "1-256-0-0",
    "1-0-10000-0",
    "1-0-0-256",
];

pub fn corpus_list() -> Vec<Vec<u64>> {
    (0..CORPUS.len() as u64).map(|i| vec![i]).collect()
}

impl Prop for ParseCorpus {
    type Case = String;

    fn id(&self) -> &'static str {
        "C10"
    }

    fn part(&self) -> &'static str {
        "parse-corpus"
    }

    fn width(&self) -> usize {
        1
    }

    fn gen(&self, src: &mut Src) -> String {
        CORPUS[(src.word() as usize) % CORPUS.len()].to_string()
    }

    fn run(&self, case: &String) -> Outcome {
        Parse.run(case)
    }

    fn describe(&self, case: &String) -> Value {
        json!({"text": case})
    }

    fn rule(&self) -> &'static str {
        "fixed regression strings (incl. the three inputs that panicked before the repair of from_str); same oracle"
    }
}

pub fn parts() -> Vec<Box<dyn DynPart>> {
    vec![
        Box::new(Gen::new(Roundtrip, 3_000_000, 300_000_000)),
        Box::new(Gen::listed(Grid, grid_list)),
        Box::new(Gen::corpus(ParseCorpus, corpus_list)),
        Box::new(Gen::new(Parse, 4_000_000, 300_000_000)),
    ]
}
