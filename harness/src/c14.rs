//! C14 — under network faults an RPC answers correctly or fails; never twice or mixed.
//! Part `stalled-reply` (in-process transport, hook H-rpc): faults *between the reply head and the reply
//! body*, delays, duplicates and drops against the real client (`RpcClient` with a timeout) and the real
//! server-side dispatch. The socket-level part (turmoil) lives in /verif/harness-sim.

use std::collections::BTreeMap;
use std::net::SocketAddr;
use std::rc::Rc;
use std::sync::atomic::{AtomicU64, Ordering};
use std::sync::Arc;
use std::time::Duration;

use datacake_rpc::verif::Verdict;
use datacake_rpc::{Channel, ErrorCode, Handler, Request, RpcClient, RpcService, Server, ServiceRegistry, Status};
use parking_lot::Mutex;
use rkyv::{Archive, Deserialize, Serialize};
use serde_json::{json, Value};

use crate::core::{Outcome, Pass, Prop, Src};
use crate::e3;
use crate::ensure;
use crate::registry::{DynPart, Gen};

#[repr(C)]
#[derive(Serialize, Deserialize, Archive, Debug, Clone, PartialEq)]
#[archive(check_bytes)]
pub struct Ping {
    pub id: u64,
    pub payload: Vec<u8>,
    pub reply_len: u32,
    pub handler_delay_ms: u32,
    /// 0 = reply normally; 1..=5 = do the work, then reply with an error status of that code and the message "refused-<id>"
    pub fail_with: u8,
}

#[repr(C)]
#[derive(Serialize, Deserialize, Archive, Debug, Clone, PartialEq)]
#[archive(check_bytes)]
pub struct Pong {
    pub id: u64,
    pub digest: u64,
    pub filler: Vec<u8>,
}

pub fn digest(id: u64, payload: &[u8]) -> u64 {
    let mut h = id ^ 0x9E37_79B9_7F4A_7C15;
    for b in payload {
        h = (h ^ *b as u64).wrapping_mul(0x100_0000_01B3);
    }
    h
}

pub fn code_of(n: u8) -> ErrorCode {
    match n {
        1 => ErrorCode::ServiceUnavailable,
        2 => ErrorCode::InternalError,
        3 => ErrorCode::InvalidPayload,
        4 => ErrorCode::ConnectionError,
        _ => ErrorCode::Timeout,
    }
}

pub struct Echo {
    pub seen: Arc<Mutex<Vec<u64>>>,
    pub calls: Arc<AtomicU64>,
}

impl RpcService for Echo {
    fn register_handlers(r: &mut ServiceRegistry<Self>) {
        r.add_handler::<Ping>();
    }
}

#[datacake_rpc::async_trait]
impl Handler<Ping> for Echo {
    type Reply = Pong;

    async fn on_message(&self, msg: Request<Ping>) -> Result<Pong, Status> {
        let m = msg.deserialize_view().map_err(Status::internal)?;
        self.calls.fetch_add(1, Ordering::Relaxed);
        self.seen.lock().push(m.id);
        if m.handler_delay_ms > 0 {
            tokio::time::sleep(Duration::from_millis(m.handler_delay_ms as u64)).await;
        }
        if m.fail_with != 0 {
            return Err(Status { code: code_of(m.fail_with), message: format!("refused-{}", m.id) });
        }
        Ok(Pong { id: m.id, digest: digest(m.id, &m.payload), filler: vec![(m.id % 251) as u8; m.reply_len as usize] })
    }
}

#[derive(Debug, Clone)]
pub struct Req {
    pub payload_len: usize,
    pub reply_len: usize,
    pub handler_delay_ms: u32,
    pub fate: Verdict,
    /// how the client that sends this request was obtained: 0 = `new` + `set_timeout`, 1 = a clone of a
    /// configured client, 2 = a clone of a clone, 3 = `set_timeout(10 T)` replaced by `set_timeout(T)`, 4 = a clone and a
    /// `new_client` handle of the same channel are given much longer timeouts after this one was configured
    pub client_form: u8,
    /// which sending method is used: 0 = `send`, 1 = `create_rpc_context().set_header(..).send`, 2 = `send_owned`
    pub route: u8,
    /// 0 = the handler replies normally, 1..=5 = it does its work and then replies with an error status of that code
    pub fail_with: u8,
}

#[derive(Debug, Clone)]
pub struct Case {
    pub timeout_ms: u64,
    /// groups of requests sent concurrently
    pub waves: Vec<Vec<Req>>,
}

pub struct Stalled;

fn gen_req(src: &mut Src, t: u64) -> Req {
    let around = |src: &mut Src| -> u64 {
        let base = *src.pick(&[0u64, 1, t / 2, t.saturating_sub(1), t, t + 1, 2 * t, 10 * t]);
        base
    };
    let fate = match src.weighted(&[5, 4, 2, 1, 1, 1]) {
        0 => Verdict::Deliver,
        1 => Verdict::StallBody(Duration::from_millis(around(src))),
        2 => Verdict::Delay(Duration::from_millis(around(src))),
        3 => Verdict::FailBefore,
        4 => Verdict::FailAfter,
        _ => Verdict::Duplicate,
    };
    Req {
        payload_len: *src.pick(&[0usize, 1, 100, 5_000, 70_000]),
        reply_len: *src.pick(&[0usize, 1, 100, 5_000, 70_000]),
        handler_delay_ms: if src.chance(1, 4) { around(src) as u32 } else { 0 },
        fate,
        client_form: src.weighted(&[3, 3, 1, 1, 2]) as u8,
        route: src.weighted(&[3, 1, 1]) as u8,
        fail_with: *src.pick(&[0u8, 0, 0, 0, 0, 0, 1, 1, 2, 3, 4, 5]),
    }
}

impl Prop for Stalled {
    type Case = Case;

    fn id(&self) -> &'static str {
        "C14"
    }

    fn part(&self) -> &'static str {
        "stalled-reply"
    }

    fn width(&self) -> usize {
        80
    }

    fn shrink_budget(&self) -> usize {
        600
    }

    fn gen(&self, src: &mut Src) -> Case {
        let timeout_ms = *src.pick(&[500u64, 2_000, 5_000, 500, 2_000, 0]);
        let n_waves = 1 + src.below(3);
        let waves = (0..n_waves).map(|_| (0..1 + src.below(4)).map(|_| gen_req(src, timeout_ms)).collect()).collect();
        Case { timeout_ms, waves }
    }

    fn run(&self, case: &Case) -> Outcome {
        e3::sim(1, 70_000_000, BTreeMap::new(), |_net| run(case))
    }

    fn describe(&self, case: &Case) -> Value {
        json!({
            "client_timeout_ms": case.timeout_ms,
            "waves_of_concurrent_requests": case.waves.iter().map(|w| w.iter().map(|r| json!({
                "payload_len": r.payload_len, "reply_len": r.reply_len, "handler_delay_ms": r.handler_delay_ms, "fate": format!("{:?}", r.fate),
                "client": (["new+set_timeout", "clone", "clone of clone", "set_timeout twice", "sibling handles on the same channel get longer timeouts afterwards"][r.client_form as usize]),
                "route": (["send", "context+header send", "send_owned"][r.route as usize]),
                "handler_replies": (["ok", "error: service unavailable", "error: internal", "error: invalid payload", "error: connection", "error: timeout"][r.fail_with as usize]),
            })).collect::<Vec<_>>()).collect::<Vec<_>>(),
        })
    }

    fn rule(&self) -> &'static str {
        "1-3 waves of 1-4 concurrent requests from a real RpcClient with a timeout T in {0,0.5,2,5 s} (obtained by new+set_timeout, \
         by cloning a configured client once or twice, by replacing an earlier timeout, or with sibling handles of the same channel that are given longer timeouts afterwards; sent with send, send_owned or a \
         context with a header) to a real server \
         state over the in-process transport; per request a generated fate: deliver, reply head at once but body \
         stalled by d, request delayed by d, request dropped, reply dropped, duplicated, plus optional handler \
         delay, and (one request in two) a handler that does its work and then replies with an error status of any of the five codes, with d around 0, T/2, T-1, T, T+1, 2T, 10T; payload / reply sizes 0 B - 70 KB; oracle: every request \
         ends as Ok(reply carrying its own id and the digest of its own payload), as the error status its own handler replied with, or as a ConnectionError/Timeout \
         status, within T + 5 ms of simulated time; a request whose reply the client saw was executed by the handler; \
         no id is executed more often than it was delivered; non-trivial = a fault with d > 0 on a request"
    }
}

/// The documented ways to end up with a client whose timeout is `t`.
fn make_client(addr: SocketAddr, t: Duration, form: u8) -> RpcClient<Echo> {
    let mut base = RpcClient::<Echo>::new(Channel::connect(addr));
    match form {
        0 => {
            base.set_timeout(t);
            base
        },
        1 => {
            base.set_timeout(t);
            base.clone()
        },
        2 => {
            base.set_timeout(t);
            let c = base.clone();
            drop(base);
            c.clone()
        },
        3 => {
            base.set_timeout(t * 10);
            base.set_timeout(t);
            base
        },
        _ => {
            // a sibling handle on the same channel is given a much longer timeout afterwards; this handle keeps its own
            base.set_timeout(t);
            let mut sibling = base.clone();
            sibling.set_timeout(t * 10 + Duration::from_secs(30));
            let mut other = base.new_client::<Echo>();
            other.set_timeout(t * 10 + Duration::from_secs(60));
            drop((sibling, other));
            base
        },
    }
}

async fn run(case: &Case) -> Outcome {
    let addr: SocketAddr = ([10, 5, 0, 1], 7000).into();
    let server = Server::listen(addr).await.expect("listen");
    let seen = Arc::new(Mutex::new(vec![]));
    let calls = Arc::new(AtomicU64::new(0));
    server.add_service(Echo { seen: seen.clone(), calls: calls.clone() });

    // fates are looked up by the request id, which the policy cannot see: requests of one wave are
    // issued in order, each taking the next fate from a queue before it is sent
    let queue: Rc<std::cell::RefCell<std::collections::VecDeque<Verdict>>> = Rc::new(Default::default());
    let q2 = queue.clone();
    datacake_rpc::verif::set_policy(Some(Rc::new(move |_dst, _path| q2.borrow_mut().pop_front().unwrap_or(Verdict::Deliver))));

    let t = Duration::from_millis(case.timeout_ms);
    let mut next_id = 1u64;
    let mut faulty = false;
    let mut stalled_beyond = false;
    for wave in &case.waves {
        let mut futs = vec![];
        for r in wave {
            let id = next_id;
            next_id += 1;
            queue.borrow_mut().push_back(r.fate);
            let client = make_client(addr, t, r.client_form);
            let payload: Vec<u8> = (0..r.payload_len).map(|i| (i as u64 ^ id) as u8).collect();
            let msg = Ping { id, payload: payload.clone(), reply_len: r.reply_len as u32, handler_delay_ms: r.handler_delay_ms, fail_with: r.fail_with };
            let r = r.clone();
            futs.push(async move {
                let started = tokio::time::Instant::now();
                let res = match r.route {
                    0 => client.send(&msg).await,
                    1 => {
                        client
                            .create_rpc_context()
                            .set_header("x-verif", datacake_rpc::http::HeaderValue::from_static("1"))
                            .send(&msg)
                            .await
                    },
                    _ => client.send_owned(msg.clone()).await,
                }
                .map(|v| (v.id.value(), v.digest.value(), v.filler.len()));
                (id, payload, r, res, started.elapsed())
            });
        }
        let results = futures::future::join_all(futs).await;
        for (id, payload, r, res, elapsed) in results {
            match r.fate {
                Verdict::StallBody(d) | Verdict::Delay(d) if d > Duration::ZERO => {
                    faulty = true;
                    if d > t {
                        stalled_beyond = true;
                    }
                },
                _ => {},
            }
            ensure!(
                elapsed <= t + Duration::from_millis(5),
                "timeout-exceeded",
                "request {id} ({:?}) with a client timeout of {:?} was answered after {:?}: {:?}",
                r.fate,
                t,
                elapsed,
                res.as_ref().map(|_| "Ok").map_err(|s| format!("{:?}", s.code))
            );
            match res {
                Ok((rid, dg, flen)) => {
                    ensure!(
                        r.fail_with == 0,
                        "reply-the-handler-never-computed",
                        "request {id} was answered Ok although its handler replied with an error status (code {})",
                        r.fail_with
                    );
                    ensure!(
                        rid == id && dg == digest(id, &payload) && flen == r.reply_len,
                        "reply-of-another-request",
                        "request {id} received the reply id={rid} digest={dg:#x} filler={flen} (expected digest {:#x}, filler {})",
                        digest(id, &payload),
                        r.reply_len
                    );
                    ensure!(seen.lock().contains(&id), "reply-without-execution", "request {id} got a reply but the handler never saw it");
                    ensure!(
                        !matches!(r.fate, Verdict::FailBefore | Verdict::FailAfter),
                        "reply-through-dropped-message",
                        "request {id} was dropped ({:?}) but returned a reply",
                        r.fate
                    );
                },
                Err(status) if r.fail_with != 0 && status.code == code_of(r.fail_with) && !matches!(status.code, ErrorCode::ConnectionError | ErrorCode::Timeout) => {
                    // the reply the handler computed for this very request
                    ensure!(
                        status.message == format!("refused-{id}"),
                        "reply-of-another-request",
                        "request {id} received the error reply {:?}; its handler replied \"refused-{id}\"",
                        status
                    );
                    ensure!(seen.lock().contains(&id), "reply-without-execution", "request {id} got its handler's error reply but the handler never saw it");
                    ensure!(
                        !matches!(r.fate, Verdict::FailBefore | Verdict::FailAfter),
                        "reply-through-dropped-message",
                        "request {id} was dropped ({:?}) but returned its handler's reply",
                        r.fate
                    );
                },
                Err(status) => {
                    ensure!(
                        matches!(status.code, ErrorCode::ConnectionError | ErrorCode::Timeout),
                        "wrong-error-kind",
                        "request {id} ({:?}) failed with {:?}; only connection / timeout errors are allowed here",
                        r.fate,
                        status
                    );
                    // a request that was delivered promptly and answered promptly must not fail
                    // (the in-process transport runs a duplicated request's two executions one after the other)
                    let executions = if matches!(r.fate, Verdict::Duplicate) { 2 } else { 1 };
                    let benign = matches!(r.fate, Verdict::Deliver | Verdict::Duplicate)
                        && r.fail_with == 0
                        && (r.handler_delay_ms as u64) * executions + 10 < case.timeout_ms;
                    ensure!(!benign, "spurious-failure", "request {id} ({:?}, handler delay {} ms) failed with {:?}", r.fate, r.handler_delay_ms, status);
                },
            }
        }
    }
    // let everything still in flight finish, then count executions
    tokio::time::sleep(Duration::from_millis(60_000)).await;
    let seen = seen.lock().clone();
    let mut id = 1u64;
    for wave in &case.waves {
        for r in wave {
            let n = seen.iter().filter(|x| **x == id).count();
            let max = match r.fate {
                Verdict::FailBefore => 0,
                Verdict::Duplicate => 2,
                _ => 1,
            };
            ensure!(n <= max, "executed-too-often", "request {id} ({:?}) was executed {n} times by the handler", r.fate);
            id += 1;
        }
    }
    datacake_rpc::verif::unregister(addr);
    server.shutdown();
    let mut labels = vec![];
    if faulty {
        labels.push("delayed_or_stalled");
    }
    if stalled_beyond {
        labels.push("fault_longer_than_timeout");
    }
    if case.waves.iter().any(|w| w.len() > 1) {
        labels.push("concurrent_requests");
    }
    Ok(Pass { nontrivial: faulty, labels })
}

pub fn parts() -> Vec<Box<dyn DynPart>> {
    vec![Box::new(Gen::new(Stalled, 20_000, 1_000_000))]
}
