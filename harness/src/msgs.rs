//! Message types used by the RPC checks (C12, C13, C14-stall).

use std::collections::BTreeMap;

use rkyv::{Archive, Deserialize, Serialize};

#[repr(C)]
#[derive(Serialize, Deserialize, Archive, Debug, Clone, PartialEq, Eq)]
#[archive(check_bytes)]
#[archive_attr(derive(Debug))]
pub struct Fixed {
    pub a: u32,
    pub b: u64,
    pub c: i64,
    pub buf: [u8; 12],
}

#[repr(C)]
#[derive(Serialize, Deserialize, Archive, Debug, Clone, PartialEq, Eq)]
#[archive(check_bytes)]
#[archive_attr(derive(Debug))]
pub struct Text {
    pub s: String,
}

#[repr(C)]
#[derive(Serialize, Deserialize, Archive, Debug, Clone, PartialEq, Eq)]
#[archive(check_bytes)]
#[archive_attr(derive(Debug))]
pub struct Blob {
    pub id: u64,
    pub data: Vec<u8>,
}

#[repr(C)]
#[derive(Serialize, Deserialize, Archive, Debug, Clone, PartialEq, Eq)]
#[archive(check_bytes)]
#[archive_attr(derive(Debug))]
pub struct Nested {
    pub name: String,
    pub inner: Option<Blob>,
    pub list: Vec<Text>,
    pub map: BTreeMap<String, u64>,
    pub tail: u16,
}

#[repr(C)]
#[derive(Serialize, Deserialize, Archive, Debug, Clone, PartialEq, Eq)]
#[archive(check_bytes)]
#[archive_attr(derive(Debug))]
pub struct Unit;

/// Roots with an alignment below 4 and a size that is not a multiple of 4 (the frame's trailer then follows a body
/// whose length is odd or 2 mod 4).
#[repr(C)]
#[derive(Serialize, Deserialize, Archive, Debug, Clone, PartialEq, Eq)]
#[archive(check_bytes)]
#[archive_attr(derive(Debug))]
pub struct Small {
    pub a: u8,
    pub flag: bool,
    pub b: u8,
}

#[repr(C)]
#[derive(Serialize, Deserialize, Archive, Debug, Clone, PartialEq, Eq)]
#[archive(check_bytes)]
#[archive_attr(derive(Debug))]
pub struct Six {
    pub bytes: [u8; 6],
    pub tail: u16,
    pub last: u8,
}
