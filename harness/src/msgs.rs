//! Message types used by the RPC checks (C12, C13, C14-stall).

use std::collections::BTreeMap;

use rkyv::{Archive, Deserialize, Serialize};

#[repr(C)]
#[derive(Serialize, Deserialize, Archive, Debug, Clone, PartialEq, Eq)]
#[archive(check_bytes)]
pub struct Fixed {
    pub a: u32,
    pub b: u64,
    pub c: i64,
    pub buf: [u8; 12],
}

#[repr(C)]
#[derive(Serialize, Deserialize, Archive, Debug, Clone, PartialEq, Eq)]
#[archive(check_bytes)]
pub struct Text {
    pub s: String,
}

#[repr(C)]
#[derive(Serialize, Deserialize, Archive, Debug, Clone, PartialEq, Eq)]
#[archive(check_bytes)]
pub struct Blob {
    pub id: u64,
    pub data: Vec<u8>,
}

#[repr(C)]
#[derive(Serialize, Deserialize, Archive, Debug, Clone, PartialEq, Eq)]
#[archive(check_bytes)]
pub struct Nested {
    pub name: String,
    pub inner: Option<Blob>,
    pub list: Vec<Text>,
    pub map: BTreeMap<String, u64>,
    pub tail: u16,
}

#[repr(C)]
#[derive(Serialize, Deserialize, Archive, Debug, Clone, PartialEq, Eq)]
#[archive(check_bytes)]
pub struct Unit;
