//! C08 — purging tombstones is invisible and deletes stay deleted.
//! Part `local`: facts about one replica (E1). The cluster fact lives in `c08_cluster` (E2).

use datacake_crdt::OrSWotSet;
use serde_json::{json, Value};

use crate::core::{Outcome, Pass, Prop, Src};
use crate::ensure;
use crate::model::{apply, view, SetOp, Stamp};
use crate::registry::{DynPart, Gen};

#[derive(Debug, Clone)]
pub enum Step {
    Op(SetOp, usize),
    /// many operations applied as one step (part `local-bulk`): the checks run after the whole run
    Bulk(Vec<SetOp>, usize),
    Purge,
}

#[derive(Debug, Clone)]
pub struct Case {
    pub steps: Vec<Step>,
}

pub struct Local;

impl Prop for Local {
    type Case = Case;

    fn id(&self) -> &'static str {
        "C08"
    }

    fn part(&self) -> &'static str {
        "local"
    }

    fn width(&self) -> usize {
        200
    }

    fn gen(&self, src: &mut Src) -> Case {
        let n = 2 + src.below(22);
        let n_keys = 1 + src.below(4) as u64;
        let nodes: Vec<u8> = match src.below(3) {
            0 => vec![1],
            1 => vec![1, 2],
            _ => vec![0, 9, 255],
        };
        let mut t = *src.pick(&[100_000u64, 3_700, 1_000_000]);
        let mut counter = 0u16;
        let mut ops = vec![];
        for _ in 0..n {
            let step = *src.pick(&[0u64, 1, 600, 1_800, 3_599, 3_600, 3_601, 7_200]);
            t += step;
            counter = if step == 0 { counter + 1 } else { 0 };
            let frac = if step == 0 { 0 } else { *src.pick(&[0u8, 1, 249]) };
            let node = *src.pick(&nodes);
            let key = 1 + src.below64(n_keys);
            let delete = src.chance(1, 2);
            ops.push(SetOp { key, stamp: Stamp { secs: t, frac, counter, node }, delete });
        }
        // mostly timely arrival; sometimes adjacent swaps or a fully shuffled history
        match src.weighted(&[5, 3, 1]) {
            0 => {},
            1 => {
                for i in 0..ops.len().saturating_sub(1) {
                    if src.chance(1, 4) {
                        ops.swap(i, i + 1);
                    }
                }
            },
            _ => {
                let p = src.permutation(ops.len());
                ops = p.into_iter().map(|i| ops[i]).collect();
            },
        }
        let mut steps = vec![];
        for op in ops {
            let source = src.below(2);
            steps.push(Step::Op(op, source));
            if src.chance(1, 4) {
                steps.push(Step::Purge);
            }
        }
        steps.push(Step::Purge);
        // (since the seeded change `C08p`) one case in three delivers one or two operations a second time, through the
        // other source, at a later point: a duplicate the set has to refuse, and the one way both sources of a replica
        // come to report the very same newest stamp for a node
        if src.chance(1, 3) {
            for _ in 0..1 + src.below(2) {
                let ops_at: Vec<usize> = steps.iter().enumerate().filter(|(_, s)| matches!(s, Step::Op(..))).map(|(i, _)| i).collect();
                let j = ops_at[src.below(ops_at.len())];
                if let Step::Op(op, source) = steps[j].clone() {
                    let at = j + 1 + src.below(steps.len() - j);
                    steps.insert(at, Step::Op(op, 1 - source));
                }
            }
        }
        Case { steps }
    }

    fn run(&self, case: &Case) -> Outcome {
        run(case)
    }

    fn describe(&self, case: &Case) -> Value {
        json!(case
            .steps
            .iter()
            .map(|s| match s {
                Step::Op(o, src) => {
                    let mut j = o.json();
                    j["source"] = json!(src);
                    j
                },
                Step::Bulk(..) => json!("bulk"),
                Step::Purge => json!("purge"),
            })
            .collect::<Vec<_>>())
    }

    fn rule(&self) -> &'static str {
        "one OrSWotSet<2>, 2-23 inserts/deletes over 1-4 keys from 1-3 origins with stamps advancing in steps of \
         0 s .. 2 h (so cut-offs move past tombstones), both sources, arrival timely / locally swapped / shuffled, \
         purge_old_deletes at generated points; oracle at each purge: live ids+stamps unchanged, returned list is a \
         subset of the previous tombstones (same stamps), none of them a live id, and exactly those vanished; for every tombstone purged so \
         far and probe stamps <= it from the deleting node (same key and a fresh key): will_apply false, \
         insert/delete on a clone return false and change nothing -- re-checked after every later step; one case in three delivers one or two operations a second time through the other source; \
         a twin replica that never purges gets the same operations and, until the first operation arrives an hour or more after its stamp, shows the same live ids and stamps; non-trivial = >=1 tombstone purged"
    }
}

type Set = OrSWotSet<2>;

fn probes(t: Stamp) -> Vec<Stamp> {
    let mut v = vec![t];
    if t.counter > 0 {
        v.push(Stamp { counter: t.counter - 1, ..t });
        v.push(Stamp { counter: 0, ..t });
    }
    if t.frac > 0 {
        v.push(Stamp { frac: t.frac - 1, counter: 65_535, ..t });
    }
    if t.secs > 0 {
        v.push(Stamp { secs: t.secs - 1, frac: 249, counter: 65_535, ..t });
    }
    if t.secs > 3_600 {
        v.push(Stamp { secs: t.secs - 3_600, ..t });
    }
    v
}

/// The same facts for a set with thousands of entries: every probe through `will_apply`, the purged stamp itself also
/// applied to a clone (both operation kinds, both sources) and observed through `get`.
fn check_rejected_light(set: &Set, key: u64, t_d: Stamp, when: &str) -> Result<(), crate::core::Fail> {
    for p in probes(t_d) {
        for k in [key, 777_777_777] {
            ensure!(
                !set.will_apply(k, p.hlc()),
                "purged-delete-not-rejected",
                "{when}: tombstone ({key},{:?}) was purged, yet will_apply({k},{:?}) is true",
                t_d,
                p
            );
        }
    }
    for source in 0..2 {
        for delete in [false, true] {
            let mut c = set.clone();
            let r = apply(&mut c, source, &SetOp { key, stamp: t_d, delete });
            ensure!(
                !r && c.get(&key) == set.get(&key),
                "purged-delete-not-rejected",
                "{when}: tombstone ({key},{:?}) was purged, yet {} of the key at that stamp via source {source} returned {r} / changed the set",
                t_d,
                if delete { "delete" } else { "insert" }
            );
        }
    }
    Ok(())
}

fn check_rejected(set: &Set, key: u64, t_d: Stamp, when: &str, big: bool) -> Result<(), crate::core::Fail> {
    if big {
        return check_rejected_light(set, key, t_d, when);
    }
    let before = view(set);
    for p in probes(t_d) {
        for k in [key, 777_777] {
            ensure!(
                !set.will_apply(k, p.hlc()),
                "purged-delete-not-rejected",
                "{when}: tombstone ({key},{:?}) was purged, yet will_apply({k},{:?}) is true",
                t_d,
                p
            );
            for source in 0..2 {
                for delete in [false, true] {
                    let mut c = set.clone();
                    let r = apply(&mut c, source, &SetOp { key: k, stamp: p, delete });
                    ensure!(
                        !r && view(&c) == before,
                        "purged-delete-not-rejected",
                        "{when}: tombstone ({key},{:?}) was purged, yet {} of key {k} at {:?} via source {source} returned {r} / changed the set",
                        t_d,
                        if delete { "delete" } else { "insert" },
                        p
                    );
                }
            }
        }
    }
    Ok(())
}

/// Part `local-bulk` (added after the seeded change `C08l`): the same facts on a replica that holds hundreds to
/// thousands of tombstones at once, so that anything a purge does in batches, pages or bounded buffers is crossed.
pub struct LocalBulk;

pub const BULK_SIZES: [usize; 14] = [1, 2, 63, 64, 65, 255, 256, 257, 1023, 1024, 1025, 2049, 4097, 9000];

impl Prop for LocalBulk {
    type Case = Case;

    fn id(&self) -> &'static str {
        "C08"
    }

    fn part(&self) -> &'static str {
        "local-bulk"
    }

    fn width(&self) -> usize {
        120
    }

    fn gen(&self, src: &mut Src) -> Case {
        let nodes: Vec<u8> = match src.below(3) {
            0 => vec![1],
            1 => vec![1, 2],
            _ => vec![0, 9, 255],
        };
        let mut t = *src.pick(&[100_000u64, 3_700, 1_000_000]);
        let mut steps = vec![];
        let n_stages = 2 + src.below(6);
        let mut next_key = 1u64;
        for _ in 0..n_stages {
            t += *src.pick(&[1u64, 600, 1_800, 3_599, 3_600, 3_601, 7_200]);
            let node = *src.pick(&nodes);
            let source = src.below(2);
            match src.weighted(&[4, 3, 2]) {
                // a bulk of deletes (one shared time, ascending counters: what del_many / a batch carries), on fresh
                // keys or on keys an earlier stage wrote
                0 | 1 => {
                    let n = *src.pick(&BULK_SIZES);
                    let first = if next_key > 1 && src.chance(1, 2) { 1 + src.below64(next_key) } else { next_key };
                    let delete = src.weighted(&[3, 1]) == 0;
                    let shared = src.chance(1, 3);
                    let ops = (0..n)
                        .map(|i| SetOp {
                            key: first + i as u64,
                            stamp: Stamp { secs: t + if shared { 0 } else { (i / 60_000) as u64 }, frac: 0, counter: if shared { 0 } else { (i % 60_000) as u16 }, node },
                            delete,
                        })
                        .collect::<Vec<_>>();
                    next_key = next_key.max(first + n as u64);
                    // a shared stamp is legal only for distinct keys of ONE bulk request, which is what this is
                    steps.push(Step::Bulk(ops, source));
                },
                // a single recent operation (keeps tombstones that are NOT purgeable in the set, moves cut-offs)
                _ => {
                    let key = 1 + src.below64(next_key.max(2));
                    let delete = src.chance(1, 2);
                    steps.push(Step::Op(SetOp { key, stamp: Stamp { secs: t, frac: *src.pick(&[0u8, 1, 249]), counter: 0, node }, delete }, source));
                    // the same origin seen on the other source too, so that its cut-off really advances
                    if src.chance(1, 2) {
                        let key = 1 + src.below64(next_key.max(2));
                        steps.push(Step::Op(SetOp { key, stamp: Stamp { secs: t, frac: 0, counter: 7, node }, delete: src.chance(1, 2) }, 1 - source));
                    }
                },
            }
            if src.chance(1, 2) {
                steps.push(Step::Purge);
            }
        }
        steps.push(Step::Purge);
        Case { steps }
    }

    fn run(&self, case: &Case) -> Outcome {
        run(case)
    }

    fn describe(&self, case: &Case) -> Value {
        json!(case
            .steps
            .iter()
            .map(|s| match s {
                Step::Op(o, src) => {
                    let mut j = o.json();
                    j["source"] = json!(src);
                    j
                },
                Step::Bulk(ops, src) => json!({"bulk": ops.len(), "first": ops.first().map(|o| o.json()), "last": ops.last().map(|o| o.json()), "source": src}),
                Step::Purge => json!("purge"),
            })
            .collect::<Vec<_>>())
    }

    fn rule(&self) -> &'static str {
        "one OrSWotSet<2>, 2-7 stages from 1-3 origins stepping 1 s .. 2 h: bulks of 1 .. 9000 deletes or inserts (sizes on and around \
         powers of two; one shared stamp or ascending counters) on fresh or existing keys, single recent operations on both sources, \
         purges at generated points and at the end; oracle at each purge as in part `local` (live unchanged, returned list = exactly \
         the tombstones that vanished, each with its stamp, none live); rejection probes on a sample of the purged tombstones; \
         non-trivial = one purge removed more than 1000 tombstones while at least one other tombstone had to stay"
    }
}

fn run(case: &Case) -> Outcome {
    let mut set = Set::default();
    let mut purged: Vec<(u64, Stamp)> = vec![];
    let mut purge_calls = 0;
    let mut big_partial_purge = false;
    let bulk = case.steps.iter().any(|s| matches!(s, Step::Bulk(..)));
    // The cluster fact on one replica: a twin that never purges receives the same operations. As long as every operation
    // has arrived less than the forgiveness period after its stamp (time = the newest stamp that has arrived; no skew in
    // this part), both must show the same live ids and stamps. The first late arrival ends the comparison for good.
    let mut twin = Set::default();
    let mut now = 0u64;
    let mut timely = true;
    for (i, step) in case.steps.iter().enumerate() {
        match step {
            Step::Op(op, source) => {
                if now >= op.stamp.secs + 3_600 {
                    timely = false;
                }
                now = now.max(op.stamp.secs);
                apply(&mut set, *source, op);
                if !bulk && timely {
                    apply(&mut twin, *source, op);
                    let (a, b) = (view(&set).live, view(&twin).live);
                    ensure!(
                        a == b,
                        "purging-replica-differs-from-never-purging",
                        "step {i}: every operation so far arrived less than an hour after its stamp, yet the purging replica shows {:?} and a replica that never purges shows {:?}",
                        a,
                        b
                    );
                }
            },
            Step::Bulk(ops, source) => {
                for op in ops {
                    apply(&mut set, *source, op);
                }
            },
            Step::Purge => {
                purge_calls += 1;
                let before = view(&set);
                let removed = set.purge_old_deletes();
                let after = view(&set);
                ensure!(
                    before.live == after.live,
                    "purge-changed-live",
                    "step {i}: purge changed the live ids: {:?} -> {:?}",
                    before.live,
                    after.live
                );
                let mut expect_dead = before.dead.clone();
                for (k, t) in &removed {
                    let t = Stamp::of(*t);
                    ensure!(
                        before.dead.get(k) == Some(&t),
                        "purge-returned-non-tombstone",
                        "step {i}: purge returned ({k},{:?}) which was not a tombstone (tombstones {:?})",
                        t,
                        before.dead
                    );
                    ensure!(expect_dead.remove(k).is_some(), "purge-returned-duplicate", "step {i}: purge returned key {k} twice");
                    ensure!(
                        !before.live.contains_key(k),
                        "purge-returned-live-key",
                        "step {i}: purge returned key {k}, which is live at {:?} (the caller removes the returned ids from storage)",
                        before.live.get(k)
                    );
                    purged.push((*k, t));
                }
                if removed.len() > 1000 && !expect_dead.is_empty() {
                    big_partial_purge = true;
                }
                ensure!(
                    after.dead == expect_dead,
                    "purge-removed-other",
                    "step {i}: tombstones after purge {:?}, expected {:?} (returned {:?})",
                    after.dead,
                    expect_dead,
                    removed
                );
            },
        }
        if purged.len() <= 24 {
            for (k, t) in &purged {
                check_rejected(&set, *k, *t, &format!("after step {i}"), bulk)?;
            }
        } else {
            // a sample: the first, the last and four in between
            let n = purged.len();
            for j in [0, n / 5, 2 * n / 5, 3 * n / 5, 4 * n / 5, n - 1] {
                let (k, t) = purged[j];
                check_rejected(&set, k, t, &format!("after step {i}"), bulk)?;
            }
        }
    }
    let mut labels = vec![];
    if big_partial_purge {
        labels.push("purged>1000-while-others-stay");
    }
    if purged.len() > 1000 {
        labels.push("purged>1000");
    }
    if !purged.is_empty() {
        labels.push("purged>=1");
    }
    if purged.len() >= 3 {
        labels.push("purged>=3");
    }
    if purge_calls >= 3 {
        labels.push("purge_calls>=3");
    }
    Ok(Pass { nontrivial: if bulk { big_partial_purge } else { !purged.is_empty() }, labels })
}

/// Exhaustive small scope for the local facts ("for all reachable sets"): every arrival sequence of 1-4 operations with
/// distinct stamps out of six stamps from two origins (an old stamp of origin 2; origin 1 at 100000 s, twice 1000 s later, twice 4700 s later), keys {1,2}, insert / delete,
/// either source, a purge after any subset of the operations and always at the end.
/// Words: [k, purge mask, (stamp index, bits: key | kind | source) x k].
pub struct LocalSmall;

fn small_stamps() -> [Stamp; 6] {
    // origin 1 deletes at 100 000 s; two of its stamps lie 1000 s later (both sources can move past the delete by LESS than a
    // forgiveness period: a purge must not bite), two lie 4700 s later (both sources can move past it by more: a purge may
    // bite); origin 2 has a stamp older than all of them (the timely, older operation that must stay refused / lose)
    let s = |secs: u64, node: u8| Stamp { secs, frac: 0, counter: 0, node };
    [s(99_000, 2), s(100_000, 1), s(101_000, 1), s(101_001, 1), s(104_700, 1), s(104_701, 1)]
}

fn small_space_with(full_k4: bool) -> Vec<Vec<u64>> {
    let mut out = vec![];
    for k in 1..=4usize {
        // ordered selections of k distinct stamp indices
        let mut sel: Vec<Vec<u64>> = vec![vec![]];
        for _ in 0..k {
            let mut next = vec![];
            for v in &sel {
                for i in 0..6u64 {
                    if !v.contains(&i) {
                        let mut w = v.clone();
                        w.push(i);
                        next.push(w);
                    }
                }
            }
            sel = next;
        }
        let masks: Vec<u64> = if k == 4 && !full_k4 { vec![0, 1, 2, 4, 8, 15] } else { (0..(1u64 << k)).collect() };
        for order in &sel {
            for bits in 0..8u64.pow(k as u32) {
                for m in &masks {
                    let mut w = vec![k as u64, *m];
                    for (j, si) in order.iter().enumerate() {
                        w.push(*si);
                        w.push((bits >> (3 * j)) & 7);
                    }
                    out.push(w);
                }
            }
        }
    }
    out
}

pub fn small_space() -> Vec<Vec<u64>> {
    small_space_with(false)
}

pub fn small_space_thorough() -> Vec<Vec<u64>> {
    small_space_with(true)
}

impl Prop for LocalSmall {
    type Case = Case;

    fn id(&self) -> &'static str {
        "C08"
    }

    fn part(&self) -> &'static str {
        "local-small-scope"
    }

    fn width(&self) -> usize {
        10
    }

    fn gen(&self, src: &mut Src) -> Case {
        let stamps = small_stamps();
        let k = src.word().clamp(1, 4) as usize;
        let mask = src.word();
        let mut steps = vec![];
        let mut seen = std::collections::BTreeSet::new();
        for j in 0..k {
            let si = (src.word() % 6) as usize;
            let bits = src.word();
            if !seen.insert(si) {
                continue; // cannot occur in the enumerated space
            }
            steps.push(Step::Op(SetOp { key: 1 + (bits & 1), stamp: stamps[si], delete: bits & 2 != 0 }, ((bits >> 2) & 1) as usize));
            if (mask >> j) & 1 == 1 {
                steps.push(Step::Purge);
            }
        }
        steps.push(Step::Purge);
        Case { steps }
    }

    fn run(&self, case: &Case) -> Outcome {
        run(case)
    }

    fn describe(&self, case: &Case) -> Value {
        Local.describe(case)
    }

    fn rule(&self) -> &'static str {
        "exhaustive: every arrival sequence of 1-4 operations with distinct stamps out of six (origin 2 at 99000 s; origin 1 at 100000 s, \
         101000 s, 101001 s, 104700 s, 104701 s: both sources can move past a delete by less and by more than a forgiveness period), keys \
         {1,2}, insert / delete, source 0 / 1, a purge after every subset of the operations (sequences of four, quick tier: no purge, a \
         purge after one of them, or after each) and one at the end; same oracle as part local"
    }
}

pub fn parts() -> Vec<Box<dyn DynPart>> {
    vec![
        Box::new(Gen::new(Local, 1_000_000, 60_000_000)),
        Box::new(Gen::new(LocalBulk, 10_000, 500_000)),
        Box::new(Gen::listed2(LocalSmall, small_space, small_space_thorough)),
    ]
}
