//! C03 — merging replica states is commutative, associative and idempotent.

use datacake_crdt::OrSWotSet;
use serde_json::{json, Value};

use crate::core::{Outcome, Pass, Prop, Src};
use crate::ensure;
use crate::model::{view, Stamp};
use crate::registry::{DynPart, Gen};
use crate::replicas::{build, gen_plan, gen_pool, plan_json, pool_json, Mode, Pool, ReplicaPlan};

#[derive(Debug, Clone)]
pub struct Case {
    pub sources: usize,
    pub pool: Pool,
    pub plans: [ReplicaPlan; 3],
    /// replica i has already merged replica pre[i] (if any) before the laws are checked
    pub pre: [Option<usize>; 3],
    /// two merge schedules over {0,1,2} with repetitions, applied to a copy of replica 0
    pub sched_a: Vec<usize>,
    pub sched_b: Vec<usize>,
    /// which wall clock the process shows while the case runs (see `model::with_wall`)
    pub wall: u8,
}

pub struct C03;

fn sched(src: &mut Src) -> Vec<usize> {
    // a permutation of {1,2} followed by 0-3 repetitions of arbitrary replicas (incl. itself)
    let mut s: Vec<usize> = if src.chance(1, 2) { vec![2, 1] } else { vec![1, 2] };
    for _ in 0..src.below(4) {
        let pos = src.below(s.len() + 1);
        s.insert(pos, src.below(3));
    }
    s
}

impl Prop for C03 {
    type Case = Case;

    fn id(&self) -> &'static str {
        "C03"
    }

    fn part(&self) -> &'static str {
        "merge-laws"
    }

    fn width(&self) -> usize {
        160
    }

    fn gen(&self, src: &mut Src) -> Case {
        let sources = 1 + src.below(2);
        let pool = if src.chance(1, 600) { crate::replicas::gen_pool_big(src) } else { gen_pool(src, 9) };
        let plans = [gen_plan(src, &pool, sources), gen_plan(src, &pool, sources), gen_plan(src, &pool, sources)];
        let mut pre = [None; 3];
        for (i, p) in pre.iter_mut().enumerate() {
            if src.chance(1, 5) {
                let other = (i + 1 + src.below(2)) % 3;
                *p = Some(other);
            }
        }
        let (sched_a, sched_b) = (sched(src), sched(src));
        Case { sources, pool, plans, pre, sched_a, sched_b, wall: src.below(3) as u8 }
    }

    fn run(&self, case: &Case) -> Outcome {
        crate::model::with_wall(case.wall, || match case.sources {
            1 => run_n::<1>(case),
            _ => run_n::<2>(case),
        })
    }

    fn describe(&self, case: &Case) -> Value {
        json!({
            "sources": case.sources,
            "pool": pool_json(&case.pool),
            "replicas": case.plans.iter().map(plan_json).collect::<Vec<_>>(),
            "pre_merged": case.pre,
            "schedule_a": case.sched_a,
            "schedule_b": case.sched_b,
        })
    }

    fn rule(&self) -> &'static str {
        "three replicas (OrSWotSet<1>/<2>) built from one pool of 1-9 ops (one case in 600: 200-5000 ops over up to 20000 keys) with distinct stamps; mode Window: all \
         stamps within 3000 s, each replica applies an arbitrary subset in arbitrary order via arbitrary sources; \
         mode Prefix: stamps over up to 6 h, each replica applies a gap-free per-origin prefix in stamp order; a \
         replica may already have merged another; oracle: live(A+B)=live(B+A), live((A+B)+C)=live(A+(B+C)), \
         view(A+B+B)=view(A+B), view(A+A)=view(A), two generated merge schedules covering all replicas give equal \
         live sets, replicas that merged each other (directly/transitively) answer get() identically; \
         non-trivial = replicas differ and some key has both an insert and a delete in the pool"
    }
}

fn live<const N: usize>(s: &OrSWotSet<N>) -> std::collections::BTreeMap<u64, Stamp> {
    view(s).live
}

fn merged<const N: usize>(a: &OrSWotSet<N>, b: &OrSWotSet<N>) -> OrSWotSet<N> {
    let mut x = a.clone();
    x.merge(b.clone());
    x
}

fn run_n<const N: usize>(case: &Case) -> Outcome {
    // Replicas are never purged here: the statement is about sets built from operations, and with
    // purged tombstones the laws do not hold by design (an operation that reaches a purged replica
    // more than a forgiveness period late is outside C08's precondition) -- see DESIGN.md.
    let base: Vec<OrSWotSet<N>> = case.plans.iter().map(|p| build::<N>(&case.pool, p)).collect();
    let mut reps = base.clone();
    for i in 0..3 {
        if let Some(o) = case.pre[i] {
            reps[i].merge(base[o].clone());
        }
    }
    let (a, b, c) = (&reps[0], &reps[1], &reps[2]);

    let ab = merged(a, b);
    let ba = merged(b, a);
    ensure!(live(&ab) == live(&ba), "commutative", "live(A+B)={:?} but live(B+A)={:?}", live(&ab), live(&ba));

    let ab_c = merged(&ab, c);
    let bc = merged(b, c);
    let a_bc = merged(a, &bc);
    ensure!(
        live(&ab_c) == live(&a_bc),
        "associative",
        "live((A+B)+C)={:?} but live(A+(B+C))={:?}",
        live(&ab_c),
        live(&a_bc)
    );

    let abb = merged(&ab, b);
    ensure!(view(&abb) == view(&ab), "idempotent", "A+B+B = {:?} but A+B = {:?}", view(&abb), view(&ab));
    let aa = merged(a, a);
    ensure!(view(&aa) == view(a), "idempotent-self", "A+A = {:?} but A = {:?}", view(&aa), view(a));
    let abc_c = merged(&ab_c, c);
    ensure!(view(&abc_c) == view(&ab_c), "idempotent", "re-merging C into (A+B)+C changed it");
    let abc_bc = merged(&ab_c, &bc);
    ensure!(
        view(&abc_bc) == view(&ab_c),
        "idempotent",
        "re-merging (B+C) into (A+B)+C changed it: {:?} vs {:?}",
        view(&abc_bc),
        view(&ab_c)
    );

    // any order, any number of times
    let run_sched = |s: &[usize]| {
        let mut x = reps[0].clone();
        for i in s {
            x.merge(reps[*i].clone());
        }
        x
    };
    let xa = run_sched(&case.sched_a);
    let xb = run_sched(&case.sched_b);
    ensure!(
        live(&xa) == live(&xb),
        "schedule",
        "schedule {:?} gives {:?}, schedule {:?} gives {:?}",
        case.sched_a,
        live(&xa),
        case.sched_b,
        live(&xb)
    );
    ensure!(live(&xa) == live(&ab_c), "schedule", "schedule result differs from (A+B)+C");

    // replicas that merged each other are indistinguishable by lookups
    let y = merged(&merged(b, c), a); // B merges C then A
    let z = merged(c, &y); // C merges Y: sees A and B only transitively
    let w = merged(a, &z); // A merges Z: sees B and C only transitively
    let keys: Vec<u64> = (0..=6).collect();
    for k in keys {
        let g = |s: &OrSWotSet<N>| s.get(&k).map(|t| Stamp::of(*t));
        ensure!(
            g(&ab_c) == g(&y) && g(&y) == g(&z) && g(&z) == g(&w),
            "lookup-after-mutual-merge",
            "key {k}: (A+B)+C={:?} (B+C)+A={:?} C+((B+C)+A)={:?} A+that={:?}",
            g(&ab_c),
            g(&y),
            g(&z),
            g(&w)
        );
    }

    let differ = view(a) != view(b) || view(b) != view(c);
    let conflict = case.pool.ops.iter().any(|o| {
        o.delete && case.pool.ops.iter().any(|p| !p.delete && p.key == o.key)
    });
    let mut labels = vec![match case.pool.mode {
        Mode::Window => "mode_window",
        Mode::Prefix => "mode_prefix",
        Mode::Gaps => "mode_gaps",
    }];
    if case.pre.iter().any(|p| p.is_some()) {
        labels.push("pre_merged");
    }
    if N == 2 {
        labels.push("two_sources");
    }
    if conflict {
        labels.push("insert_delete_conflict");
    }
    Ok(Pass { nontrivial: differ && conflict, labels })
}

/// Exhaustive small scope (the statement's quantifier: "exhaustively over a bounded universe"): every triple of
/// replicas every pool of `replicas::small` can build. Words: [universe, variant, pool, plan A, plan B, plan C].
pub struct C03Small;

fn triples(which: usize, variant: usize, max_k: usize, out: &mut Vec<Vec<u64>>) {
    let sm = crate::replicas::small(which);
    for (pi, pool) in sm.pools.iter().enumerate() {
        if pool.ops.len() > max_k {
            continue;
        }
        let n = sm.plans[pi][variant].len() as u64;
        for a in 0..n {
            for b in 0..n {
                for c in 0..n {
                    out.push(vec![which as u64, variant as u64, pi as u64, a, b, c]);
                }
            }
        }
    }
}

pub fn small_space() -> Vec<Vec<u64>> {
    let mut out = vec![];
    triples(0, 0, 3, &mut out); // Window, one source: every ordered subset
    triples(0, 2, 2, &mut out); // Window, two sources, every source assignment, pools of <= 2 ops
    triples(1, 1, 3, &mut out); // Prefix (stamps over > 2 h), two sources, one source per replica
    out
}

pub fn small_space_thorough() -> Vec<Vec<u64>> {
    let mut out = small_space();
    triples(0, 1, 3, &mut out); // Window, two sources, one source per replica, pools of 3 ops
    triples(1, 2, 3, &mut out); // Prefix, every source assignment
    out
}

impl Prop for C03Small {
    type Case = Case;

    fn id(&self) -> &'static str {
        "C03"
    }

    fn part(&self) -> &'static str {
        "small-scope-triples"
    }

    fn width(&self) -> usize {
        6
    }

    fn gen(&self, src: &mut Src) -> Case {
        let which = (src.word() as usize).min(1);
        let variant = (src.word() as usize).min(2);
        let sm = crate::replicas::small(which);
        let pi = (src.word() as usize) % sm.pools.len();
        let plans = &sm.plans[pi][variant];
        let mut pick = || plans[(src.word() as usize) % plans.len()].clone();
        let plans3 = [pick(), pick(), pick()];
        Case {
            sources: if variant == 0 { 1 } else { 2 },
            pool: sm.pools[pi].clone(),
            plans: plans3,
            pre: [None; 3],
            sched_a: vec![1, 2, 1],
            sched_b: vec![2, 0, 1],
            wall: 0,
        }
    }

    fn run(&self, case: &Case) -> Outcome {
        C03.run(case)
    }

    fn describe(&self, case: &Case) -> Value {
        C03.describe(case)
    }

    fn rule(&self) -> &'static str {
        "exhaustive: every pool of 1-3 operations with distinct stamps out of a universe of 4 (Window: two origins, a \
         (time, counter) tie across them, all within 1000 s) or 5 (Prefix: two origins, stamps over 7400 s) stamps, keys \
         {1,2}, insert / delete; every triple of replicas such a pool can build (Window: every ordered subset; Prefix: every \
         per-origin prefix) on OrSWotSet<1> and, with two sources on OrSWotSet<2> (quick: every source assignment for Window pools of <= 2 operations, one source \
         per replica for Prefix pools; thorough: every assignment for Prefix pools, one source per replica for Window pools of 3); same oracle as merge-laws"
    }
}

pub fn parts() -> Vec<Box<dyn DynPart>> {
    vec![
        Box::new(Gen::new(C03, 3_000_000, 300_000_000)),
        Box::new(Gen::listed2(C03Small, small_space, small_space_thorough)),
    ]
}
