//! C01, part `broken-and-big-repairs` (E3): the anti-entropy poller under the conditions the `cluster` part leaves
//! out — exchanges that FAIL half-way (a document fetch or a state request is lost after the removal half has been
//! applied, so the poller's 5 s watchdog gives the keyspace up and a later cycle has to start over), exchanges
//! larger than one fetch (`MAX_NUMBER_OF_DOCS_PER_FETCH` = 50 000 documents), and more changed keyspaces per peer
//! than the poller handles at a time (`MAX_CONCURRENT_REQUESTS` = 10). One node may be deaf to everything that is
//! pushed (direct and batched replication), so that all it ever learns comes through repair.

use std::collections::BTreeMap;
use std::time::Duration;

use datacake_rpc::verif::Verdict;
use serde_json::{json, Value};

use crate::c01::{check_converged_n, ks_name, level, level_name, POLLER_CLOCK};
use crate::core::{Outcome, Pass, Prop, Src};
use crate::e3::{self, Class, Layout, NodeH};
use crate::registry::{DynPart, Gen};

#[derive(Debug, Clone)]
pub enum Step {
    /// put_many (n > 1) or put (n == 1) of the ids first, first + stride, ...
    Put { node: usize, ks: usize, first: u64, n: usize, stride: u64, len: usize, level: usize },
    Del { node: usize, ks: usize, first: u64, n: usize, stride: u64, level: usize },
    Advance(u64),
    ToPollerTick(u64),
}

#[derive(Debug, Clone)]
pub struct Case {
    pub nodes: Vec<(u8, String)>,
    pub repair_secs: u64,
    pub n_ks: usize,
    /// index of the node that never receives a pushed message
    pub deaf: Option<usize>,
    pub steps: Vec<Step>,
    pub repair: Vec<Verdict>,
    pub push: Vec<Verdict>,
    pub seed: u64,
    pub storage_latency_ms: BTreeMap<u8, u64>,
    pub huge: bool,
    /// per node index: mutating storage calls (by index) that fail, and how (nothing written / a prefix / a subset)
    pub storage_faults: BTreeMap<usize, Vec<(u64, crate::store::Fault)>>,
}

pub struct BrokenRepairs;

fn gen_repair_verdict(src: &mut Src) -> Verdict {
    match src.weighted(&[8, 5, 5, 2, 3]) {
        0 => Verdict::Deliver,
        1 => Verdict::FailBefore,
        2 => Verdict::FailAfter,
        3 => Verdict::Duplicate,
        _ => Verdict::Delay(Duration::from_millis(*src.pick(&[1u64, 300, 1_500, 4_000, 5_200]))),
    }
}

impl Prop for BrokenRepairs {
    type Case = Case;

    fn id(&self) -> &'static str {
        "C01"
    }

    fn part(&self) -> &'static str {
        "broken-and-big-repairs"
    }

    fn width(&self) -> usize {
        200
    }

    fn breadcrumbs(&self) -> bool {
        true
    }

    fn shrink_budget(&self) -> usize {
        300
    }

    fn gen(&self, src: &mut Src) -> Case {
        let n_nodes = 2 + src.below(2);
        let nodes: Vec<(u8, String)> = (0..n_nodes).map(|i| (i as u8 + 1, "dc-a".to_string())).collect();
        let repair_secs = *src.pick(&[2u64, 5]);
        let n_ks = if src.chance(1, 8) { 11 + src.below(20) } else { 1 + src.below(2) };
        let deaf = if src.chance(2, 3) { Some(src.below(n_nodes)) } else { None };
        let huge = src.chance(1, if std::env::var_os("VP_C01C_HUGE").is_some() { 1 } else { 150 });
        let mut huge_left = if huge { 1 + src.below(2) } else { 0 };
        let n_steps = 1 + src.below(10);
        let mut steps = vec![];
        for _ in 0..n_steps {
            let node = src.below(n_nodes);
            let ks = src.below(n_ks);
            let lv = *src.pick(&[0usize, 0, 0, 1, 2, 4, 3, 5, 7]);
            let mut len = *src.pick(&[2usize, 0, 1, 17]);
            let big_docs = src.chance(1, 12);
            let n = if huge_left > 0 && src.chance(1, 2) {
                huge_left -= 1;
                *src.pick(&[50_001usize, 49_999, 50_000, 50_700, 100_001])
            } else {
                match src.weighted(&[6, 3, 2, 1]) {
                    0 => 1 + src.below(3),
                    1 => 4 + src.below(60),
                    2 => 100 + src.below(900),
                    _ => 1_000 + src.below(3_000),
                }
            };
            // a few documents of 0.2 - 1.5 MB each: an exchange whose volume is in its bytes rather than in its ids
            let n = if big_docs && n <= 4_000 {
                len = *src.pick(&[200_000usize, 360_000, 700_000, 1_500_000]);
                1 + n % 6
            } else {
                n
            };
            let first = *src.pick(&[1u64, 1, 2, 40, 25_000, 49_990, 60_000]);
            let stride = *src.pick(&[1u64, 1, 1, 2, 3]);
            match src.weighted(&[6, 4, 3, 1]) {
                0 => steps.push(Step::Put { node, ks, first, n, stride, len, level: lv }),
                1 => steps.push(Step::Del { node, ks, first, n, stride, level: lv }),
                2 => steps.push(Step::Advance(*src.pick(&[0u64, 10, 300, 1_100, 2_500, 6_000]))),
                _ => steps.push(Step::ToPollerTick(src.below64(120))),
            }
        }
        let repair = (0..(4 + src.below(20))).map(|_| gen_repair_verdict(src)).collect();
        let lossy = *src.pick(&[0u32, 6, 12]);
        let push = (0..12).map(|_| crate::c01::gen_verdict(src, lossy)).collect();
        let seed = src.word();
        let mut storage_latency_ms = BTreeMap::new();
        for (id, _) in &nodes {
            let ms = *src.pick(&[0u64, 0, 0, 1, 4, 15, 60]);
            if ms > 0 {
                storage_latency_ms.insert(*id, ms);
            }
        }
        // storage failures at generated calls of generated nodes (since the seeded change `C01n`): a write that fails inside
        // a repair exchange, inside a pushed message or inside a client operation
        let mut storage_faults = BTreeMap::new();
        for i in 0..n_nodes {
            if src.chance(1, 3) {
                let list: Vec<(u64, crate::store::Fault)> = (0..1 + src.below(3))
                    .map(|_| {
                        let at = src.below64(12);
                        let f = match src.below(3) {
                            0 => crate::store::Fault::FailBefore,
                            1 => crate::store::Fault::Partial(src.below(3)),
                            _ => crate::store::Fault::Subset(src.word()),
                        };
                        (at, f)
                    })
                    .collect();
                storage_faults.insert(i, list);
            }
        }
        Case { nodes, repair_secs, n_ks, deaf, steps, repair, push, seed, storage_latency_ms, huge, storage_faults }
    }

    fn run(&self, case: &Case) -> Outcome {
        e3::sim(case.seed, 70_000_000, BTreeMap::new(), |net| run(case, net))
    }

    fn describe(&self, case: &Case) -> Value {
        json!({
            "nodes": case.nodes,
            "repair_interval_s": case.repair_secs,
            "keyspaces": case.n_ks,
            "node_deaf_to_pushed_replication": case.deaf.map(|i| i + 1),
            "storage_latency_ms": case.storage_latency_ms,
            "failing_storage_calls_per_node_index": case.storage_faults.iter().map(|(i, l)| (format!("node {}", i + 1), l.iter().map(|(at, f)| format!("call {at}: {:?}", f)).collect::<Vec<_>>())).collect::<BTreeMap<_, _>>(),
            "steps": case.steps.iter().map(|s| match s {
                Step::Put { node, ks, first, n, stride, len, level } => json!({"put": {"first_id": first, "ids": n, "stride": stride}, "len": len, "at_node": node + 1, "ks": ks, "level": level_name(*level)}),
                Step::Del { node, ks, first, n, stride, level } => json!({"del": {"first_id": first, "ids": n, "stride": stride}, "at_node": node + 1, "ks": ks, "level": level_name(*level)}),
                Step::Advance(ms) => json!({"advance_ms": ms}),
                Step::ToPollerTick(ms) => json!({"advance_to_ms_after_the_next_poller_tick": ms}),
            }).collect::<Vec<_>>(),
            "repair_message_fates_incl_fetches": case.repair.iter().map(|v| format!("{:?}", v)).collect::<Vec<_>>(),
            "pushed_message_fates": case.push.iter().map(|v| format!("{:?}", v)).collect::<Vec<_>>(),
            "seed": case.seed,
        })
    }

    fn rule(&self) -> &'static str {
        "2-3 real DatacakeNodes with the real eventual-consistency extension in one paused-time runtime; 1-2 or (one case in 8) 11-30 \
         keyspaces; 1-10 steps: put / put_many / del / del_many over id ranges of 1 ... 4000 ids (one case in 150: one or two bulks of \
         49 999 / 50 000 / 50 001 / 50 700 / 100 001 ids, i.e. around and beyond one document fetch of the poller; one bulk in 12 instead has 1-6 documents of 0.2-1.5 MB each), time advances; in two \
         thirds of the cases one node is deaf to every pushed message (direct and batched), so it learns everything through repair; every \
         poll / get-state / FETCH message takes the next fate of a generated script: deliver, request lost, reply lost (the peer did the \
         work), duplicate, delay up to 5.2 s (beyond the poller's 5 s watchdog) — a failed fetch leaves an exchange half applied and its \
         keyspace to be retried; on a third of the nodes 1-3 of the first twelve storage writes fail (nothing written, a prefix written, a subset written) \
         wherever they fall: in a client operation, a pushed message or the writes of a repair exchange; then faults are cleared and 7 s + 3 repair intervals pass; oracle: as in part `cluster` (every node returns \
         exactly the LWW documents of the operations issued, nobody holds a version that nobody issued); non-trivial = a fetch or state \
         request failed and documents were fetched afterwards, or an exchange needed more than one fetch or carried more than 1 MB to a deaf node, or more than 10 keyspaces were repaired"
    }
}

fn ids(first: u64, n: usize, stride: u64) -> Vec<u64> {
    (0..n as u64).map(|i| first + i * stride).collect()
}

async fn run_step(nodes: &[NodeH], s: &Step) {
    match s {
        Step::Put { node, ks, first, n, stride, len, level: l } => {
            let name = ks_name(*ks);
            if *n == 1 {
                let data = vec![(*first as u8).wrapping_mul(31).wrapping_add(*node as u8); *len];
                let _ = nodes[*node].handle.put(&name, *first, data, level(*l)).await;
            } else {
                let docs: Vec<(u64, Vec<u8>)> =
                    ids(*first, *n, *stride).into_iter().map(|k| (k, vec![(k as u8).wrapping_mul(17).wrapping_add(*node as u8); *len])).collect();
                let _ = nodes[*node].handle.put_many(&name, docs, level(*l)).await;
            }
        },
        Step::Del { node, ks, first, n, stride, level: l } => {
            let name = ks_name(*ks);
            if *n == 1 {
                let _ = nodes[*node].handle.del(&name, *first, level(*l)).await;
            } else {
                let _ = nodes[*node].handle.del_many(&name, ids(*first, *n, *stride), level(*l)).await;
            }
        },
        Step::Advance(ms) => e3::advance(*ms).await,
        Step::ToPollerTick(offset) => match POLLER_CLOCK.with(|c| c.get()) {
            Some((t0, repair)) => {
                let r = repair.as_millis() as u64;
                let now = t0.elapsed().as_millis() as u64;
                let next = if now < 500 { 500 } else { (now / r + 1) * r };
                e3::advance(next + offset - now).await;
            },
            None => e3::advance(*offset).await,
        },
    }
}

async fn run(case: &Case, net: e3::Net) -> Outcome {
    let layout = Layout { nodes: case.nodes.clone(), repair_interval: Duration::from_secs(case.repair_secs), storage_latency_ms: case.storage_latency_ms.clone() };
    let t_start = tokio::time::Instant::now();
    let nodes = e3::start_cluster(&layout).await;
    POLLER_CLOCK.with(|c| c.set(Some((t_start + Duration::from_millis(20), Duration::from_secs(case.repair_secs)))));
    {
        let mut n = net.borrow_mut();
        n.direct = case.push.iter().copied().collect();
        n.batch = case.push.iter().rev().copied().collect();
        n.repair = case.repair.iter().copied().collect();
        n.fail_fetches = true;
        if let Some(i) = case.deaf {
            n.deaf = vec![nodes[i].addr];
        }
    }
    for (i, list) in &case.storage_faults {
        let mut g = nodes[*i].store.inner.lock();
        let base = g.mutating_calls;
        for (at, f) in list {
            g.faults.insert(base + at, *f);
        }
    }
    for s in &case.steps {
        run_step(&nodes, s).await;
    }
    for n in &nodes {
        n.store.inner.lock().faults.clear();
    }
    {
        let mut n = net.borrow_mut();
        n.direct.clear();
        n.batch.clear();
        n.repair.clear();
        // the deaf node stays deaf: everything it lacks has to come through repair
    }
    // a poller may be inside the 5 s watchdog of an exchange that failed just before the faults were cleared
    e3::advance(7_000 + 3 * case.repair_secs * 1_000 + 500).await;
    POLLER_CLOCK.with(|c| c.set(None));
    check_converged_n(&nodes, case.n_ks, "after healing + 7 s + 3 repair intervals")?;

    let log = net.borrow().log.clone();
    let failed = |v: &Verdict| matches!(v, Verdict::FailBefore | Verdict::FailAfter) || matches!(v, Verdict::Delay(d) if d.as_millis() > 5_000);
    let fetch_failed = log.iter().any(|(_, c, v)| *c == Class::Fetch && failed(v));
    let state_failed = log.iter().any(|(_, c, v)| *c == Class::GetState && failed(v));
    let poll_failed = log.iter().any(|(_, c, v)| *c == Class::Poll && failed(v));
    let last_fail = log.iter().rposition(|(_, c, v)| matches!(c, Class::Fetch | Class::GetState) && failed(v));
    let fetched_after = last_fail.map(|i| log[i + 1..].iter().any(|(_, c, _)| *c == Class::Fetch)).unwrap_or(false);
    let state_requests = log.iter().filter(|(_, c, _)| *c == Class::GetState).count();
    let many_ks = case.n_ks > 10 && state_requests > 10;
    let big = case.huge && case.deaf.is_some() && case.steps.iter().any(|s| matches!(s, Step::Put { n, .. } if *n > 50_000));
    let mut labels = vec![];
    if fetch_failed {
        labels.push("fetch_failed");
    }
    if state_failed {
        labels.push("get_state_failed");
    }
    if poll_failed {
        labels.push("poll_failed");
    }
    if fetched_after {
        labels.push("fetched_again_after_a_failure");
    }
    if case.deaf.is_some() {
        labels.push("one_node_deaf_to_pushes");
    }
    let failed_writes: u64 = nodes.iter().map(|n| n.store.inner.lock().injected).sum();
    if failed_writes > 0 {
        labels.push("a_storage_write_failed");
    }
    if failed_writes > 0 && case.deaf.map(|i| nodes[i].store.inner.lock().injected > 0).unwrap_or(false) {
        labels.push("a_storage_write_of_the_deaf_node_failed");
    }
    if case.n_ks > 10 {
        labels.push("keyspaces>10");
    }
    if big {
        labels.push("put_of_>50000_ids_repaired_to_a_deaf_node");
    }
    let megabytes = case.steps.iter().any(|s| matches!(s, Step::Put { n, len, .. } if *n * *len > 1_000_000));
    if megabytes {
        labels.push("put_of_>1MB");
    }
    if case.steps.iter().any(|s| matches!(s, Step::Put { n, .. } | Step::Del { n, .. } if *n >= 1_000)) {
        labels.push("bulk>=1000");
    }
    Ok(Pass { nontrivial: ((fetch_failed || state_failed) && fetched_after) || big || many_ks || (megabytes && case.deaf.is_some()), labels })
}

pub fn parts() -> Vec<Box<dyn DynPart>> {
    vec![Box::new(Gen::new(BrokenRepairs, if std::env::var_os("VP_C01C_HUGE").is_some() { 32 } else { 9_000 }, 600_000))]
}
