//! C08, cluster fact (E2): a cluster that purges at arbitrary moments converges to exactly the same live
//! documents as one that never purges, provided every operation reaches every replica within less than the
//! forgiveness period of its timestamp (clock skew included). Real keyspace actors and stores; deliveries,
//! repair exchanges and purge calls are scheduled by the harness on a virtual timeline with explicit stamps.

use std::collections::BTreeMap;

use datacake_eventual_consistency::verif::Diff;
use serde_json::{json, Value};

use crate::core::{Fail, Outcome, Pass, Prop, Src};
use crate::e2::{self, actor_set, Group};
use crate::ensure;
use crate::model::{lww, SetOp, Stamp};
use crate::registry::{DynPart, Gen};
use crate::store::ModelStore;

const KS: &str = "ks";

#[derive(Debug, Clone)]
pub struct OpPlan {
    /// real (virtual) issue time in seconds
    pub at: u64,
    pub origin: usize,
    pub key: u64,
    pub delete: bool,
    /// per other replica: (delay in s, via repair exchange with the origin instead of a direct message)
    pub deliveries: Vec<(u64, bool)>,
}

#[derive(Debug, Clone)]
pub struct Case {
    pub n: usize,
    pub skew_s: Vec<i64>,
    pub ops: Vec<OpPlan>,
    /// extra repair exchanges (time, receiver, peer, removal half first)
    pub exchanges: Vec<(u64, usize, usize, bool)>,
    /// purge calls (time, replica)
    pub purges: Vec<(u64, usize)>,
    /// how the storage half of purge call i fails, if it does (nothing removed / a prefix / a subset removed and reported)
    pub purge_faults: Vec<Option<crate::store::Fault>>,
    /// the stores perform their k-th write `pattern[k % len]` simulated ms after being asked (empty = at once)
    pub write_delay: Vec<u64>,
}

pub struct Cluster;

const BASE: u64 = 50_000_000;

impl Prop for Cluster {
    type Case = Case;

    fn id(&self) -> &'static str {
        "C08"
    }

    fn part(&self) -> &'static str {
        "cluster-purge-vs-no-purge"
    }

    fn width(&self) -> usize {
        30 * 10 + 60
    }

    fn shrink_budget(&self) -> usize {
        1_500
    }

    fn gen(&self, src: &mut Src) -> Case {
        let n = 2 + src.below(2);
        let skew_s = (0..n).map(|_| *src.pick(&[0i64, 0, 120, -120, 300, -300])).collect();
        let m = 3 + src.below(28);
        let mut at = 0u64;
        let mut ops = vec![];
        for _ in 0..m {
            at += *src.pick(&[30u64, 600, 1_800, 3_000, 4_200, 4_200, 7_200, 7_200]);
            // one origin issues half of the operations, so its stamps advance on both sources of its peers
            let origin = if src.chance(1, 2) { 0 } else { src.below(n) };
            let deliveries = (0..n - 1)
                .map(|_| (*src.pick(&[0u64, 5, 600, 1_800, 2_400]), src.chance(1, 2)))
                .collect();
            ops.push(OpPlan { at, origin, key: 1 + src.below64(3), delete: src.chance(1, 2), deliveries });
        }
        let horizon = at + 4_000;
        let exchanges = (0..src.below(8))
            .map(|_| {
                let r = src.below(n);
                let q = (r + 1 + src.below(n - 1)) % n;
                (src.below64(horizon), r, q, src.chance(1, 2))
            })
            .collect();
        let mut purges: Vec<(u64, usize)> = (0..1 + src.below(10)).map(|_| (src.below64(horizon + 4_000), src.below(n))).collect();
        // some purges after the last delivery (cut-offs are then as far advanced as they get)
        for _ in 0..src.below(3) {
            purges.push((horizon + 1 + src.below64(100), src.below(n)));
        }
        let write_delay = crate::c02::gen_write_delay(src);
        // one purge in four hits a storage failure (since the seeded change `C08n`); drawn last
        let purge_faults = purges
            .iter()
            .map(|_| {
                if src.chance(1, 4) {
                    Some(match src.below(3) {
                        0 => crate::store::Fault::FailBefore,
                        1 => crate::store::Fault::Partial(src.below(3)),
                        _ => crate::store::Fault::Subset(src.word()),
                    })
                } else {
                    None
                }
            })
            .collect();
        Case { n, skew_s, ops, exchanges, purges, purge_faults, write_delay }
    }

    fn run(&self, case: &Case) -> Outcome {
        e2::block_on_sim(60_000_000, e2::no_skew(), run(case))
    }

    fn describe(&self, case: &Case) -> Value {
        json!({
            "replicas": case.n,
            "clock_skew_s": case.skew_s,
            "ops": case.ops.iter().enumerate().map(|(i, o)| json!({
                "i": i, "at_s": o.at, "origin": o.origin, "key": o.key, "op": if o.delete {"del"} else {"put"},
                "to_others(delay_s, via_repair)": o.deliveries,
            })).collect::<Vec<_>>(),
            "extra_exchanges(at_s, receiver, peer, removals_first)": case.exchanges,
            "purges(at_s, replica)": case.purges,
            "storage_failure_of_purge": case.purge_faults.iter().map(|f| f.map(|f| format!("{:?}", f))).collect::<Vec<_>>(),
            "store_write_delay_ms_per_call": case.write_delay,
        })
    }

    fn rule(&self) -> &'static str {
        "2-3 replicas (real keyspace actors + stores), per-origin clock skew up to +-300 s, 3-30 puts/deletes on 1-3 keys \
         issued over hours (steps 30 s .. 2 h); every operation reaches every other replica after 0-2400 s either as a \
         direct message (source 0) or through a real repair exchange with its origin (get state -> diff -> removal half and \
         fetched modification half on the read-repair source, halves in generated order), so delay + skew stays below the \
         forgiveness period by construction; extra exchanges between arbitrary pairs and purge calls on arbitrary replicas \
         at arbitrary moments; in two cases out of five the stores perform their writes 0-7 simulated ms after being asked, varying from call to call; the timeline ends with two complete rounds of pairwise exchanges. The SAME timeline is run \
         twice, with and without the purge calls; oracle: on every replica the documents storage returns (ids, stamps, \
         bytes) are identical in both runs and equal the LWW model; non-trivial = the purging run removed >=1 tombstone"
    }
}

#[derive(Debug, Clone)]
enum Ev {
    Deliver { op: usize, to: usize },
    Exchange { r: usize, q: usize, removal_first: bool },
    Purge { r: usize, fault: Option<crate::store::Fault> },
}

fn stamp_of(case: &Case, i: usize) -> Stamp {
    let o = &case.ops[i];
    let secs = (BASE + o.at) as i64 + case.skew_s[o.origin];
    Stamp { secs: secs as u64, frac: 0, counter: i as u16, node: o.origin as u8 + 1 }
}

fn timeline(case: &Case, with_purges: bool) -> Vec<Ev> {
    let mut evs: Vec<(u64, usize, Ev)> = vec![];
    let mut seq = 0;
    let mut push = |t: u64, e: Ev, evs: &mut Vec<(u64, usize, Ev)>| {
        evs.push((t, seq, e));
        seq += 1;
    };
    for (i, o) in case.ops.iter().enumerate() {
        push(o.at, Ev::Deliver { op: i, to: o.origin }, &mut evs);
        let others: Vec<usize> = (0..case.n).filter(|r| *r != o.origin).collect();
        for (r, (delay, via_repair)) in others.iter().zip(&o.deliveries) {
            if *via_repair {
                push(o.at + delay, Ev::Exchange { r: *r, q: o.origin, removal_first: i % 2 == 0 }, &mut evs);
            } else {
                push(o.at + delay, Ev::Deliver { op: i, to: *r }, &mut evs);
            }
        }
    }
    for (t, r, q, rf) in &case.exchanges {
        push(*t, Ev::Exchange { r: *r, q: *q, removal_first: *rf }, &mut evs);
    }
    if with_purges {
        for (i, (t, r)) in case.purges.iter().enumerate() {
            push(*t, Ev::Purge { r: *r, fault: case.purge_faults.get(i).copied().flatten() }, &mut evs);
        }
    }
    evs.sort_by_key(|(t, s, _)| (*t, *s));
    let mut out: Vec<Ev> = evs.into_iter().map(|(_, _, e)| e).collect();
    for _round in 0..2 {
        for r in 0..case.n {
            for q in 0..case.n {
                if r != q {
                    out.push(Ev::Exchange { r, q, removal_first: (r + q) % 2 == 0 });
                }
            }
        }
    }
    out
}

/// One repair exchange the way the poller does it: fetch the peer's state, diff, apply the removal half
/// (Del / MultiDel) and the modification half (documents fetched from the peer's storage, MultiSet), both on
/// the read-repair source.
async fn exchange(groups: &[Group], stores: &[ModelStore], r: usize, q: usize, removal_first: bool) {
    let Some(peer_set) = actor_set(&groups[q], KS).await else { return };
    let mailbox = groups[r].get_or_create_keyspace(KS).await;
    let (modified, removed) = mailbox.send(Diff(peer_set)).await;
    let peer_docs = stores[q].docs(KS);
    let do_removed = || async {
        if removed.len() == 1 {
            let (id, ts) = removed[0];
            let _ = mailbox.send(e2::msg_del(1, datacake_eventual_consistency::DocumentMetadata::new(id, ts))).await;
        } else if !removed.is_empty() {
            let docs = removed.iter().map(|(id, ts)| datacake_eventual_consistency::DocumentMetadata::new(*id, *ts)).collect();
            let _ = mailbox.send(e2::msg_multi_del(1, docs)).await;
        }
    };
    let do_modified = || async {
        if !modified.is_empty() {
            // fetch_docs returns what the peer's storage holds *now* for those ids
            let docs: Vec<_> = modified
                .iter()
                .filter_map(|(id, _)| peer_docs.get(id).map(|(ts, bytes)| datacake_eventual_consistency::Document::new(*id, *ts, bytes.clone())))
                .collect();
            let _ = mailbox.send(e2::msg_multi_set(1, docs)).await;
        }
    };
    if removal_first {
        do_removed().await;
        do_modified().await;
    } else {
        do_modified().await;
        do_removed().await;
    }
}

type Docs = BTreeMap<u64, (Stamp, Vec<u8>)>;

async fn play(case: &Case, with_purges: bool) -> (Vec<Docs>, usize) {
    let stores: Vec<ModelStore> = (0..case.n).map(|_| ModelStore::default()).collect();
    let mut groups = vec![];
    for (i, s) in stores.iter().enumerate() {
        s.inner.lock().write_delay_pattern = case.write_delay.clone();
        groups.push(e2::new_group(s.clone(), i as u8 + 1).await);
    }
    let mut purged = 0usize;
    for ev in timeline(case, with_purges) {
        match ev {
            Ev::Deliver { op, to } => {
                let o = &case.ops[op];
                let stamp = stamp_of(case, op);
                let mailbox = groups[to].get_or_create_keyspace(KS).await;
                if o.delete {
                    let _ = mailbox.send(e2::msg_del(0, e2::meta(o.key, stamp))).await;
                } else {
                    let _ = mailbox.send(e2::msg_set(0, e2::doc(o.key, stamp, 6))).await;
                }
            },
            Ev::Exchange { r, q, removal_first } => exchange(&groups, &stores, r, q, removal_first).await,
            Ev::Purge { r, fault } => {
                stores[r].inner.lock().purge_fault = fault;
                let before = stores[r].metadata(KS).values().filter(|(_, t)| *t).count();
                let mailbox = groups[r].get_or_create_keyspace(KS).await;
                let _ = mailbox.send(e2::msg_purge()).await;
                let after = stores[r].metadata(KS).values().filter(|(_, t)| *t).count();
                stores[r].inner.lock().purge_fault = None;
                purged += before.saturating_sub(after);
            },
        }
    }
    // whatever a node still does in the background lands before the documents are read
    tokio::time::sleep(std::time::Duration::from_millis(100)).await;
    let docs = stores
        .iter()
        .map(|s| s.docs(KS).into_iter().map(|(id, (ts, b))| (id, (Stamp::of(ts), b))).collect())
        .collect();
    let removed_live: u64 = stores.iter().map(|s| s.inner.lock().removed_live).sum();
    if removed_live > 0 {
        // reported through the purged counter's high bits to keep the signature of `play` small
        return (docs, usize::MAX);
    }
    (docs, purged)
}

fn brief(d: &Docs) -> Vec<String> {
    d.iter().map(|(id, (s, _))| format!("{id}@{}", s.json())).collect()
}

async fn run(case: &Case) -> Outcome {
    let (plain, _) = play(case, false).await;
    let (purging, purged) = play(case, true).await;
    ensure!(
        purged != usize::MAX,
        "purge-removed-live-document",
        "a purge asked storage to remove the tombstone of an id that holds a live document"
    );
    let model = lww((0..case.ops.len()).map(|i| SetOp { key: case.ops[i].key, stamp: stamp_of(case, i), delete: case.ops[i].delete }));
    let expect: Docs = model
        .iter()
        .filter(|(_, o)| !o.delete)
        .map(|(k, o)| (*k, (o.stamp, e2::payload(*k, o.stamp, 6))))
        .collect();
    for r in 0..case.n {
        ensure!(
            plain[r] == expect,
            "no-purge-run-not-lww",
            "replica {r} of the NON-purging run returns {:?}, last-writer-wins result is {:?}",
            brief(&plain[r]),
            brief(&expect)
        );
    }
    for r in 0..case.n {
        if purging[r] != plain[r] {
            let resurrected: Vec<_> = purging[r].keys().filter(|k| !plain[r].contains_key(k)).collect();
            let lost: Vec<_> = plain[r].keys().filter(|k| !purging[r].contains_key(k)).collect();
            return Err(Fail {
                signature: if !resurrected.is_empty() { "deleted-document-reappeared" } else if !lost.is_empty() { "live-document-lost" } else { "purging-run-differs" }
                    .into(),
                message: format!(
                    "replica {r}: with purging {:?}, without purging {:?} (resurrected ids {:?}, lost ids {:?}; {purged} tombstones were purged)",
                    brief(&purging[r]),
                    brief(&plain[r]),
                    resurrected,
                    lost
                ),
            });
        }
    }
    let mut labels = vec![];
    if purged > 0 {
        labels.push("purged>=1");
    }
    if purged >= 3 {
        labels.push("purged>=3");
    }
    if case.skew_s.iter().any(|s| *s != 0) {
        labels.push("clock_skew");
    }
    Ok(Pass { nontrivial: purged > 0, labels })
}

pub fn parts() -> Vec<Box<dyn DynPart>> {
    vec![Box::new(Gen::new(Cluster, 100_000, 5_000_000))]
}
