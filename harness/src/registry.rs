//! Object-safe wrappers so `main` can drive any property part uniformly.

use serde_json::Value;

use crate::core::{
    run_generated,
    run_listed,
    run_one,
    shrink_failure,
    Fail,
    Failure,
    KnownFinding,
    Outcome,
    PartResult,
    Prop,
    RunCfg,
};

pub trait DynPart: Sync {
    fn part(&self) -> &'static str;
    fn run(&self, cfg: &RunCfg, known: &[KnownFinding]) -> PartResult;
    fn replay(&self, choices: &[u64]) -> (Outcome, Value);
    /// run one case without describing it (hot path of the coverage-guided engine)
    fn run_choices(&self, choices: &[u64]) -> Outcome;
    /// decode a case without running it
    fn describe(&self, choices: &[u64]) -> Value;
    fn id(&self) -> &'static str;
    fn width(&self) -> usize;
    fn rule(&self) -> &'static str;
    /// shrink a failing case found by another engine (coverage-guided fuzzing) with the generic shrinker
    fn shrink_failure(&self, choices: Vec<u64>, f: Fail) -> Failure;
}

pub enum Mode {
    Generated { quick: u64, thorough: u64 },
    Listed { list: fn() -> Vec<Vec<u64>>, thorough_list: Option<fn() -> Vec<Vec<u64>>>, exhaustive: bool },
}

pub struct Gen<P: Prop> {
    pub prop: P,
    pub mode: Mode,
}

impl<P: Prop> Gen<P> {
    pub fn new(prop: P, quick: u64, thorough: u64) -> Self {
        Self { prop, mode: Mode::Generated { quick, thorough } }
    }

    pub fn listed(prop: P, list: fn() -> Vec<Vec<u64>>) -> Self {
        Self { prop, mode: Mode::Listed { list, thorough_list: None, exhaustive: true } }
    }

    pub fn listed2(prop: P, list: fn() -> Vec<Vec<u64>>, thorough: fn() -> Vec<Vec<u64>>) -> Self {
        Self { prop, mode: Mode::Listed { list, thorough_list: Some(thorough), exhaustive: true } }
    }

    /// a fixed corpus that is not an exhaustive enumeration
    pub fn corpus(prop: P, list: fn() -> Vec<Vec<u64>>) -> Self {
        Self { prop, mode: Mode::Listed { list, thorough_list: None, exhaustive: false } }
    }
}

impl<P: Prop> DynPart for Gen<P> {
    fn part(&self) -> &'static str {
        self.prop.part()
    }

    fn run(&self, cfg: &RunCfg, known: &[KnownFinding]) -> PartResult {
        match &self.mode {
            Mode::Generated { quick, thorough } => {
                let mut cases = if cfg.tier == "thorough" { *thorough } else { *quick };
                if let Ok(scale) = std::env::var("VP_SCALE") {
                    if let Ok(f) = scale.parse::<f64>() {
                        cases = ((cases as f64) * f).max(1.0) as u64;
                    }
                }
                run_generated(&self.prop, cfg, cases, known)
            },
            Mode::Listed { list, thorough_list, exhaustive } => {
                let l = match (cfg.tier.as_str(), thorough_list) {
                    ("thorough", Some(t)) => t(),
                    _ => list(),
                };
                run_listed(&self.prop, cfg, &l, known, *exhaustive)
            },
        }
    }

    fn replay(&self, choices: &[u64]) -> (Outcome, Value) {
        run_one(&self.prop, choices)
    }

    fn run_choices(&self, choices: &[u64]) -> Outcome {
        crate::core::run_outcome(&self.prop, choices)
    }

    fn describe(&self, choices: &[u64]) -> Value {
        let mut src = crate::core::Src::new(choices);
        let case = self.prop.gen(&mut src);
        self.prop.describe(&case)
    }

    fn id(&self) -> &'static str {
        self.prop.id()
    }

    fn width(&self) -> usize {
        self.prop.width()
    }

    fn rule(&self) -> &'static str {
        self.prop.rule()
    }

    fn shrink_failure(&self, choices: Vec<u64>, f: Fail) -> Failure {
        shrink_failure(&self.prop, choices, f)
    }
}
