//! Engine E2: real `KeyspaceGroup` / `KeyspaceActor` / `Clock` on a `ModelStore`, driven with the
//! real keyspace messages carrying harness-chosen stamps, origins and sources.

use std::future::Future;
use std::marker::PhantomData;
use std::rc::Rc;
use std::sync::Arc;
use std::time::Duration;

use datacake_crdt::{HLCTimestamp, OrSWotSet};
use datacake_eventual_consistency::verif::{
    Del,
    DocVec,
    KeyspaceGroup,
    MultiDel,
    MultiSet,
    PurgeDeletes,
    Serialize,
    Set,
};
use datacake_eventual_consistency::{Document, DocumentMetadata};
use datacake_node::Clock;
use rkyv::AlignedVec;

use crate::model::{view, SetView, Stamp};
use crate::store::ModelStore;

pub type Group = KeyspaceGroup<ModelStore>;

/// Fresh current-thread runtime with paused time: timers fire deterministically and instantly.
pub fn runtime() -> tokio::runtime::Runtime {
    tokio::runtime::Builder::new_current_thread()
        .enable_all()
        .start_paused(true)
        // the future given to block_on is otherwise polled only once per 61 task polls: operations awaited in it
        // would never interleave with the chains of wake-ups between spawned tasks
        .event_interval(1)
        .build()
        .expect("runtime")
}

/// Runs `f` on a fresh paused runtime with the HLC wall clock following the runtime's clock
/// (base + elapsed + per-node skew in ms).
pub fn block_on_sim<F: Future>(base_secs: u64, skew_ms: Rc<dyn Fn(u8) -> i64>, f: F) -> F::Output {
    let rt = runtime();
    let out = rt.block_on(async move {
        let start = tokio::time::Instant::now();
        datacake_crdt::verif::set_wall(Some(Rc::new(move |node| {
            let ms = base_secs as i64 * 1000 + start.elapsed().as_millis() as i64 + skew_ms(node);
            Some(Duration::from_millis(ms.max(0) as u64))
        })));
        f.await
    });
    datacake_crdt::verif::set_wall(None);
    drop(rt);
    out
}

pub fn no_skew() -> Rc<dyn Fn(u8) -> i64> {
    Rc::new(|_| 0)
}

pub async fn new_group(store: ModelStore, node: u8) -> Group {
    let g = KeyspaceGroup::new(Arc::new(store), Clock::new(node)).await;
    // `KeyspaceGroup::new` spawns the hourly purge task, whose FIRST tick fires right away: let it pass while no keyspace
    // exists. Otherwise that tick interleaves with the first requests of a history and purges a tombstone that has just
    // become purgeable while the harness is between reading the set and reading the store (false alarm of C02 found by the
    // multi-seed sweep of round 11, VERIF_SEED=2; C07's real-backend parts had the same visitor, DESIGN.md 5.3).
    tokio::time::sleep(std::time::Duration::from_millis(3)).await;
    g
}

/// Deterministic payload for a write (so reads can be compared byte for byte).
pub fn payload(id: u64, stamp: Stamp, len: usize) -> Vec<u8> {
    let seed = id ^ stamp.hlc().as_u64().rotate_left(17);
    (0..len).map(|i| (crate::core::splitmix64(seed.wrapping_add(i as u64 / 8)) >> ((i % 8) * 8)) as u8).collect()
}

pub fn doc(id: u64, stamp: Stamp, len: usize) -> Document {
    Document::new(id, stamp.hlc(), payload(id, stamp, len))
}

pub fn meta(id: u64, stamp: Stamp) -> DocumentMetadata {
    DocumentMetadata::new(id, stamp.hlc())
}

pub fn msg_set(source: usize, d: Document) -> Set<ModelStore> {
    Set { source, doc: d, ctx: None, _marker: PhantomData }
}

pub fn msg_multi_set(source: usize, docs: Vec<Document>) -> MultiSet<ModelStore> {
    MultiSet { source, docs: DocVec::from_vec(docs), ctx: None, _marker: PhantomData }
}

pub fn msg_del(source: usize, m: DocumentMetadata) -> Del<ModelStore> {
    Del { source, doc: m, _marker: PhantomData }
}

pub fn msg_multi_del(source: usize, docs: Vec<DocumentMetadata>) -> MultiDel<ModelStore> {
    MultiDel { source, docs: DocVec::from_vec(docs), _marker: PhantomData }
}

pub fn msg_purge() -> PurgeDeletes<ModelStore> {
    PurgeDeletes(PhantomData)
}

pub fn decode_set(bytes: &[u8]) -> OrSWotSet<2> {
    let mut aligned = AlignedVec::with_capacity(bytes.len());
    aligned.extend_from_slice(bytes);
    unsafe { rkyv::from_bytes_unchecked::<OrSWotSet<2>>(&aligned).expect("deserialise set") }
}

/// The in-memory set of a keyspace as the actor serialises it.
pub async fn actor_set(group: &Group, keyspace: &str) -> Option<OrSWotSet<2>> {
    let mailbox = group.verif_get(keyspace)?;
    let bytes = mailbox.send(Serialize).await.ok()?;
    Some(decode_set(&bytes))
}

pub async fn actor_view(group: &Group, keyspace: &str) -> SetView {
    match actor_set(group, keyspace).await {
        Some(s) => view(&s),
        None => SetView::default(),
    }
}

/// What storage holds for a keyspace, in the same shape as a set view.
pub fn store_view(store: &ModelStore, keyspace: &str) -> SetView {
    let mut v = SetView::default();
    for (k, (ts, tomb)) in store.metadata(keyspace) {
        if tomb {
            v.dead.insert(k, Stamp::of(ts));
        } else {
            v.live.insert(k, Stamp::of(ts));
        }
    }
    v
}

pub fn hlc(s: Stamp) -> HLCTimestamp {
    s.hlc()
}
