//! C06 — a successful write has reached the replicas its consistency level promises.

use std::collections::{BTreeMap, BTreeSet};
use std::time::Duration;

use datacake_eventual_consistency::StoreError;
use datacake_node::{Consistency, ConsistencyError};
use datacake_rpc::verif::Verdict;
use serde_json::{json, Value};

use crate::c01::{check_converged, ks_name, level_name};
use crate::c15::{required, Layout as DcLayout, LEVELS};
use crate::core::{Fail, Outcome, Pass, Prop, Src};
use crate::e3::{self, addr_of, Class, Layout, NodeH};
use crate::ensure;
use crate::model::Stamp;
use crate::registry::{DynPart, Gen};

#[derive(Debug, Clone, Copy, PartialEq, Eq)]
pub enum Kind {
    Put,
    PutMany,
    Del,
    DelMany,
}

#[derive(Debug, Clone, Copy, PartialEq, Eq)]
pub enum Refusal {
    RequestDropped,
    ReplyDropped,
    StoreFails,
    Slow,
    Duplicated,
    /// the reply arrives after 2.6 s, beyond the 2 s the consistency error *names* as its timeout: the issuer applies no
    /// timeout of its own (the constant only appears in the error), so this is an acknowledgement like any other
    TooSlow,
    /// the replica's storage is busy: every write (of the direct message and of the batched copy alike) is performed only
    /// 2.6 s after it was asked for, and acknowledged then. Until then the replica holds nothing, whatever path the write
    /// took (after the seeded change `C06q`: with `TooSlow` the batched copy, which is not delayed, had long arrived)
    StoreStalls,
    /// the replica is a live member but does not serve the consistency service (it answers "unknown service"):
    /// a node between `connect()` and `add_extension()`, or one that never installs the extension
    NoService,
}

#[derive(Debug, Clone)]
pub struct Case {
    pub nodes: Vec<(u8, String)>,
    pub issuer: usize,
    pub level: usize,
    pub kind: Kind,
    pub keys: Vec<u64>,
    /// behaviour of replicas (by node index) that deviate from "deliver and acknowledge"
    pub behaviour: BTreeMap<usize, Refusal>,
    /// earlier selections at the issuer (move the selector's cursors)
    pub earlier: Vec<usize>,
    /// documents that exist cluster-wide before the operation (so deletes and overwrites matter)
    pub preload: bool,
    pub seed: u64,
    /// per node id: simulated latency of its storage calls in ms
    pub storage_latency_ms: BTreeMap<u8, u64>,
    /// 0 = one store extension per node; 1 / 2 = every node also hosts a second store extension of another storage
    /// type, added after / before the main one (seeded change `C06l`)
    pub second_store: u8,
}

pub struct C06;

impl Prop for C06 {
    type Case = Case;

    fn id(&self) -> &'static str {
        "C06"
    }

    fn part(&self) -> &'static str {
        "consistency-levels"
    }

    fn width(&self) -> usize {
        48
    }

    fn breadcrumbs(&self) -> bool {
        true
    }

    fn shrink_budget(&self) -> usize {
        500
    }

    fn gen(&self, src: &mut Src) -> Case {
        let n_dcs = 1 + src.below(3);
        // one cluster in forty is larger than the 10 requests the distributor and the poller keep in flight at once
        let n = if src.chance(1, 40) { 11 + src.below(3) } else { 1 + src.below(6) };
        // four naming styles; the fourth mixes nodes without a configured data centre (the default name) with labelled ones
        // (since the seeded change `C06n`)
        let style = src.below(4);
        let extreme = src.chance(1, 3);
        let nodes: Vec<(u8, String)> = (0..n).map(|i| (crate::c01::styled_id(extreme, i), crate::c15::dc_name(style, src.below(n_dcs)))).collect();
        let issuer = src.below(n);
        let level = src.below(LEVELS.len());
        let kind = *src.pick(&[Kind::Put, Kind::Del, Kind::PutMany, Kind::DelMany]);
        let keys = match kind {
            Kind::Put | Kind::Del => vec![1 + src.below64(3)],
            _ => {
                let mut s = BTreeSet::new();
                for _ in 0..1 + src.below(3) {
                    s.insert(1 + src.below64(4));
                }
                s.into_iter().collect()
            },
        };
        // one bulk operation in sixty names a thousand ids and more (sizes on and around 1024 and its multiples): whatever the
        // fan-out does in slices, pages or bounded messages (after the seeded change `C06r`; n <= 6 keeps the case cheap)
        let keys: Vec<u64> = if matches!(kind, Kind::PutMany | Kind::DelMany) && n <= 6 && src.chance(1, 60) {
            (1..=*src.pick(&[1_023u64, 1_024, 1_025, 1_500, 2_049])).collect()
        } else {
            keys
        };
        let mut behaviour = BTreeMap::new();
        for i in 0..n {
            if i != issuer && src.chance(1, 3) {
                behaviour.insert(
                    i,
                    *src.pick(&[Refusal::RequestDropped, Refusal::ReplyDropped, Refusal::StoreFails, Refusal::Slow, Refusal::Duplicated, Refusal::NoService, Refusal::TooSlow, Refusal::StoreStalls]),
                );
            }
        }
        let earlier = (0..src.below(4)).map(|_| src.below(LEVELS.len())).collect();
        let preload = src.chance(1, 2);
        let seed = src.word();
        let mut storage_latency_ms = BTreeMap::new();
        for (id, _) in &nodes {
            let ms = *src.pick(&[0u64, 0, 0, 1, 4]);
            if ms > 0 {
                storage_latency_ms.insert(*id, ms);
            }
        }
        let second_store = *src.pick(&[0u8, 0, 0, 0, 1, 2]);
        Case { nodes, issuer, level, kind, keys, behaviour, earlier, preload, seed, storage_latency_ms, second_store }
    }

    fn run(&self, case: &Case) -> Outcome {
        e3::sim(case.seed, 70_000_000, BTreeMap::new(), |net| run(case, net))
    }

    fn describe(&self, case: &Case) -> Value {
        json!({
            "nodes": case.nodes,
            "issuer": case.nodes[case.issuer].0,
            "level": level_name(case.level),
            "op": format!("{:?}", case.kind),
            "keys": if case.keys.len() > 16 { json!(format!("ids 1..={}", case.keys.len())) } else { json!(case.keys) },
            "replica_behaviour": case.behaviour.iter().map(|(i, r)| (case.nodes[*i].0.to_string(), format!("{:?}", r))).collect::<BTreeMap<_, _>>(),
            "earlier_selections": case.earlier.iter().map(|l| level_name(*l)).collect::<Vec<_>>(),
            "preload": case.preload,
            "seed": case.seed,
            "storage_latency_ms": case.storage_latency_ms,
            "second_store_extension": match case.second_store { 0 => "none", 1 => "added after the main one", _ => "added before the main one" },
        })
    }

    fn rule(&self) -> &'static str {
        "1-6 (one case in forty: 11-13) real nodes in 1-3 data centres (storage latency 0-4 ms per node), generated issuer, all 8 consistency levels, put/put_many/del/del_many, a \
         generated subset of replicas that drop the request, drop the reply, fail their storage write, answer slowly (1.7 s or 2.6 s), \
         get the message twice or do not serve the consistency service at all, preceded by 0-3 earlier selections (moves the selector cursors), optionally over \
         pre-existing documents; oracle: Ok => read immediately, the issuer and at least the required number of \
         distinct other nodes (per data centre for Local/EachQuorum) hold the mutation or a newer stamp for each id; \
         ConsistencyFailure => reported responses == acknowledgements that came back, required == replicas asked, \
         local write in place, and after healing + 3 repair intervals every node holds it; NotEnoughNodes => fewer \
         than the required other nodes exist; in half of the cases every node hosts a second store extension (another storage type) \
         and a write at level All through it must be readable from that store, and only from that store, on every node; non-trivial = level != None and (>=1 deviating replica or >=2 DCs)"
    }
}

fn dc_layout(case: &Case) -> DcLayout {
    let mut l = DcLayout::new();
    for (id, dc) in &case.nodes {
        l.entry(dc.clone()).or_default().push(addr_of(*id));
    }
    l
}

/// Does `node` hold, for `id`, the mutation stamped `t` or a newer one?
pub fn holds(node: &NodeH, ks: &str, id: u64, t: Stamp) -> bool {
    node.store.metadata(ks).get(&id).map(|(ts, _)| Stamp::of(*ts) >= t).unwrap_or(false)
}

/// Two stores on one node are two replicated stores: nothing written through one may show up in the other.
fn check_stores_separate(nodes: &[NodeH], when: &str) -> Result<(), Fail> {
    for n in nodes {
        let Some(second) = &n.second else { continue };
        let stray: Vec<u64> = n.store.metadata(SIDE_KS).keys().copied().collect();
        ensure!(
            stray.is_empty(),
            "write-landed-in-the-wrong-store",
            "{when}: node {} holds ids {:?} of keyspace {SIDE_KS:?} in its MAIN store, they were written through the second store",
            n.id,
            stray
        );
        for ks in [ks_name(0), ks_name(1)] {
            let stray: Vec<u64> = second.store.metadata(&ks).keys().copied().collect();
            ensure!(
                stray.is_empty(),
                "write-landed-in-the-wrong-store",
                "{when}: node {} holds ids {:?} of keyspace {ks:?} in its SECOND store, they were written through the main store",
                n.id,
                stray
            );
        }
    }
    Ok(())
}

const SIDE_KS: &str = "side";

async fn run(case: &Case, net: e3::Net) -> Outcome {
    let layout = Layout { nodes: case.nodes.clone(), repair_interval: Duration::from_secs(5), storage_latency_ms: case.storage_latency_ms.clone() };
    e3::set_second_store(case.second_store);
    // a quarter of the cases: every node binds one address and advertises another (since the seeded change `C06m`)
    let elsewhere = case.seed & 6 == 6;
    e3::set_listen_elsewhere(elsewhere);
    let nodes = e3::start_cluster(&layout).await;
    let t0 = tokio::time::Instant::now();
    let ks = ks_name(0);
    let issuer = &nodes[case.issuer];
    let level = LEVELS[case.level];

    if case.preload {
        for k in 1..=4u64 {
            let _ = nodes[0].handle.put(&ks, k, vec![9u8; 4], Consistency::None).await;
        }
        e3::advance(8_000).await;
    }
    if let Some(second) = &issuer.second {
        // nothing deviates yet: a write at level All through the second store reaches that store on every node
        let r = second.handle.put(SIDE_KS, 4242, vec![3u8; 3], Consistency::All).await;
        ensure!(r.is_ok(), "unexpected-error", "put at level All through the second store of a healthy cluster failed: {:?}", r.map_err(|e| e.to_string()));
        for n in &nodes {
            let held = n.second.as_ref().map(|s| s.store.metadata(SIDE_KS).contains_key(&4242)).unwrap_or(false);
            ensure!(
                held,
                "ok-but-too-few-replicas",
                "put at level All through the second store returned Ok but the second store of node {} does not hold the document",
                n.id
            );
        }
        check_stores_separate(&nodes, "after a write through the second store")?;
    }
    for l in &case.earlier {
        let _ = issuer.node.select_nodes(LEVELS[*l]).await;
    }
    // Storage failures are injected only while no repair cycle runs: a failed write inside a repair makes
    // the poller wait on a std::time (wall clock) watchdog that a paused-time simulation cannot advance.
    e3::align_after_poller_cycle(t0, Duration::from_secs(5)).await;

    // install replica behaviour
    {
        let mut n = net.borrow_mut();
        n.log.clear();
        for (i, r) in &case.behaviour {
            let a = nodes[*i].addr;
            match r {
                Refusal::RequestDropped => {
                    n.per_dst.insert(a, Verdict::FailBefore);
                },
                Refusal::ReplyDropped => {
                    n.per_dst.insert(a, Verdict::FailAfter);
                },
                Refusal::Slow => {
                    n.per_dst.insert(a, Verdict::Delay(Duration::from_millis(1_700)));
                },
                Refusal::Duplicated => {
                    n.per_dst.insert(a, Verdict::Duplicate);
                },
                Refusal::TooSlow => {
                    n.per_dst.insert(a, Verdict::Delay(Duration::from_millis(2_600)));
                },
                Refusal::StoreFails => nodes[*i].store.inner.lock().fail_all = true,
                Refusal::StoreStalls => nodes[*i].store.inner.lock().write_delay_ms = 2_600,
                Refusal::NoService => {
                    use datacake_rpc::RpcService;
                    nodes[*i].node.verif_remove_rpc_service(
                        <datacake_eventual_consistency::verif::ConsistencyService<crate::store::ModelStore> as RpcService>::service_name(),
                    );
                },
            }
        }
    }
    let log_len_before = issuer.store.inner.lock().log.len();
    let started = tokio::time::Instant::now();
    let res = match case.kind {
        Kind::Put => issuer.handle.put(&ks, case.keys[0], vec![7u8; 5], level).await,
        Kind::PutMany => {
            let docs: Vec<(u64, Vec<u8>)> = case.keys.iter().map(|k| (*k, vec![*k as u8; 6])).collect();
            issuer.handle.put_many(&ks, docs, level).await
        },
        Kind::Del => issuer.handle.del(&ks, case.keys[0], level).await,
        Kind::DelMany => issuer.handle.del_many(&ks, case.keys.clone(), level).await,
    };
    let elapsed = started.elapsed();

    // what the issuer wrote for this operation
    let written: Vec<(u64, Stamp)> = {
        let g = issuer.store.inner.lock();
        g.log[log_len_before..]
            .iter()
            .filter(|(k, _, ts, _)| *k == ks && ts.node() == issuer.id)
            .map(|(_, id, ts, _)| (*id, Stamp::of(*ts)))
            .collect()
    };
    let asked: BTreeSet<std::net::SocketAddr> =
        net.borrow().log.iter().filter(|(_, c, _)| *c == Class::Direct).map(|(d, _, _)| *d).collect();
    let dcl = dc_layout(case);
    let local_dc = case.nodes[case.issuer].1.clone();
    let (need, per_dc) = required(level, &dcl, &local_dc);
    let others = case.nodes.len() - 1;

    let mut labels = vec![];
    match &res {
        Ok(()) => {
            labels.push("ok");
            ensure!(
                written.len() == case.keys.len(),
                "ok-without-local-write",
                "call returned Ok but the issuer wrote {:?} for keys {:?}",
                written,
                case.keys
            );
            for (id, t) in &written {
                ensure!(holds(issuer, &ks, *id, *t), "ok-without-local-write", "issuer does not hold id {id} at {:?}", t);
                let holders: Vec<&NodeH> = nodes.iter().filter(|n| n.id != issuer.id && holds(n, &ks, *id, *t)).collect();
                ensure!(
                    holders.len() >= need,
                    "ok-but-too-few-replicas",
                    "{:?} returned Ok but only {} other nodes hold id {id} at {:?} (required {need}); holders {:?}, asked {:?}",
                    level,
                    holders.len(),
                    t,
                    holders.iter().map(|n| n.id).collect::<Vec<_>>(),
                    asked
                );
                for (dc, dc_need) in &per_dc {
                    let in_dc = holders.iter().filter(|n| n.dc == *dc).count();
                    ensure!(
                        in_dc >= *dc_need,
                        "ok-but-too-few-replicas-in-dc",
                        "{:?} returned Ok but only {in_dc} other nodes of {dc} hold id {id} (required {dc_need})",
                        level
                    );
                }
            }
        },
        Err(StoreError::ConsistencyError(ConsistencyError::ConsistencyFailure { responses, required: req, .. })) => {
            labels.push("consistency_failure");
            // acknowledgements that actually came back
            let acks = asked
                .iter()
                .filter(|a| {
                    let idx = nodes.iter().position(|n| n.addr == **a).unwrap();
                    !matches!(
                        case.behaviour.get(&idx),
                        Some(Refusal::RequestDropped) | Some(Refusal::ReplyDropped) | Some(Refusal::StoreFails) | Some(Refusal::NoService)
                    )
                })
                .count();
            // A replica that answers only after the 2 s the error names as its timeout (behaviour TooSlow: 2.6 s) has
            // acknowledged by the time the harness looks, but an implementation that gives up on a replica after those
            // 2 s reports the call without it: the statement ("stating how many did") allows both, so its acknowledgement
            // may or may not be counted. (Found by the benign change eccore-5, which enforces the documented timeout:
            // my oracle demanded the late answer to be counted.)
            let late = asked
                .iter()
                .filter(|a| {
                    let idx = nodes.iter().position(|n| n.addr == **a).unwrap();
                    matches!(case.behaviour.get(&idx), Some(Refusal::TooSlow) | Some(Refusal::StoreStalls))
                })
                .count();
            ensure!(
                *responses <= acks && *responses + late >= acks && *req == asked.len(),
                "wrong-response-count",
                "error reports {responses} of {req} responses; {acks} acknowledgements came back from {} replicas asked ({late} of them later than 2 s)",
                asked.len()
            );
            ensure!(*responses < asked.len(), "spurious-consistency-failure", "all {acks} asked replicas acknowledged, yet the call failed");
            ensure!(written.len() == case.keys.len(), "failed-without-local-write", "consistency error but the issuer wrote {:?}", written);
            for (id, t) in &written {
                ensure!(holds(issuer, &ks, *id, *t), "failed-without-local-write", "issuer does not hold id {id} at {:?}", t);
            }
        },
        Err(StoreError::ConsistencyError(ConsistencyError::NotEnoughNodes { .. })) => {
            labels.push("not_enough_nodes");
            let mut enough = others >= need;
            for (dc, dc_need) in &per_dc {
                let avail = case.nodes.iter().enumerate().filter(|(i, (_, d))| *i != case.issuer && d == dc).count();
                enough &= avail >= *dc_need;
            }
            ensure!(
                !enough,
                "spurious-not-enough-nodes",
                "{:?} failed with NotEnoughNodes although {others} other live nodes exist and {need} are required",
                level
            );
        },
        Err(e) => {
            return Err(Fail { signature: "unexpected-error".into(), message: format!("unexpected error: {e}") });
        },
    }

    // heal; the write must reach everybody later on
    {
        let mut n = net.borrow_mut();
        n.per_dst.clear();
    }
    for (i, n) in nodes.iter().enumerate() {
        let mut g = n.store.inner.lock();
        g.fail_all = false;
        if case.behaviour.get(&i) == Some(&Refusal::StoreStalls) {
            g.write_delay_ms = 0;
        }
    }
    e3::advance(1_000 + 3 * 5_000 + 500).await;
    for (id, t) in &written {
        for n in &nodes {
            ensure!(
                holds(n, &ks, *id, *t),
                "not-replicated-later",
                "after healing + 3 repair intervals node {} still lacks id {id} at {:?} (call result {:?})",
                n.id,
                t,
                res.as_ref().map_err(|e| e.to_string())
            );
        }
    }
    check_converged(&nodes, 1, "after the consistency-level operation healed")?;
    check_stores_separate(&nodes, "at the end")?;
    if case.second_store != 0 {
        labels.push("two_store_extensions");
    }
    if elsewhere {
        labels.push("listen_addr_differs_from_public_addr");
    }

    let dcs: BTreeSet<&String> = case.nodes.iter().map(|(_, d)| d).collect();
    if dcs.len() >= 2 {
        labels.push("multi_dc");
    }
    if !case.behaviour.is_empty() {
        labels.push("deviating_replica");
    }
    if !case.storage_latency_ms.is_empty() {
        labels.push("slow_storage");
    }
    if case.nodes.len() > 10 {
        labels.push("more_than_10_nodes");
    }
    if case.keys.len() > 1_000 {
        labels.push("bulk_of_more_than_1000_ids");
    }
    if elapsed >= Duration::from_millis(1_700) {
        labels.push("waited_for_slow_replica");
    }
    labels.push(match level {
        Consistency::None => "L_none",
        Consistency::One | Consistency::Two | Consistency::Three => "L_n",
        Consistency::All => "L_all",
        _ => "L_quorum",
    });
    let nontrivial = level != Consistency::None && (!case.behaviour.is_empty() || dcs.len() >= 2);
    Ok(Pass { nontrivial, labels })
}

pub fn parts() -> Vec<Box<dyn DynPart>> {
    vec![Box::new(Gen::new(C06, 100_000, 3_000_000))]
}

// ---------------------------------------------------------------------------------------
// Part `after-membership-change`: the promise is relative to the membership the issuer knows *now*.  Earlier
// selections (which fill the selector's 2 s result cache) are followed by a join and / or a leave, and the
// operation comes 50 ms - 2.5 s after the update.

pub mod membership {
    use std::collections::{BTreeMap, BTreeSet};
    use std::time::Duration;

    use datacake_eventual_consistency::StoreError;
    use datacake_node::{Consistency, ConsistencyError};
    use serde_json::{json, Value};

    use super::{holds, Kind};
    use crate::c01::{check_converged, ks_name, level_name};
    use crate::c15::{required, Layout as DcLayout, LEVELS};
    use crate::core::{Fail, Outcome, Pass, Prop, Src};
    use crate::e3::{self, addr_of, Class, Layout};
    use crate::ensure;
    use crate::model::Stamp;
    use crate::registry::{DynPart, Gen};

    #[derive(Debug, Clone)]
    pub struct Case {
        pub nodes: Vec<(u8, String)>,
        pub issuer: usize,
        pub level: usize,
        pub kind: Kind,
        pub keys: Vec<u64>,
        /// selections at the issuer before the membership changes (fill the result cache, move the cursors)
        pub earlier: Vec<usize>,
        /// data centre of a node that joins
        pub joiner: Option<String>,
        /// index of a node (not the issuer) that leaves
        pub leaver: Option<usize>,
        /// time between the membership update and the operation
        pub gap_ms: u64,
        pub preload: bool,
        pub seed: u64,
    }

    pub struct AfterChange;

    impl Prop for AfterChange {
        type Case = Case;

        fn id(&self) -> &'static str {
            "C06"
        }

        fn part(&self) -> &'static str {
            "after-membership-change"
        }

        fn width(&self) -> usize {
            48
        }

        fn breadcrumbs(&self) -> bool {
            true
        }

        fn shrink_budget(&self) -> usize {
            400
        }

        fn gen(&self, src: &mut Src) -> Case {
            let n_dcs = 1 + src.below(2);
            let n = 1 + src.below(4);
            let style = src.below(4);
            let nodes: Vec<(u8, String)> = (0..n).map(|i| (i as u8 + 1, crate::c15::dc_name(style, src.below(n_dcs)))).collect();
            let issuer = src.below(n);
            let level = src.below(LEVELS.len());
            let kind = *src.pick(&[Kind::Put, Kind::Del, Kind::PutMany, Kind::DelMany]);
            let keys = match kind {
                Kind::Put | Kind::Del => vec![1 + src.below64(3)],
                _ => {
                    let mut s = BTreeSet::new();
                    for _ in 0..1 + src.below(3) {
                        s.insert(1 + src.below64(4));
                    }
                    s.into_iter().collect()
                },
            };
            // the operation's own level is selected beforehand most of the time: that is what the cache keeps
            let earlier = (0..src.below(4)).map(|_| if src.chance(2, 3) { level } else { src.below(LEVELS.len()) }).collect();
            let change = src.weighted(&[3, 2, 2]);
            let joiner = if change == 0 || change == 2 { Some(crate::c15::dc_name(style, src.below(n_dcs))) } else { None };
            let leaver = if (change == 1 || change == 2) && n >= 2 {
                let others: Vec<usize> = (0..n).filter(|i| *i != issuer).collect();
                Some(others[src.below(others.len())])
            } else {
                None
            };
            let gap_ms = *src.pick(&[50u64, 50, 300, 1_900, 2_500]);
            Case { nodes, issuer, level, kind, keys, earlier, joiner, leaver, gap_ms, preload: src.chance(1, 2), seed: src.word() }
        }

        fn run(&self, case: &Case) -> Outcome {
            e3::sim(case.seed, 70_000_000, BTreeMap::new(), |net| run(case, net))
        }

        fn describe(&self, case: &Case) -> Value {
            json!({
                "nodes": case.nodes,
                "issuer": case.nodes[case.issuer].0,
                "earlier_selections": case.earlier.iter().map(|l| level_name(*l)).collect::<Vec<_>>(),
                "then_joins_in": case.joiner,
                "then_leaves": case.leaver.map(|i| case.nodes[i].0),
                "operation_after_ms": case.gap_ms,
                "level": level_name(case.level),
                "op": format!("{:?}", case.kind),
                "keys": case.keys,
                "preload": case.preload,
            })
        }

        fn rule(&self) -> &'static str {
            "1-4 real nodes in 1-2 data centres; 0-3 selections at the issuer (mostly at the operation's own level: they \
             fill the selector's 2 s result cache); then a node joins and / or another node leaves (membership snapshot \
             published on every remaining node, the leaver is stopped); 50 ms - 2.5 s later put/put_many/del/del_many at a \
             generated level; oracle relative to the NEW membership: Ok => the issuer and at least the required number of \
             distinct other current members (per data centre for Local/EachQuorum) hold the mutation or a newer stamp, and \
             no request of the operation went to the node that left; NotEnoughNodes => fewer than the required other \
             current members exist; ConsistencyFailure is not expected (every current member answers); afterwards every \
             current member, the joiner included, converges to the LWW documents; non-trivial = level != None and the \
             operation's level was selected before the change"
        }
    }

    async fn run(case: &Case, net: e3::Net) -> Outcome {
        let repair = Duration::from_secs(5);
        let layout = Layout { nodes: case.nodes.clone(), repair_interval: repair, storage_latency_ms: Default::default() };
        let mut nodes = e3::start_cluster(&layout).await;
        let t0 = tokio::time::Instant::now();
        let ks = ks_name(0);
        let level = LEVELS[case.level];
        let issuer_id = case.nodes[case.issuer].0;

        if case.preload {
            // written at the issuer, which never leaves: the LWW model is built from the logs of the nodes that remain
            let origin = nodes.iter().find(|n| n.id == issuer_id).unwrap();
            for k in 1..=4u64 {
                let _ = origin.handle.put(&ks, k, vec![9u8; 4], Consistency::None).await;
            }
            e3::advance(8_000).await;
        }
        // a node must not die in the middle of a repair (wall-clock watchdog artefact, see e3.rs)
        e3::align_after_poller_cycle(t0, repair).await;
        {
            let issuer = nodes.iter().find(|n| n.id == issuer_id).unwrap();
            for l in &case.earlier {
                let _ = issuer.node.select_nodes(LEVELS[*l]).await;
            }
        }

        // the membership changes
        let mut current: Vec<(u8, String)> = case.nodes.clone();
        let mut left_addr = None;
        if let Some(i) = case.leaver {
            let id = case.nodes[i].0;
            current.retain(|(x, _)| *x != id);
            let pos = nodes.iter().position(|n| n.id == id).unwrap();
            let gone = nodes.remove(pos);
            left_addr = Some(gone.addr);
            let _ = e3::kill_node(gone).await;
        }
        let mut joiner_id = None;
        if let Some(dc) = &case.joiner {
            let id = 9u8;
            current.push((id, dc.clone()));
            joiner_id = Some(id);
        }
        let members = e3::members_of(&current);
        for n in &nodes {
            n.node.verif_set_members(members.clone());
        }
        if let (Some(id), Some(dc)) = (joiner_id, &case.joiner) {
            let fresh = e3::start_node(id, dc, crate::store::ModelStore::default(), &members, repair).await;
            nodes.push(fresh);
        }
        net.borrow_mut().log.clear();
        e3::advance(case.gap_ms).await;

        let issuer = nodes.iter().find(|n| n.id == issuer_id).unwrap();
        let log_len_before = issuer.store.inner.lock().log.len();
        net.borrow_mut().log.clear();
        let res = match case.kind {
            Kind::Put => issuer.handle.put(&ks, case.keys[0], vec![7u8; 5], level).await,
            Kind::PutMany => {
                let docs: Vec<(u64, Vec<u8>)> = case.keys.iter().map(|k| (*k, vec![*k as u8; 6])).collect();
                issuer.handle.put_many(&ks, docs, level).await
            },
            Kind::Del => issuer.handle.del(&ks, case.keys[0], level).await,
            Kind::DelMany => issuer.handle.del_many(&ks, case.keys.clone(), level).await,
        };
        let written: Vec<(u64, Stamp)> = {
            let g = issuer.store.inner.lock();
            g.log[log_len_before..].iter().filter(|(k, _, ts, _)| *k == ks && ts.node() == issuer.id).map(|(_, id, ts, _)| (*id, Stamp::of(*ts))).collect()
        };
        let asked: BTreeSet<std::net::SocketAddr> = net.borrow().log.iter().filter(|(_, c, _)| *c == Class::Direct).map(|(d, _, _)| *d).collect();

        let mut dcl = DcLayout::new();
        for (id, dc) in &current {
            dcl.entry(dc.clone()).or_default().push(addr_of(*id));
        }
        let local_dc = case.nodes[case.issuer].1.clone();
        let (need, per_dc) = required(level, &dcl, &local_dc);
        let others = current.len() - 1;
        if let Some(a) = left_addr {
            ensure!(
                !asked.contains(&a),
                "asked-a-node-that-left",
                "{:?} {} ms after the membership update still sent a request to {a}, which had left; asked {:?}",
                level,
                case.gap_ms,
                asked
            );
        }
        let mut labels = vec![];
        match &res {
            Ok(()) => {
                labels.push("ok");
                ensure!(written.len() == case.keys.len(), "ok-without-local-write", "call returned Ok but the issuer wrote {:?} for keys {:?}", written, case.keys);
                for (id, t) in &written {
                    let holders: Vec<&e3::NodeH> = nodes.iter().filter(|n| n.id != issuer.id && holds(n, &ks, *id, *t)).collect();
                    ensure!(
                        holders.len() >= need,
                        "ok-but-too-few-replicas",
                        "{:?} returned Ok {} ms after the membership became {:?}, but only {} other members hold id {id} at {:?} (required {need}); holders {:?}, asked {:?}",
                        level,
                        case.gap_ms,
                        current,
                        holders.len(),
                        t,
                        holders.iter().map(|n| n.id).collect::<Vec<_>>(),
                        asked
                    );
                    for (dc, dc_need) in &per_dc {
                        let in_dc = holders.iter().filter(|n| n.dc == *dc).count();
                        ensure!(
                            in_dc >= *dc_need,
                            "ok-but-too-few-replicas-in-dc",
                            "{:?} returned Ok but only {in_dc} other members of {dc} hold id {id} (required {dc_need}; membership {:?})",
                            level,
                            current
                        );
                    }
                }
            },
            Err(StoreError::ConsistencyError(ConsistencyError::NotEnoughNodes { .. })) => {
                labels.push("not_enough_nodes");
                let mut enough = others >= need;
                for (dc, dc_need) in &per_dc {
                    let avail = current.iter().filter(|(id, d)| *id != issuer_id && d == dc).count();
                    enough &= avail >= *dc_need;
                }
                ensure!(
                    !enough,
                    "spurious-not-enough-nodes",
                    "{:?} failed with NotEnoughNodes {} ms after the membership became {:?} ({others} other members, {need} required)",
                    level,
                    case.gap_ms,
                    current
                );
            },
            Err(e) => {
                return Err(Fail {
                    signature: "unexpected-error".into(),
                    message: format!("{:?} failed with {e} although every current member ({:?}) answers; asked {:?}", level, current, asked),
                });
            },
        }
        e3::advance(1_000 + 3 * 5_000 + 500).await;
        check_converged(&nodes, 1, "after the membership change and the operation, 3 repair intervals later")?;

        if case.joiner.is_some() {
            labels.push("join");
        }
        if case.leaver.is_some() {
            labels.push("leave");
        }
        let primed = case.earlier.contains(&case.level);
        if primed && case.gap_ms < 2_000 {
            labels.push("level_cached_before_the_change");
        }
        Ok(Pass { nontrivial: level != Consistency::None && primed, labels })
    }

    pub fn parts() -> Vec<Box<dyn DynPart>> {
        vec![Box::new(Gen::new(AfterChange, 40_000, 1_500_000))]
    }
}

pub fn parts_all() -> Vec<Box<dyn DynPart>> {
    let mut p = parts();
    p.extend(membership::parts());
    p
}
