//! C12 — RPC delivers exactly the bytes sent; damaged or short frames are rejected.
//! Part `frames` (E1): to_view_bytes / DataView::using on generated values and corrupted frames.

use std::collections::BTreeMap;

use datacake_rpc::{to_view_bytes, DataView, ErrorCode, Status};
use rkyv::AlignedVec;
use serde_json::{json, Value};

use crate::core::{Fail, Outcome, Pass, Prop, Src};
use crate::ensure;
use crate::msgs::{Blob, Fixed, Nested, Six, Small, Text, Unit};
use crate::registry::{DynPart, Gen};

#[derive(Debug, Clone)]
pub enum Msg {
    Fixed(Fixed),
    Text(Text),
    Blob(Blob),
    Nested(Nested),
    Unit(Unit),
    Status(u8, String),
    Small(Small),
    Six(Six),
}

#[derive(Debug, Clone)]
pub struct Case {
    pub msg: Msg,
    /// seed words for sampled corruptions of large frames / extensions
    pub noise: Vec<u64>,
}

pub struct Frames;

fn gen_len(src: &mut Src) -> usize {
    match src.weighted(&[4, 6, 4, 2, 1]) {
        0 => 0,
        1 => 1 + src.below(40),
        2 => 40 + src.below(1_000),
        3 => 1_000 + src.below(20_000),
        _ => *src.pick(&[65_536usize, 200_000, 1 << 20]),
    }
}

fn gen_string(src: &mut Src) -> String {
    let n = gen_len(src).min(70_000);
    let alphabet = ['a', 'Z', '0', ' ', '-', 'é', '\u{4e2d}', '\u{1F600}', '\0'];
    let mut s = String::with_capacity(n);
    let a = src.below(alphabet.len());
    let b = src.below(alphabet.len());
    for i in 0..n {
        s.push(if i % 3 == 0 { alphabet[a] } else { alphabet[b] });
    }
    s
}

fn gen_bytes(src: &mut Src) -> Vec<u8> {
    let n = gen_len(src);
    let head = src.bytes(n.min(64));
    let mut v = Vec::with_capacity(n);
    for i in 0..n {
        v.push(head[i % head.len().max(1)].wrapping_add((i / 64) as u8));
    }
    v
}

pub fn gen_msg(src: &mut Src) -> Msg {
    match src.weighted(&[2, 2, 3, 3, 1, 1, 1, 1]) {
        0 => {
            let b = src.bytes(12);
            let mut buf = [0u8; 12];
            buf.copy_from_slice(&b);
            Msg::Fixed(Fixed { a: src.word() as u32, b: src.word(), c: src.word() as i64, buf })
        },
        1 => Msg::Text(Text { s: gen_string(src) }),
        2 => Msg::Blob(Blob { id: src.word(), data: gen_bytes(src) }),
        3 => {
            let inner = if src.chance(1, 2) { Some(Blob { id: src.word(), data: gen_bytes(src) }) } else { None };
            // collection lengths: small, or around the powers of two where serialiser scratch space and hash-map
            // layouts change (a Vec of 128 strings needs exactly 1024 bytes of scratch)
            let boundary = [15usize, 16, 17, 31, 32, 33, 63, 64, 65, 127, 128, 129, 255, 256, 257, 511, 512, 513, 1023, 1024, 1025];
            let n_list = if src.chance(1, 4) { *src.pick(&boundary) } else { src.below(5) };
            let list = if n_list > 4 {
                let tail = src.below(3);
                (0..n_list).map(|i| Text { s: "x".repeat((i + tail) % 3) }).collect()
            } else {
                (0..n_list).map(|_| Text { s: gen_string(src) }).collect()
            };
            let n_map = if src.chance(1, 6) { *src.pick(&boundary) } else { src.below(5) };
            let mut map = BTreeMap::new();
            for i in 0..n_map {
                map.insert(format!("k{i}-{}", src.below(1000)), src.word());
            }
            Msg::Nested(Nested { name: gen_string(src), inner, list, map, tail: src.word() as u16 })
        },
        4 => Msg::Unit(Unit),
        5 => Msg::Status(src.below(5) as u8, gen_string(src)),
        6 => Msg::Small(Small { a: src.word() as u8, flag: src.chance(1, 2), b: src.word() as u8 }),
        _ => {
            let b = src.bytes(6);
            let mut bytes = [0u8; 6];
            bytes.copy_from_slice(&b);
            Msg::Six(Six { bytes, tail: src.word() as u16, last: src.word() as u8 })
        },
    }
}

fn status_of(code: u8, message: &str) -> Status {
    let code = match code {
        0 => ErrorCode::ServiceUnavailable,
        1 => ErrorCode::InternalError,
        2 => ErrorCode::InvalidPayload,
        3 => ErrorCode::ConnectionError,
        _ => ErrorCode::Timeout,
    };
    Status { code, message: message.to_string() }
}

fn with_trailer(body: &[u8]) -> AlignedVec {
    let mut v = AlignedVec::with_capacity(body.len() + 4);
    v.extend_from_slice(body);
    v.extend_from_slice(&crc32fast::hash(body).to_le_bytes());
    v
}

fn aligned(bytes: &[u8]) -> AlignedVec {
    let mut v = AlignedVec::with_capacity(bytes.len());
    v.extend_from_slice(bytes);
    v
}

fn trailer_matches(frame: &[u8]) -> bool {
    if frame.len() < 4 {
        return false;
    }
    let (body, tr) = frame.split_at(frame.len() - 4);
    crc32fast::hash(body).to_le_bytes() == tr
}

struct FrameStats {
    len: usize,
    flips: usize,
    truncations: usize,
    crafted: usize,
    out_of_line: bool,
}

macro_rules! frames_for {
    ($name:ident, $ty:ty) => {
        fn $name(value: &$ty, noise: &[u64]) -> Result<FrameStats, Fail> {
            let frame = to_view_bytes(value).map_err(|e| Fail {
                signature: "serialise-failed".into(),
                message: format!("to_view_bytes failed: {e}"),
            })?;
            let n = frame.len();
            let root = std::mem::size_of::<rkyv::Archived<$ty>>();
            // true = refused; a panic inside `using` is reported with what was being tried
            let refused = |f: AlignedVec, what: &str| -> Result<bool, Fail> {
                let len = f.len();
                match std::panic::catch_unwind(std::panic::AssertUnwindSafe(|| DataView::<$ty>::using(f).is_err())) {
                    Ok(r) => Ok(r),
                    Err(_) => Err(Fail {
                        signature: "invalid-frame-panics".into(),
                        message: format!("DataView::using panicked on a {len}-byte frame ({what}); archived root needs {root} bytes + 4 trailer"),
                    }),
                }
            };
            ensure!(n >= root + 4, "frame-too-short", "valid frame of {n} bytes is shorter than root {root} + trailer");

            // 1. round trip
            let view = DataView::<$ty>::using(aligned(&frame));
            ensure!(view.is_ok(), "valid-frame-refused", "a frame produced by to_view_bytes ({n} bytes) is refused");
            let view = view.unwrap();
            let back: Result<$ty, _> = view.deserialize_view();
            ensure!(
                matches!(&back, Ok(b) if b == value),
                "roundtrip-differs",
                "value read back from its frame differs: sent {:?}",
                value
            );
            ensure!(view.as_bytes() == &frame[..], "roundtrip-differs", "view bytes differ from the frame");

            // 1b. a clone of a view is a view of its own: it outlives the view it was cloned from. The original is
            // dropped, blocks of the same size are allocated and overwritten (an allocator hands the freed block
            // out again), and the clone must still show the value that was sent.
            {
                let original = DataView::<$ty>::using(aligned(&frame)).map_err(|_| Fail {
                    signature: "valid-frame-refused".into(),
                    message: format!("a frame produced by to_view_bytes ({n} bytes) is refused the second time"),
                })?;
                let copy = original.clone();
                let copy2 = copy.clone();
                drop(original);
                let fill = (noise.get(4).copied().unwrap_or(0xA5) as u8) | 0x81;
                let scribble: Vec<AlignedVec> = (0..3)
                    .map(|_| {
                        let mut v = AlignedVec::with_capacity(n);
                        v.resize(n, fill);
                        v
                    })
                    .collect();
                let back = std::panic::catch_unwind(std::panic::AssertUnwindSafe(|| copy.deserialize_view()));
                ensure!(
                    matches!(&back, Ok(Ok(b)) if b == value),
                    "clone-of-view-differs",
                    "a clone of a view, read after the view it was cloned from was dropped, does not show the value sent: sent {:?}",
                    value
                );
                ensure!(copy.as_bytes() == &frame[..], "clone-of-view-differs", "bytes of a cloned view differ from the frame");
                drop(copy);
                let back2 = std::panic::catch_unwind(std::panic::AssertUnwindSafe(|| copy2.deserialize_view()));
                ensure!(
                    matches!(&back2, Ok(Ok(b)) if b == value),
                    "clone-of-view-differs",
                    "a clone of a clone of a view, read after both earlier views were dropped, does not show the value sent: sent {:?}",
                    value
                );
                drop(scribble);
            }

            // 2. single-bit flips: exhaustive up to 4 KiB, 2000 sampled bits beyond
            let total_bits = n * 8;
            let mut flips = 0;
            let mut flip = |bit: usize| -> Result<(), Fail> {
                let mut f = aligned(&frame);
                f[bit / 8] ^= 1 << (bit % 8);
                ensure!(
                    refused(f, "single bit flipped")?,
                    "bit-flip-accepted",
                    "frame of {n} bytes with bit {bit} flipped is accepted"
                );
                Ok(())
            };
            if n <= 4096 {
                for bit in 0..total_bits {
                    flip(bit)?;
                    flips += 1;
                }
            } else {
                let mut x = noise.get(0).copied().unwrap_or(1) | 1;
                for i in 0..2000usize {
                    x = crate::core::splitmix64(x);
                    // always include the first and last 64 bits
                    let bit = if i < 64 { i } else if i < 128 { total_bits - 1 - (i - 64) } else { (x % total_bits as u64) as usize };
                    flip(bit)?;
                    flips += 1;
                }
            }

            // 3. truncations: every length for small frames, every length below root+4 plus samples beyond
            let mut truncations = 0;
            let mut trunc = |len: usize| -> Result<(), Fail> {
                let f = aligned(&frame[..len]);
                let must_refuse = len < root + 4 || !trailer_matches(&frame[..len]);
                if must_refuse {
                    ensure!(
                        refused(f, "truncated valid frame")?,
                        if len < root + 4 { "short-frame-accepted" } else { "bad-checksum-accepted" },
                        "frame truncated from {n} to {len} bytes is accepted (root size {root})"
                    );
                }
                Ok(())
            };
            if n <= 4096 {
                for len in 0..n {
                    trunc(len)?;
                    truncations += 1;
                }
            } else {
                for len in 0..(root + 4 + 64).min(n) {
                    trunc(len)?;
                    truncations += 1;
                }
                let mut x = noise.get(1).copied().unwrap_or(2) | 1;
                for _ in 0..500 {
                    x = crate::core::splitmix64(x);
                    trunc((x % n as u64) as usize)?;
                    truncations += 1;
                }
            }

            // 4. extensions and multi-byte damage: refused whenever the trailer does not match
            let mut x = noise.get(2).copied().unwrap_or(3) | 1;
            for i in 0..24usize {
                x = crate::core::splitmix64(x);
                let mut bytes = frame.to_vec();
                if i % 2 == 0 {
                    for j in 0..1 + (x % 9) as usize {
                        bytes.push((x >> (j * 7)) as u8);
                    }
                } else {
                    let at = (x % n as u64) as usize;
                    for (j, b) in bytes.iter_mut().skip(at).take(1 + (x >> 40) as usize % 7).enumerate() {
                        *b = b.wrapping_add(1 + j as u8);
                    }
                }
                if !trailer_matches(&bytes) {
                    ensure!(
                        refused(aligned(&bytes), "damaged or extended frame")?,
                        "bad-checksum-accepted",
                        "damaged/extended frame ({} bytes, original {n}) with a non-matching trailer is accepted",
                        bytes.len()
                    );
                }
            }

            // 5. crafted short frames: body shorter than the archived root, *correct* trailer
            let mut crafted = 0;
            for body_len in 0..root {
                for fill in [0u8, 0xFF, (noise.get(3).copied().unwrap_or(7) as u8) | 1] {
                    let body: Vec<u8> = (0..body_len).map(|i| if fill == 0 || fill == 0xFF { fill } else { fill.wrapping_mul(i as u8 + 1) }).collect();
                    let f = with_trailer(&body);
                    ensure!(
                        refused(f, "crafted short body with correct checksum")?,
                        "short-frame-accepted",
                        "crafted frame with a {body_len}-byte body (archived root needs {root}) and a correct checksum is accepted"
                    );
                    crafted += 1;
                }
            }
            // a prefix of the real body with a recomputed trailer
            for body_len in 0..root.min(n - 4) {
                let f = with_trailer(&frame[..body_len]);
                ensure!(
                    refused(f, "prefix of a valid body with recomputed checksum")?,
                    "short-frame-accepted",
                    "crafted frame: first {body_len} body bytes + correct checksum is accepted (root {root})"
                );
                crafted += 1;
            }

            Ok(FrameStats { len: n, flips, truncations, crafted, out_of_line: n > root + 4 })
        }
    };
}

frames_for!(frames_fixed, Fixed);
frames_for!(frames_text, Text);
frames_for!(frames_blob, Blob);
frames_for!(frames_nested, Nested);
frames_for!(frames_unit, Unit);
frames_for!(frames_status, Status);
frames_for!(frames_small, Small);
frames_for!(frames_six, Six);

impl Prop for Frames {
    type Case = Case;

    fn id(&self) -> &'static str {
        "C12"
    }

    fn part(&self) -> &'static str {
        "frames"
    }

    fn width(&self) -> usize {
        120
    }

    fn breadcrumbs(&self) -> bool {
        true
    }

    fn gen(&self, src: &mut Src) -> Case {
        let msg = gen_msg(src);
        let noise = (0..4).map(|_| src.word()).collect();
        Case { msg, noise }
    }

    fn run(&self, case: &Case) -> Outcome {
        let st = match &case.msg {
            Msg::Fixed(v) => frames_fixed(v, &case.noise)?,
            Msg::Text(v) => frames_text(v, &case.noise)?,
            Msg::Blob(v) => frames_blob(v, &case.noise)?,
            Msg::Nested(v) => frames_nested(v, &case.noise)?,
            Msg::Unit(v) => frames_unit(v, &case.noise)?,
            Msg::Status(c, m) => frames_status(&status_of(*c, m), &case.noise)?,
            Msg::Small(v) => frames_small(v, &case.noise)?,
            Msg::Six(v) => frames_six(v, &case.noise)?,
        };
        let mut labels = vec![];
        labels.push(match &case.msg {
            Msg::Fixed(_) => "type_fixed",
            Msg::Text(_) => "type_string",
            Msg::Blob(_) => "type_bytes",
            Msg::Nested(_) => "type_nested",
            Msg::Unit(_) => "type_unit",
            Msg::Status(..) => "type_status",
            Msg::Small(_) | Msg::Six(_) => "type_small_alignment",
        });
        if st.len > 4096 {
            labels.push("frame>4KiB_sampled_flips");
        } else {
            labels.push("frame<=4KiB_all_flips");
        }
        if st.len > 65_536 {
            labels.push("frame>64KiB");
        }
        let _ = (st.flips, st.truncations, st.crafted);
        Ok(Pass { nontrivial: st.out_of_line, labels })
    }

    fn describe(&self, case: &Case) -> Value {
        let d = format!("{:?}", case.msg);
        let short: String = d.chars().take(300).collect();
        json!({"message": short, "debug_len": d.len()})
    }

    fn rule(&self) -> &'static str {
        "values of eight message types (fixed-size struct, two small structs with alignment 1 / 2 and sizes 3 / 10, String, Vec<u8>, nested Option/Vec/BTreeMap with 0-4 or \
         2^k-1 / 2^k / 2^k+1 (k = 4..10) elements, unit, rpc \
         Status) from empty to 1 MiB; per value: frame round-trips through DataView::using/deserialize_view; every \
         single-bit flip (all bits for frames <= 4 KiB, 2000 bits incl. both ends beyond) is refused; every \
         truncation below root+trailer is refused and every other truncation / extension / multi-byte damage is \
         refused unless its trailer happens to match (checked with an independent CRC32); crafted bodies shorter \
         than the archived root with a *correct* checksum are refused; a panic is a violation; non-trivial = frame \
         has out-of-line data (relative pointers)"
    }
}


// ---------------------------------------------------------------------------------------
// Part `chunked-bodies`: the same frames as they arrive from the wire -- an HTTP body delivered in
// several chunks, with or without an announced length -- through `RequestContents::from_body`, the entry
// point of the server for requests and of the client for replies.

#[derive(Debug, Clone)]
pub struct ChunkCase {
    pub msg: Msg,
    /// 0 = channel body (no announced length), 1 = stream body (no announced length), 2 = one buffer with its length
    pub body_kind: u8,
    /// cut positions as fractions of the frame length (2^-16 units); equal cuts give empty chunks
    pub cuts: Vec<u16>,
    /// 0 = intact, 1 = one bit flipped, 2 = truncated, 3 = extended by extra bytes in a chunk of their own,
    /// 4 = extended inside the last chunk
    pub damage: u8,
    pub noise: u64,
    /// yield between chunks (the reader sees `Pending` in between)
    pub paced: bool,
}

pub struct Chunked;

macro_rules! chunked_for {
    ($name:ident, $ty:ty) => {
        async fn $name(value: &$ty, case: &ChunkCase) -> Result<(usize, usize), Fail> {
            use datacake_rpc::RequestContents;
            let frame = to_view_bytes(value).map_err(|e| Fail { signature: "serialise-failed".into(), message: format!("to_view_bytes failed: {e}") })?;
            let n = frame.len();
            let root = std::mem::size_of::<rkyv::Archived<$ty>>();
            let mut bytes = frame.to_vec();
            let mut tail_chunk: Option<Vec<u8>> = None;
            match case.damage {
                1 => {
                    let bit = (case.noise % (n as u64 * 8)) as usize;
                    bytes[bit / 8] ^= 1 << (bit % 8);
                },
                2 => bytes.truncate((case.noise % n as u64) as usize),
                3 | 4 => {
                    let extra: Vec<u8> = (0..1 + (case.noise % 9) as usize).map(|j| (case.noise >> (j * 5)) as u8).collect();
                    if case.damage == 3 {
                        tail_chunk = Some(extra);
                    } else {
                        bytes.extend_from_slice(&extra);
                    }
                },
                _ => {},
            }
            // chunk boundaries
            let mut at: Vec<usize> = case.cuts.iter().map(|c| (*c as usize * (bytes.len() + 1)) >> 16).collect();
            at.sort();
            let mut chunks: Vec<Vec<u8>> = vec![];
            let mut prev = 0;
            for a in at {
                chunks.push(bytes[prev..a].to_vec());
                prev = a;
            }
            chunks.push(bytes[prev..].to_vec());
            if let Some(t) = tail_chunk {
                bytes.extend_from_slice(&t);
                chunks.push(t);
            }
            let n_chunks = chunks.len();
            let body = match case.body_kind {
                0 => {
                    let (mut tx, body) = hyper::Body::channel();
                    let paced = case.paced;
                    tokio::spawn(async move {
                        for c in chunks {
                            if tx.send_data(bytes::Bytes::from(c)).await.is_err() {
                                return;
                            }
                            if paced {
                                tokio::task::yield_now().await;
                            }
                        }
                    });
                    body
                },
                1 => hyper::Body::wrap_stream(futures::stream::iter(chunks.into_iter().map(|c| Ok::<_, std::io::Error>(bytes::Bytes::from(c))))),
                _ => hyper::Body::from(bytes.clone()),
            };
            let got = <$ty as RequestContents>::from_body(datacake_rpc::Body::new(body)).await;
            if case.damage == 0 {
                let view = match got {
                    Ok(v) => v,
                    Err(s) => {
                        return Err(Fail {
                            signature: "valid-frame-refused".into(),
                            message: format!("a valid {n}-byte frame delivered as {n_chunks} chunks (body kind {}) was refused: {:?}", case.body_kind, s),
                        })
                    },
                };
                let back: Result<$ty, _> = view.deserialize_view();
                ensure!(matches!(&back, Ok(b) if b == value), "roundtrip-differs", "value read from a {n_chunks}-chunk body differs from the one sent: {:?}", value);
                ensure!(view.as_bytes() == &frame[..], "roundtrip-differs", "bytes read from a {n_chunks}-chunk body differ from the frame");
            } else if bytes.len() < root + 4 || !trailer_matches(&bytes) {
                match got {
                    Ok(_) => {
                        return Err(Fail {
                            signature: if bytes.len() < root + 4 { "short-frame-accepted" } else { "bad-checksum-accepted" }.into(),
                            message: format!(
                                "a damaged body (damage kind {}, {} bytes on the wire, valid frame {n} bytes) delivered as {n_chunks} chunks (body kind {}) was accepted",
                                case.damage,
                                bytes.len(),
                                case.body_kind
                            ),
                        })
                    },
                    Err(s) => ensure!(
                        s.code == ErrorCode::InvalidPayload,
                        "wrong-refusal-kind",
                        "a damaged body was refused with {:?} instead of an invalid-payload status",
                        s
                    ),
                }
            }
            Ok((n, n_chunks))
        }
    };
}

chunked_for!(chunked_fixed, Fixed);
chunked_for!(chunked_text, Text);
chunked_for!(chunked_blob, Blob);
chunked_for!(chunked_nested, Nested);
chunked_for!(chunked_unit, Unit);
chunked_for!(chunked_status, Status);
chunked_for!(chunked_small, Small);
chunked_for!(chunked_six, Six);

impl Prop for Chunked {
    type Case = ChunkCase;

    fn id(&self) -> &'static str {
        "C12"
    }

    fn part(&self) -> &'static str {
        "chunked-bodies"
    }

    fn width(&self) -> usize {
        140
    }

    fn breadcrumbs(&self) -> bool {
        true
    }

    fn gen(&self, src: &mut Src) -> ChunkCase {
        let msg = gen_msg(src);
        let body_kind = src.weighted(&[4, 4, 1]) as u8;
        let n_cuts = *src.pick(&[0usize, 1, 2, 2, 3, 3, 5, 11]);
        let cuts = (0..n_cuts)
            .map(|_| match src.weighted(&[6, 1, 1, 1]) {
                0 => src.word() as u16,
                1 => 0,
                2 => u16::MAX,
                _ => 1 << 15,
            })
            .collect();
        let damage = src.weighted(&[5, 2, 2, 3, 1]) as u8;
        ChunkCase { msg, body_kind, cuts, damage, noise: src.word(), paced: src.chance(1, 2) }
    }

    fn run(&self, case: &ChunkCase) -> Outcome {
        let rt = tokio::runtime::Builder::new_current_thread().enable_all().build().unwrap();
        let (n, chunks) = rt.block_on(async {
            match &case.msg {
                Msg::Fixed(v) => chunked_fixed(v, case).await,
                Msg::Text(v) => chunked_text(v, case).await,
                Msg::Blob(v) => chunked_blob(v, case).await,
                Msg::Nested(v) => chunked_nested(v, case).await,
                Msg::Unit(v) => chunked_unit(v, case).await,
                Msg::Status(c, m) => chunked_status(&status_of(*c, m), case).await,
                Msg::Small(v) => chunked_small(v, case).await,
                Msg::Six(v) => chunked_six(v, case).await,
            }
        })?;
        let mut labels = vec![];
        labels.push(["intact", "bit_flipped", "truncated", "extended_in_own_chunk", "extended_in_last_chunk"][case.damage as usize]);
        labels.push(["channel_body", "stream_body", "sized_single_buffer"][case.body_kind as usize]);
        if chunks >= 3 {
            labels.push("chunks>=3");
        }
        if n > 65_536 {
            labels.push("frame>64KiB");
        }
        Ok(Pass { nontrivial: chunks >= 3 && case.body_kind != 2, labels })
    }

    fn describe(&self, case: &ChunkCase) -> Value {
        let d = format!("{:?}", case.msg);
        let short: String = d.chars().take(300).collect();
        json!({
            "message": short,
            "body": (["channel (no announced length)", "stream (no announced length)", "single buffer with length"][case.body_kind as usize]),
            "cuts_as_fraction_of_65536": case.cuts,
            "damage": (["none", "one bit flipped", "truncated", "extra bytes in a chunk of their own", "extra bytes in the last chunk"][case.damage as usize]),
            "noise": case.noise,
            "paced": case.paced,
        })
    }

    fn rule(&self) -> &'static str {
        "the six message types of part frames (values empty to 1 MiB); the frame of a value is handed to \
         RequestContents::from_body (entry point of the server for requests and of the client for replies) as a hyper \
         body of 1-12 chunks (generated cut points incl. empty chunks) built as a channel or a stream (no announced \
         length) or as one sized buffer, optionally with a yield between chunks; the frame is intact, has one bit \
         flipped, is truncated, or is extended by 1-9 bytes (in the last chunk or in a chunk of their own); oracle: an \
         intact frame yields a view whose bytes and deserialised value equal what was sent; a frame shorter than root + \
         trailer or whose trailer does not match (independent CRC32) is refused with an invalid-payload status; \
         non-trivial = >= 3 chunks without an announced length"
    }
}

pub fn parts() -> Vec<Box<dyn DynPart>> {
    vec![Box::new(Gen::new(Frames, 6_000, 300_000)), Box::new(Gen::new(Chunked, 300_000, 10_000_000))]
}
