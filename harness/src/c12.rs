//! C12 — RPC delivers exactly the bytes sent; damaged or short frames are rejected.
//! Part `frames` (E1): to_view_bytes / DataView::using on generated values and corrupted frames.

use std::collections::BTreeMap;

use datacake_rpc::{to_view_bytes, DataView, ErrorCode, Status};
use rkyv::AlignedVec;
use serde_json::{json, Value};

use crate::core::{Fail, Outcome, Pass, Prop, Src};
use crate::ensure;
use crate::msgs::{Blob, Fixed, Nested, Text, Unit};
use crate::registry::{DynPart, Gen};

#[derive(Debug, Clone)]
pub enum Msg {
    Fixed(Fixed),
    Text(Text),
    Blob(Blob),
    Nested(Nested),
    Unit(Unit),
    Status(u8, String),
}

#[derive(Debug, Clone)]
pub struct Case {
    pub msg: Msg,
    /// seed words for sampled corruptions of large frames / extensions
    pub noise: Vec<u64>,
}

pub struct Frames;

fn gen_len(src: &mut Src) -> usize {
    match src.weighted(&[4, 6, 4, 2, 1]) {
        0 => 0,
        1 => 1 + src.below(40),
        2 => 40 + src.below(1_000),
        3 => 1_000 + src.below(20_000),
        _ => *src.pick(&[65_536usize, 200_000, 1 << 20]),
    }
}

fn gen_string(src: &mut Src) -> String {
    let n = gen_len(src).min(70_000);
    let alphabet = ['a', 'Z', '0', ' ', '-', 'é', '\u{4e2d}', '\u{1F600}', '\0'];
    let mut s = String::with_capacity(n);
    let a = src.below(alphabet.len());
    let b = src.below(alphabet.len());
    for i in 0..n {
        s.push(if i % 3 == 0 { alphabet[a] } else { alphabet[b] });
    }
    s
}

fn gen_bytes(src: &mut Src) -> Vec<u8> {
    let n = gen_len(src);
    let head = src.bytes(n.min(64));
    let mut v = Vec::with_capacity(n);
    for i in 0..n {
        v.push(head[i % head.len().max(1)].wrapping_add((i / 64) as u8));
    }
    v
}

pub fn gen_msg(src: &mut Src) -> Msg {
    match src.weighted(&[2, 2, 3, 3, 1, 1]) {
        0 => {
            let b = src.bytes(12);
            let mut buf = [0u8; 12];
            buf.copy_from_slice(&b);
            Msg::Fixed(Fixed { a: src.word() as u32, b: src.word(), c: src.word() as i64, buf })
        },
        1 => Msg::Text(Text { s: gen_string(src) }),
        2 => Msg::Blob(Blob { id: src.word(), data: gen_bytes(src) }),
        3 => {
            let inner = if src.chance(1, 2) { Some(Blob { id: src.word(), data: gen_bytes(src) }) } else { None };
            let n_list = src.below(5);
            let list = (0..n_list).map(|_| Text { s: gen_string(src) }).collect();
            let n_map = src.below(5);
            let mut map = BTreeMap::new();
            for i in 0..n_map {
                map.insert(format!("k{i}-{}", src.below(1000)), src.word());
            }
            Msg::Nested(Nested { name: gen_string(src), inner, list, map, tail: src.word() as u16 })
        },
        4 => Msg::Unit(Unit),
        _ => Msg::Status(src.below(5) as u8, gen_string(src)),
    }
}

fn status_of(code: u8, message: &str) -> Status {
    let code = match code {
        0 => ErrorCode::ServiceUnavailable,
        1 => ErrorCode::InternalError,
        2 => ErrorCode::InvalidPayload,
        3 => ErrorCode::ConnectionError,
        _ => ErrorCode::Timeout,
    };
    Status { code, message: message.to_string() }
}

fn with_trailer(body: &[u8]) -> AlignedVec {
    let mut v = AlignedVec::with_capacity(body.len() + 4);
    v.extend_from_slice(body);
    v.extend_from_slice(&crc32fast::hash(body).to_le_bytes());
    v
}

fn aligned(bytes: &[u8]) -> AlignedVec {
    let mut v = AlignedVec::with_capacity(bytes.len());
    v.extend_from_slice(bytes);
    v
}

fn trailer_matches(frame: &[u8]) -> bool {
    if frame.len() < 4 {
        return false;
    }
    let (body, tr) = frame.split_at(frame.len() - 4);
    crc32fast::hash(body).to_le_bytes() == tr
}

struct FrameStats {
    len: usize,
    flips: usize,
    truncations: usize,
    crafted: usize,
    out_of_line: bool,
}

macro_rules! frames_for {
    ($name:ident, $ty:ty) => {
        fn $name(value: &$ty, noise: &[u64]) -> Result<FrameStats, Fail> {
            let frame = to_view_bytes(value).map_err(|e| Fail {
                signature: "serialise-failed".into(),
                message: format!("to_view_bytes failed: {e}"),
            })?;
            let n = frame.len();
            let root = std::mem::size_of::<rkyv::Archived<$ty>>();
            // true = refused; a panic inside `using` is reported with what was being tried
            let refused = |f: AlignedVec, what: &str| -> Result<bool, Fail> {
                let len = f.len();
                match std::panic::catch_unwind(std::panic::AssertUnwindSafe(|| DataView::<$ty>::using(f).is_err())) {
                    Ok(r) => Ok(r),
                    Err(_) => Err(Fail {
                        signature: "invalid-frame-panics".into(),
                        message: format!("DataView::using panicked on a {len}-byte frame ({what}); archived root needs {root} bytes + 4 trailer"),
                    }),
                }
            };
            ensure!(n >= root + 4, "frame-too-short", "valid frame of {n} bytes is shorter than root {root} + trailer");

            // 1. round trip
            let view = DataView::<$ty>::using(aligned(&frame));
            ensure!(view.is_ok(), "valid-frame-refused", "a frame produced by to_view_bytes ({n} bytes) is refused");
            let view = view.unwrap();
            let back: Result<$ty, _> = view.deserialize_view();
            ensure!(
                matches!(&back, Ok(b) if b == value),
                "roundtrip-differs",
                "value read back from its frame differs: sent {:?}",
                value
            );
            ensure!(view.as_bytes() == &frame[..], "roundtrip-differs", "view bytes differ from the frame");

            // 2. single-bit flips: exhaustive up to 4 KiB, 2000 sampled bits beyond
            let total_bits = n * 8;
            let mut flips = 0;
            let mut flip = |bit: usize| -> Result<(), Fail> {
                let mut f = aligned(&frame);
                f[bit / 8] ^= 1 << (bit % 8);
                ensure!(
                    refused(f, "single bit flipped")?,
                    "bit-flip-accepted",
                    "frame of {n} bytes with bit {bit} flipped is accepted"
                );
                Ok(())
            };
            if n <= 4096 {
                for bit in 0..total_bits {
                    flip(bit)?;
                    flips += 1;
                }
            } else {
                let mut x = noise.get(0).copied().unwrap_or(1) | 1;
                for i in 0..2000usize {
                    x = crate::core::splitmix64(x);
                    // always include the first and last 64 bits
                    let bit = if i < 64 { i } else if i < 128 { total_bits - 1 - (i - 64) } else { (x % total_bits as u64) as usize };
                    flip(bit)?;
                    flips += 1;
                }
            }

            // 3. truncations: every length for small frames, every length below root+4 plus samples beyond
            let mut truncations = 0;
            let mut trunc = |len: usize| -> Result<(), Fail> {
                let f = aligned(&frame[..len]);
                let must_refuse = len < root + 4 || !trailer_matches(&frame[..len]);
                if must_refuse {
                    ensure!(
                        refused(f, "truncated valid frame")?,
                        if len < root + 4 { "short-frame-accepted" } else { "bad-checksum-accepted" },
                        "frame truncated from {n} to {len} bytes is accepted (root size {root})"
                    );
                }
                Ok(())
            };
            if n <= 4096 {
                for len in 0..n {
                    trunc(len)?;
                    truncations += 1;
                }
            } else {
                for len in 0..(root + 4 + 64).min(n) {
                    trunc(len)?;
                    truncations += 1;
                }
                let mut x = noise.get(1).copied().unwrap_or(2) | 1;
                for _ in 0..500 {
                    x = crate::core::splitmix64(x);
                    trunc((x % n as u64) as usize)?;
                    truncations += 1;
                }
            }

            // 4. extensions and multi-byte damage: refused whenever the trailer does not match
            let mut x = noise.get(2).copied().unwrap_or(3) | 1;
            for i in 0..24usize {
                x = crate::core::splitmix64(x);
                let mut bytes = frame.to_vec();
                if i % 2 == 0 {
                    for j in 0..1 + (x % 9) as usize {
                        bytes.push((x >> (j * 7)) as u8);
                    }
                } else {
                    let at = (x % n as u64) as usize;
                    for (j, b) in bytes.iter_mut().skip(at).take(1 + (x >> 40) as usize % 7).enumerate() {
                        *b = b.wrapping_add(1 + j as u8);
                    }
                }
                if !trailer_matches(&bytes) {
                    ensure!(
                        refused(aligned(&bytes), "damaged or extended frame")?,
                        "bad-checksum-accepted",
                        "damaged/extended frame ({} bytes, original {n}) with a non-matching trailer is accepted",
                        bytes.len()
                    );
                }
            }

            // 5. crafted short frames: body shorter than the archived root, *correct* trailer
            let mut crafted = 0;
            for body_len in 0..root {
                for fill in [0u8, 0xFF, (noise.get(3).copied().unwrap_or(7) as u8) | 1] {
                    let body: Vec<u8> = (0..body_len).map(|i| if fill == 0 || fill == 0xFF { fill } else { fill.wrapping_mul(i as u8 + 1) }).collect();
                    let f = with_trailer(&body);
                    ensure!(
                        refused(f, "crafted short body with correct checksum")?,
                        "short-frame-accepted",
                        "crafted frame with a {body_len}-byte body (archived root needs {root}) and a correct checksum is accepted"
                    );
                    crafted += 1;
                }
            }
            // a prefix of the real body with a recomputed trailer
            for body_len in 0..root.min(n - 4) {
                let f = with_trailer(&frame[..body_len]);
                ensure!(
                    refused(f, "prefix of a valid body with recomputed checksum")?,
                    "short-frame-accepted",
                    "crafted frame: first {body_len} body bytes + correct checksum is accepted (root {root})"
                );
                crafted += 1;
            }

            Ok(FrameStats { len: n, flips, truncations, crafted, out_of_line: n > root + 4 })
        }
    };
}

frames_for!(frames_fixed, Fixed);
frames_for!(frames_text, Text);
frames_for!(frames_blob, Blob);
frames_for!(frames_nested, Nested);
frames_for!(frames_unit, Unit);
frames_for!(frames_status, Status);

impl Prop for Frames {
    type Case = Case;

    fn id(&self) -> &'static str {
        "C12"
    }

    fn part(&self) -> &'static str {
        "frames"
    }

    fn width(&self) -> usize {
        120
    }

    fn breadcrumbs(&self) -> bool {
        true
    }

    fn gen(&self, src: &mut Src) -> Case {
        let msg = gen_msg(src);
        let noise = (0..4).map(|_| src.word()).collect();
        Case { msg, noise }
    }

    fn run(&self, case: &Case) -> Outcome {
        let st = match &case.msg {
            Msg::Fixed(v) => frames_fixed(v, &case.noise)?,
            Msg::Text(v) => frames_text(v, &case.noise)?,
            Msg::Blob(v) => frames_blob(v, &case.noise)?,
            Msg::Nested(v) => frames_nested(v, &case.noise)?,
            Msg::Unit(v) => frames_unit(v, &case.noise)?,
            Msg::Status(c, m) => frames_status(&status_of(*c, m), &case.noise)?,
        };
        let mut labels = vec![];
        labels.push(match &case.msg {
            Msg::Fixed(_) => "type_fixed",
            Msg::Text(_) => "type_string",
            Msg::Blob(_) => "type_bytes",
            Msg::Nested(_) => "type_nested",
            Msg::Unit(_) => "type_unit",
            Msg::Status(..) => "type_status",
        });
        if st.len > 4096 {
            labels.push("frame>4KiB_sampled_flips");
        } else {
            labels.push("frame<=4KiB_all_flips");
        }
        if st.len > 65_536 {
            labels.push("frame>64KiB");
        }
        let _ = (st.flips, st.truncations, st.crafted);
        Ok(Pass { nontrivial: st.out_of_line, labels })
    }

    fn describe(&self, case: &Case) -> Value {
        let d = format!("{:?}", case.msg);
        let short: String = d.chars().take(300).collect();
        json!({"message": short, "debug_len": d.len()})
    }

    fn rule(&self) -> &'static str {
        "values of six message types (fixed-size struct, String, Vec<u8>, nested Option/Vec/BTreeMap, unit, rpc \
         Status) from empty to 1 MiB; per value: frame round-trips through DataView::using/deserialize_view; every \
         single-bit flip (all bits for frames <= 4 KiB, 2000 bits incl. both ends beyond) is refused; every \
         truncation below root+trailer is refused and every other truncation / extension / multi-byte damage is \
         refused unless its trailer happens to match (checked with an independent CRC32); crafted bodies shorter \
         than the archived root with a *correct* checksum are refused; a panic is a violation; non-trivial = frame \
         has out-of-line data (relative pointers)"
    }
}

pub fn parts() -> Vec<Box<dyn DynPart>> {
    vec![Box::new(Gen::new(Frames, 6_000, 300_000))]
}
