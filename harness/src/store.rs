//! `ModelStore`: an inspectable, fault-injecting `Storage` implementation used by the actor-level
//! engine (E2) and the in-process cluster (E3). The data lives behind an `Arc`, so a "restarted"
//! node gets a new handle onto the same data while the old handle is fenced (process death).

use std::collections::{BTreeMap, BTreeSet};
use std::sync::Arc;

use datacake_crdt::{HLCTimestamp, Key};
use datacake_eventual_consistency::{BulkMutationError, Document, DocumentMetadata, Storage};
use parking_lot::Mutex;

#[derive(Debug, thiserror::Error, Clone)]
pub enum StoreError {
    #[error("injected storage failure")]
    Injected,
    #[error("storage handle fenced (node was stopped)")]
    Fenced,
}

#[derive(Debug, Clone, Copy, PartialEq, Eq)]
pub enum Fault {
    /// fail without writing anything
    FailBefore,
    /// bulk calls: write the first `n` items, then fail reporting exactly those ids
    Partial(usize),
    /// bulk calls: write item i iff bit (i % 64) of the mask is set, then fail reporting exactly those ids
    /// (a backend that skips the rows it cannot write and carries on)
    Subset(u64),
}

pub type Entry = (HLCTimestamp, Option<Vec<u8>>);

#[derive(Default)]
pub struct Inner {
    pub data: BTreeMap<String, BTreeMap<Key, Entry>>,
    /// keyspaces that ever received a write (what get_keyspace_list reports)
    pub keyspaces: BTreeSet<String>,
    /// index of the next mutating call
    pub mutating_calls: u64,
    pub faults: BTreeMap<u64, Fault>,
    /// every mutating call fails before writing while set
    pub fail_all: bool,
    /// the mutating call with this index performs its write and then never returns
    pub park_at: Option<u64>,
    pub parked: bool,
    pub live_epoch: u64,
    pub injected: u64,
    /// how often remove_tombstones was asked to remove an id that holds a LIVE document (a contract violation
    /// by the caller; the entry is removed all the same, exactly like the bundled SQLite backend does)
    pub removed_live: u64,
    /// every document / tombstone ever written: (keyspace, id, stamp, bytes or None for a tombstone)
    pub log: Vec<(String, Key, HLCTimestamp, Option<Vec<u8>>)>,
    /// for every `log` entry, its position in the process-wide order of successful writes
    pub log_seq: Vec<u64>,
    /// simulated latency of `get_keyspace_list` / `iter_metadata`: the snapshot is taken at once and handed
    /// back this many (tokio) milliseconds later, like a backend that answers from another thread
    pub read_latency_ms: u64,
    /// simulated latency of the mutating calls: the write is performed at once and the call returns this many
    /// (tokio) milliseconds later
    pub write_latency_ms: u64,
    /// simulated latency BEFORE the write: the mutating call waits this many (tokio) milliseconds and performs
    /// its write only then (a backend whose writer thread is busy); whoever does not await the call sees nothing yet
    pub write_delay_ms: u64,
    /// when not empty, the k-th mutating call waits `write_delay_pattern[k % len]` ms instead (calls overtake each other
    /// unless the caller awaits each one, as a backend with several writer threads allows)
    pub write_delay_pattern: Vec<u64>,
    pub delayed_calls: u64,
    /// a mutating call that hits an injected failure reports it this many (tokio) milliseconds later (0 = at once)
    pub fail_latency_ms: u64,
    /// the next `remove_tombstones` call (and only such a call) fails this way
    pub purge_fault: Option<Fault>,
    /// `get_keyspace_list` / `iter_metadata` calls so far, and the one of them that fails (once) with an injected error
    pub read_calls: u64,
    pub read_fault_at: Option<u64>,
}

/// Process-wide order of successful storage writes (all stores, all threads).
pub static WRITE_SEQ: std::sync::atomic::AtomicU64 = std::sync::atomic::AtomicU64::new(0);

#[derive(Clone)]
pub struct ModelStore {
    pub inner: Arc<Mutex<Inner>>,
    epoch: u64,
}

impl Default for ModelStore {
    fn default() -> Self {
        Self { inner: Arc::new(Mutex::new(Inner::default())), epoch: 0 }
    }
}

enum Gate {
    Proceed { park: bool },
    Fail(Fault),
}

impl ModelStore {
    /// A new handle onto the same data; all older handles are fenced from now on.
    pub fn restart(&self) -> ModelStore {
        let mut g = self.inner.lock();
        g.live_epoch += 1;
        g.faults.clear();
        g.fail_all = false;
        g.park_at = None;
        g.parked = false;
        ModelStore { inner: self.inner.clone(), epoch: g.live_epoch }
    }

    pub fn metadata(&self, keyspace: &str) -> BTreeMap<Key, (HLCTimestamp, bool)> {
        let g = self.inner.lock();
        g.data
            .get(keyspace)
            .map(|m| m.iter().map(|(k, (ts, d))| (*k, (*ts, d.is_none()))).collect())
            .unwrap_or_default()
    }

    pub fn docs(&self, keyspace: &str) -> BTreeMap<Key, (HLCTimestamp, Vec<u8>)> {
        let g = self.inner.lock();
        g.data
            .get(keyspace)
            .map(|m| m.iter().filter_map(|(k, (ts, d))| d.clone().map(|d| (*k, (*ts, d)))).collect())
            .unwrap_or_default()
    }

    pub fn keyspace_names(&self) -> Vec<String> {
        self.inner.lock().keyspaces.iter().cloned().collect()
    }

    fn gate(&self) -> Result<Gate, StoreError> {
        let mut g = self.inner.lock();
        if g.live_epoch != self.epoch {
            if std::env::var("VP_DEBUG").is_ok() {
                eprintln!("DEBUG fenced write on a stale storage handle (epoch {})", self.epoch);
            }
            return Err(StoreError::Fenced);
        }
        let idx = g.mutating_calls;
        g.mutating_calls += 1;
        if g.fail_all {
            g.injected += 1;
            return Ok(Gate::Fail(Fault::FailBefore));
        }
        if let Some(f) = g.faults.remove(&idx) {
            g.injected += 1;
            return Ok(Gate::Fail(f));
        }
        Ok(Gate::Proceed { park: g.park_at == Some(idx) })
    }

    /// counts a listing read (keyspace list / metadata of a keyspace) and fails the one `read_fault_at` names
    fn listing_read(&self) -> Result<(), StoreError> {
        let mut g = self.inner.lock();
        let idx = g.read_calls;
        g.read_calls += 1;
        if g.read_fault_at == Some(idx) {
            g.read_fault_at = None;
            g.injected += 1;
            return Err(StoreError::Injected);
        }
        Ok(())
    }

    fn check_read(&self) -> Result<(), StoreError> {
        if self.inner.lock().live_epoch != self.epoch {
            if std::env::var("VP_DEBUG").is_ok() {
                eprintln!("DEBUG fenced read on a stale storage handle (epoch {})", self.epoch);
            }
            return Err(StoreError::Fenced);
        }
        Ok(())
    }

    async fn pre_delay(&self) {
        let d = {
            let mut g = self.inner.lock();
            let k = g.delayed_calls as usize;
            g.delayed_calls += 1;
            if g.write_delay_pattern.is_empty() {
                g.write_delay_ms
            } else {
                g.write_delay_pattern[k % g.write_delay_pattern.len()]
            }
        };
        if d > 0 {
            tokio::time::sleep(std::time::Duration::from_millis(d)).await;
        }
    }

    async fn fail_latency(&self) {
        let d = self.inner.lock().fail_latency_ms;
        if d > 0 {
            tokio::time::sleep(std::time::Duration::from_millis(d)).await;
        }
    }

    async fn maybe_park(&self, park: bool) {
        let latency = self.inner.lock().write_latency_ms;
        if latency > 0 {
            tokio::time::sleep(std::time::Duration::from_millis(latency)).await;
        }
        if park {
            self.inner.lock().parked = true;
            // process death: this call never returns
            std::future::pending::<()>().await;
        }
    }
}

#[async_trait::async_trait]
impl Storage for ModelStore {
    type Error = StoreError;
    type DocsIter = std::vec::IntoIter<Document>;
    type MetadataIter = std::vec::IntoIter<(Key, HLCTimestamp, bool)>;

    async fn get_keyspace_list(&self) -> Result<Vec<String>, Self::Error> {
        self.check_read()?;
        self.listing_read()?;
        let (out, latency): (Vec<String>, u64) = {
            let g = self.inner.lock();
            (g.keyspaces.iter().cloned().collect(), g.read_latency_ms)
        };
        if latency > 0 {
            tokio::time::sleep(std::time::Duration::from_millis(latency)).await;
        }
        Ok(out)
    }

    async fn iter_metadata(&self, keyspace: &str) -> Result<Self::MetadataIter, Self::Error> {
        self.check_read()?;
        self.listing_read()?;
        let out = self.metadata(keyspace).into_iter().map(|(k, (ts, tomb))| (k, ts, tomb)).collect::<Vec<_>>();
        let latency = self.inner.lock().read_latency_ms;
        if latency > 0 {
            tokio::time::sleep(std::time::Duration::from_millis(latency)).await;
        }
        Ok(out.into_iter())
    }

    async fn remove_tombstones(
        &self,
        keyspace: &str,
        keys: impl Iterator<Item = Key> + Send,
    ) -> Result<(), BulkMutationError<Self::Error>> {
        let keys: Vec<Key> = keys.collect();
        if std::env::var("VP_DEBUG_STORE").is_ok() {
            eprintln!("STORE remove_tombstones({keyspace}, {:?}) at {:?}", keys, tokio::time::Instant::now());
        }
        self.pre_delay().await;
        let gate = self.gate().map_err(BulkMutationError::empty_with_error)?;
        let purge_fault = {
            let mut g = self.inner.lock();
            let f = g.purge_fault.take();
            if f.is_some() {
                g.injected += 1;
            }
            f
        };
        let gate = match (gate, purge_fault) {
            (Gate::Proceed { .. }, Some(f)) => Gate::Fail(f),
            (g, _) => g,
        };
        let (keep, fail, park): (Box<dyn Fn(usize) -> bool + Send>, bool, bool) = match gate {
            Gate::Proceed { park } => (Box::new(|_| true), false, park),
            Gate::Fail(Fault::FailBefore) => (Box::new(|_| false), true, false),
            Gate::Fail(Fault::Partial(n)) => (Box::new(move |i| i < n), true, false),
            Gate::Fail(Fault::Subset(m)) => (Box::new(move |i| (m >> (i % 64)) & 1 == 1), true, false),
        };
        let mut done = vec![];
        {
            let mut g = self.inner.lock();
            g.keyspaces.insert(keyspace.to_string());
            let ks = g.data.entry(keyspace.to_string()).or_default();
            let mut removed_live = 0;
            for k in keys.iter().enumerate().filter(|(i, _)| keep(*i)).map(|(_, k)| k) {
                if matches!(ks.get(k), Some((_, Some(_)))) {
                    removed_live += 1;
                }
                ks.remove(k);
                done.push(*k);
            }
            g.removed_live += removed_live;
        }
        if fail {
            self.fail_latency().await;
            return Err(BulkMutationError::new(StoreError::Injected, done));
        }
        self.maybe_park(park).await;
        Ok(())
    }

    async fn put(&self, keyspace: &str, document: Document) -> Result<(), Self::Error> {
        self.pre_delay().await;
        match self.gate()? {
            Gate::Fail(_) => {
                self.fail_latency().await;
                Err(StoreError::Injected)
            },
            Gate::Proceed { park } => {
                {
                    let mut g = self.inner.lock();
                    g.keyspaces.insert(keyspace.to_string());
                    g.log_seq.push(WRITE_SEQ.fetch_add(1, std::sync::atomic::Ordering::SeqCst));
                    g.log.push((keyspace.to_string(), document.id(), document.last_updated(), Some(document.data().to_vec())));
                    g.data
                        .entry(keyspace.to_string())
                        .or_default()
                        .insert(document.id(), (document.last_updated(), Some(document.data().to_vec())));
                }
                self.maybe_park(park).await;
                Ok(())
            },
        }
    }

    async fn multi_put(
        &self,
        keyspace: &str,
        documents: impl Iterator<Item = Document> + Send,
    ) -> Result<(), BulkMutationError<Self::Error>> {
        let docs: Vec<Document> = documents.collect();
        self.pre_delay().await;
        let gate = self.gate().map_err(BulkMutationError::empty_with_error)?;
        let (keep, fail, park): (Box<dyn Fn(usize) -> bool + Send>, bool, bool) = match gate {
            Gate::Proceed { park } => (Box::new(|_| true), false, park),
            Gate::Fail(Fault::FailBefore) => (Box::new(|_| false), true, false),
            Gate::Fail(Fault::Partial(n)) => (Box::new(move |i| i < n), true, false),
            Gate::Fail(Fault::Subset(m)) => (Box::new(move |i| (m >> (i % 64)) & 1 == 1), true, false),
        };
        let mut done = vec![];
        {
            let mut g = self.inner.lock();
            g.keyspaces.insert(keyspace.to_string());
            for d in docs.iter().enumerate().filter(|(i, _)| keep(*i)).map(|(_, d)| d) {
                g.log_seq.push(WRITE_SEQ.fetch_add(1, std::sync::atomic::Ordering::SeqCst));
                g.log.push((keyspace.to_string(), d.id(), d.last_updated(), Some(d.data().to_vec())));
            }
            let ks = g.data.entry(keyspace.to_string()).or_default();
            for d in docs.iter().enumerate().filter(|(i, _)| keep(*i)).map(|(_, d)| d) {
                ks.insert(d.id(), (d.last_updated(), Some(d.data().to_vec())));
                done.push(d.id());
            }
        }
        if fail {
            self.fail_latency().await;
            return Err(BulkMutationError::new(StoreError::Injected, done));
        }
        self.maybe_park(park).await;
        Ok(())
    }

    async fn mark_as_tombstone(&self, keyspace: &str, doc_id: Key, timestamp: HLCTimestamp) -> Result<(), Self::Error> {
        self.pre_delay().await;
        match self.gate()? {
            Gate::Fail(_) => {
                self.fail_latency().await;
                Err(StoreError::Injected)
            },
            Gate::Proceed { park } => {
                {
                    let mut g = self.inner.lock();
                    g.keyspaces.insert(keyspace.to_string());
                    g.log_seq.push(WRITE_SEQ.fetch_add(1, std::sync::atomic::Ordering::SeqCst));
                    g.log.push((keyspace.to_string(), doc_id, timestamp, None));
                    g.data.entry(keyspace.to_string()).or_default().insert(doc_id, (timestamp, None));
                }
                self.maybe_park(park).await;
                Ok(())
            },
        }
    }

    async fn mark_many_as_tombstone(
        &self,
        keyspace: &str,
        documents: impl Iterator<Item = DocumentMetadata> + Send,
    ) -> Result<(), BulkMutationError<Self::Error>> {
        let docs: Vec<DocumentMetadata> = documents.collect();
        if std::env::var("VP_DEBUG_STORE").is_ok() {
            eprintln!("STORE mark_many_as_tombstone({keyspace}, {:?}) at {:?}", docs.iter().map(|d| (d.id, d.last_updated.to_string())).collect::<Vec<_>>(), tokio::time::Instant::now());
        }
        self.pre_delay().await;
        let gate = self.gate().map_err(BulkMutationError::empty_with_error)?;
        let (keep, fail, park): (Box<dyn Fn(usize) -> bool + Send>, bool, bool) = match gate {
            Gate::Proceed { park } => (Box::new(|_| true), false, park),
            Gate::Fail(Fault::FailBefore) => (Box::new(|_| false), true, false),
            Gate::Fail(Fault::Partial(n)) => (Box::new(move |i| i < n), true, false),
            Gate::Fail(Fault::Subset(m)) => (Box::new(move |i| (m >> (i % 64)) & 1 == 1), true, false),
        };
        let mut done = vec![];
        {
            let mut g = self.inner.lock();
            g.keyspaces.insert(keyspace.to_string());
            for d in docs.iter().enumerate().filter(|(i, _)| keep(*i)).map(|(_, d)| d) {
                g.log_seq.push(WRITE_SEQ.fetch_add(1, std::sync::atomic::Ordering::SeqCst));
                g.log.push((keyspace.to_string(), d.id, d.last_updated, None));
            }
            let ks = g.data.entry(keyspace.to_string()).or_default();
            for d in docs.iter().enumerate().filter(|(i, _)| keep(*i)).map(|(_, d)| d) {
                ks.insert(d.id, (d.last_updated, None));
                done.push(d.id);
            }
        }
        if fail {
            self.fail_latency().await;
            return Err(BulkMutationError::new(StoreError::Injected, done));
        }
        self.maybe_park(park).await;
        Ok(())
    }

    async fn get(&self, keyspace: &str, doc_id: Key) -> Result<Option<Document>, Self::Error> {
        self.check_read()?;
        let g = self.inner.lock();
        Ok(g.data.get(keyspace).and_then(|ks| ks.get(&doc_id)).and_then(|(ts, d)| {
            d.as_ref().map(|d| Document::new(doc_id, *ts, d.clone()))
        }))
    }

    async fn multi_get(
        &self,
        keyspace: &str,
        doc_ids: impl Iterator<Item = Key> + Send,
    ) -> Result<Self::DocsIter, Self::Error> {
        self.check_read()?;
        let g = self.inner.lock();
        let mut out = vec![];
        if let Some(ks) = g.data.get(keyspace) {
            for id in doc_ids {
                if let Some((ts, Some(d))) = ks.get(&id) {
                    out.push(Document::new(id, *ts, d.clone()));
                }
            }
        }
        Ok(out.into_iter())
    }
}

/// A second storage *type* over the same model store, for nodes that host two store extensions: the RPC services of
/// an extension are generic over the storage type, and two extensions on one node are told apart by it.
#[derive(Clone, Default)]
pub struct SideStore(pub ModelStore);

#[async_trait::async_trait]
impl Storage for SideStore {
    type Error = StoreError;
    type DocsIter = std::vec::IntoIter<Document>;
    type MetadataIter = std::vec::IntoIter<(Key, HLCTimestamp, bool)>;

    async fn get_keyspace_list(&self) -> Result<Vec<String>, Self::Error> {
        self.0.get_keyspace_list().await
    }

    async fn iter_metadata(&self, keyspace: &str) -> Result<Self::MetadataIter, Self::Error> {
        self.0.iter_metadata(keyspace).await
    }

    async fn remove_tombstones(&self, keyspace: &str, keys: impl Iterator<Item = Key> + Send) -> Result<(), BulkMutationError<Self::Error>> {
        self.0.remove_tombstones(keyspace, keys).await
    }

    async fn put(&self, keyspace: &str, document: Document) -> Result<(), Self::Error> {
        self.0.put(keyspace, document).await
    }

    async fn multi_put(&self, keyspace: &str, documents: impl Iterator<Item = Document> + Send) -> Result<(), BulkMutationError<Self::Error>> {
        self.0.multi_put(keyspace, documents).await
    }

    async fn mark_as_tombstone(&self, keyspace: &str, doc_id: Key, timestamp: HLCTimestamp) -> Result<(), Self::Error> {
        self.0.mark_as_tombstone(keyspace, doc_id, timestamp).await
    }

    async fn mark_many_as_tombstone(&self, keyspace: &str, documents: impl Iterator<Item = DocumentMetadata> + Send) -> Result<(), BulkMutationError<Self::Error>> {
        self.0.mark_many_as_tombstone(keyspace, documents).await
    }

    async fn get(&self, keyspace: &str, doc_id: Key) -> Result<Option<Document>, Self::Error> {
        self.0.get(keyspace, doc_id).await
    }

    async fn multi_get(&self, keyspace: &str, doc_ids: impl Iterator<Item = Key> + Send) -> Result<Self::DocsIter, Self::Error> {
        self.0.multi_get(keyspace, doc_ids).await
    }
}
