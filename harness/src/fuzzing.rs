//! Adapter between libFuzzer (`/verif/fuzz/fuzz_targets/part.rs`) and the parts of the harness.
//!
//! A part is a pure function from a choice sequence to a verdict, so any part can be driven by a coverage-guided
//! engine instead of the seeded proptest generator: the fuzzer's bytes are decoded into choice words, the part's own
//! generator builds the case from them and the part's own oracle decides it. A failing case is shrunk with the
//! generic shrinker and written as an ordinary replay file, which `./check --replay` re-executes without the fuzzer.
//!
//! Byte format: four bytes per choice word, big endian, placed in the upper half of the word (the choice source maps
//! words monotonically through their most significant bits); the lower half is a fixed scramble of the upper half so
//! that raw-word consumers (document ids, payload bytes) still see spread-out bits.

use std::collections::{BTreeMap, HashSet};
use std::sync::Mutex;

use serde_json::{json, Value};

use crate::core::{hash_words, load_known_findings, write_replay, KnownFinding};
use crate::registry::DynPart;

pub fn decode(bytes: &[u8], width: usize) -> Vec<u64> {
    bytes
        .chunks(4)
        .take(width)
        .map(|c| {
            let mut b = [0u8; 4];
            b[..c.len()].copy_from_slice(c);
            let x = u32::from_be_bytes(b) as u64;
            (x << 32) | (x.wrapping_mul(0x9E37_79B9) & 0xFFFF_FFFF)
        })
        .collect()
}

pub fn encode(words: &[u64]) -> Vec<u8> {
    let mut out = Vec::with_capacity(words.len() * 4);
    for w in words {
        out.extend_from_slice(&((*w >> 32) as u32).to_be_bytes());
    }
    // trailing zero words mean the same as an exhausted sequence
    while out.len() >= 4 && out[out.len() - 4..] == [0, 0, 0, 0] {
        out.truncate(out.len() - 4);
    }
    out
}

#[derive(Default)]
struct FuzzStats {
    evaluations: u64,
    nontrivial: u64,
    distinct: HashSet<u64>,
    labels: BTreeMap<&'static str, u64>,
    excluded_known: BTreeMap<String, u64>,
    samples: Vec<Value>,
    stats_path: String,
    id: String,
    part: String,
    rule: String,
}

static STATS: Mutex<Option<FuzzStats>> = Mutex::new(None);

extern "C" {
    fn atexit(cb: extern "C" fn()) -> i32;
}

extern "C" fn dump_stats() {
    if let Ok(g) = STATS.lock() {
        if let Some(s) = g.as_ref() {
            let labels: BTreeMap<String, u64> = s.labels.iter().map(|(k, v)| (k.to_string(), *v)).collect();
            let v = json!({
                "property": s.id, "part": s.part, "rule": s.rule,
                "evaluations": s.evaluations, "nontrivial": s.nontrivial, "distinct_nontrivial": s.distinct.len(),
                "classes": labels, "excluded_known": s.excluded_known, "samples": s.samples,
            });
            let _ = std::fs::write(&s.stats_path, serde_json::to_string(&v).unwrap());
        }
    }
}

pub struct Target {
    pub id: String,
    pub part: Box<dyn DynPart>,
    known: Vec<KnownFinding>,
}

impl Target {
    /// `VP_FUZZ_ID` / `VP_FUZZ_PART` name the part; `VP_FUZZ_STATS` (optional) is where the execution statistics are
    /// written when the process exits.
    pub fn from_env() -> Target {
        let id = std::env::var("VP_FUZZ_ID").expect("VP_FUZZ_ID=<property id>");
        let name = std::env::var("VP_FUZZ_PART").expect("VP_FUZZ_PART=<part name>");
        let (_, parts, _) = crate::parts_for(&id).unwrap_or_else(|| panic!("unknown property {id}"));
        let part = parts.into_iter().find(|p| p.part() == name).unwrap_or_else(|| panic!("unknown part {name} of {id}"));
        crate::core::install_quiet_panic_hook();
        if let Ok(path) = std::env::var("VP_FUZZ_STATS") {
            *STATS.lock().unwrap() = Some(FuzzStats {
                stats_path: path,
                id: id.clone(),
                part: name.clone(),
                rule: part.rule().to_string(),
                ..Default::default()
            });
            unsafe {
                atexit(dump_stats);
            }
        }
        Target { id, part, known: load_known_findings() }
    }

    /// One execution. Returns normally when the property held (or the case is a listed finding); otherwise shrinks,
    /// writes the replay file, prints the VIOLATION line and aborts, which is what stops libFuzzer.
    pub fn one(&self, data: &[u8]) {
        let choices = decode(data, self.part.width());
        let out = self.part.run_choices(&choices);
        let mut g = STATS.lock().unwrap();
        if let Some(s) = g.as_mut() {
            s.evaluations += 1;
        }
        match out {
            Ok(pass) => {
                if let Some(s) = g.as_mut() {
                    for l in &pass.labels {
                        *s.labels.entry(l).or_default() += 1;
                    }
                    if pass.nontrivial {
                        s.nontrivial += 1;
                        if s.distinct.len() < 50_000_000 {
                            s.distinct.insert(hash_words(&choices));
                        }
                        if s.samples.len() < 2 {
                            s.samples.push(self.part.describe(&choices));
                        }
                    }
                }
            },
            Err(f) => {
                if let Some(k) = self.known.iter().find(|k| k.property == self.id && k.signature == f.signature) {
                    if let Some(s) = g.as_mut() {
                        let n = s.excluded_known.entry(k.signature.clone()).or_default();
                        if *n == 0 {
                            println!("KNOWN-FINDING: property={} {} [{}]", self.id, k.what, k.signature);
                        }
                        *n += 1;
                    }
                    return;
                }
                drop(g);
                let failure = self.part.shrink_failure(choices, f);
                let path = write_replay(&failure, 0, "thorough", "libfuzzer");
                println!("--- failing case ({} / {}): {}", self.id, failure.part, failure.message);
                println!("{}", serde_json::to_string_pretty(&failure.case).unwrap());
                println!("VIOLATION property={} replay={}", self.id, path);
                dump_stats();
                std::process::abort();
            },
        }
    }
}

/// `vp corpus <ID> <part> <dir> <n>`: n generated cases in the byte format above, the seed corpus of a campaign.
pub fn write_corpus(id: &str, part: &str, dir: &str, n: usize, seed: u64) -> usize {
    let Some((_, parts, _)) = crate::parts_for(id) else { return 0 };
    let Some(p) = parts.iter().find(|p| p.part() == part) else { return 0 };
    let _ = std::fs::create_dir_all(dir);
    let seed = crate::core::derive_seed(seed, id, part, "corpus", 0);
    let list = crate::core::generated_choices(p.width(), seed, n);
    for (i, c) in list.iter().enumerate() {
        let _ = std::fs::write(format!("{dir}/gen-{i:04}"), encode(c));
    }
    list.len()
}
