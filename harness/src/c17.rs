//! C17 — every bundled storage backend behaves like the reference key-value model.

use std::collections::{BTreeMap, BTreeSet};
use std::sync::atomic::{AtomicU64, Ordering};

use datacake_crdt::HLCTimestamp;
use datacake_eventual_consistency::test_utils::MemStore;
use datacake_eventual_consistency::{Document, DocumentMetadata, Storage};
use datacake_lmdb::LmdbStorage;
use datacake_sqlite::SqliteStorage;
use serde_json::{json, Value};

use crate::core::{Fail, Outcome, Pass, Prop, Src};
use crate::ensure;
use crate::model::Stamp;
use crate::registry::{DynPart, Gen};

#[derive(Debug, Clone, Copy, PartialEq, Eq)]
pub enum Backend {
    Mem,
    SqliteMemory,
    SqliteFile,
    Lmdb,
}

#[derive(Debug, Clone)]
pub enum Call {
    Put { ks: usize, id: u64, stamp: Stamp, len: usize },
    MultiPut { ks: usize, docs: Vec<(u64, Stamp, usize)> },
    Tombstone { ks: usize, id: u64, stamp: Stamp },
    MultiTombstone { ks: usize, docs: Vec<(u64, Stamp)> },
    /// ids are resolved at run time to ids that are tombstones or absent (the contract)
    RemoveTombstones { ks: usize, picks: Vec<u64> },
    Get { ks: usize, id: u64 },
    MultiGet { ks: usize, ids: Vec<u64> },
    IterMetadata { ks: usize },
    KeyspaceList,
    Reopen,
}

#[derive(Debug, Clone)]
pub struct Case {
    pub calls: Vec<Call>,
    /// sparse mode: the full read-back runs only after the calls whose bit is set (and at the end), so that the
    /// read-back itself cannot hide a state that only exists between reads
    pub sparse: bool,
    pub full_check_mask: u64,
}

pub struct C17 {
    pub backend: Backend,
    /// part `*-large-batches`: few calls, bulk calls naming 100 .. 5000 ids (round 11: size thresholds were a blind spot of
    /// several checks; a backend that pages, chunks or caps its bulk statements is crossed here)
    pub large: bool,
}

const LARGE: [usize; 8] = [100, 500, 999, 1_000, 1_001, 2_000, 4_097, 5_000];

fn large_ids(src: &mut Src) -> Vec<u64> {
    let k = *src.pick(&LARGE);
    let base = *src.pick(&[0u64, 1, (1 << 63) - 600, u64::MAX - 6_000, 1 << 32]);
    let base = if src.chance(1, 4) { src.word() } else { base };
    let stride = *src.pick(&[1u64, 1, 3, (1 << 32) + 1, 0x9E37_79B9_7F4A_7C15]);
    (0..k as u64).map(|i| base.wrapping_add(i.wrapping_mul(stride))).collect()
}

fn gen_large(src: &mut Src, persistent: bool) -> Case {
    let n = 2 + src.below(7);
    let n_ks = 1 + src.below(2);
    let mut calls = vec![];
    let mut last_ids: Vec<u64> = vec![];
    for _ in 0..n {
        let ks = src.below(n_ks);
        let c = match src.weighted(&[4, 3, 3, 2, 1, 1, if persistent { 2 } else { 0 }]) {
            0 => {
                let ids = if !last_ids.is_empty() && src.chance(1, 3) { last_ids.clone() } else { large_ids(src) };
                last_ids = ids.clone();
                let st = gen_stamp(src);
                let own_stamps = src.chance(1, 2);
                Call::MultiPut {
                    ks,
                    docs: ids.iter().enumerate().map(|(i, id)| (*id, if own_stamps { Stamp { counter: (i % 65_536) as u16, ..st } } else { st }, i % 5)).collect(),
                }
            },
            1 => {
                let ids = if !last_ids.is_empty() && src.chance(1, 2) { last_ids.clone() } else { large_ids(src) };
                last_ids = ids.clone();
                let st = gen_stamp(src);
                Call::MultiTombstone { ks, docs: ids.iter().enumerate().map(|(i, id)| (*id, Stamp { counter: (i % 65_536) as u16, ..st })).collect() }
            },
            // remove the first k tombstones of the keyspace (picks select tombstones by index, see `run`)
            2 => Call::RemoveTombstones { ks, picks: (0..*src.pick(&LARGE) as u64).map(|i| i * 4 + 1).collect() },
            3 => Call::MultiGet { ks, ids: if last_ids.is_empty() { large_ids(src) } else { last_ids.clone() } },
            4 => Call::Put { ks, id: gen_id(src), stamp: gen_stamp(src), len: gen_len(src) },
            5 => Call::IterMetadata { ks },
            _ => Call::Reopen,
        };
        calls.push(c);
    }
    // the full read-back (a get per known id) runs after a generated subset of the calls and at the end
    Case { calls, sparse: true, full_check_mask: src.word() & src.word() & src.word() }
}

const IDS: &[u64] = &[0, 1, 2, 3, (1 << 63) - 1, 1 << 63, u64::MAX - 1, u64::MAX];

fn gen_id(src: &mut Src) -> u64 {
    if src.chance(1, 5) {
        src.word()
    } else {
        *src.pick(IDS)
    }
}

fn gen_stamp(src: &mut Src) -> Stamp {
    Stamp {
        secs: *src.pick(&[70_000_000u64, 0, 1, (1 << 32) - 1, 1_234_567]),
        frac: *src.pick(&[0u8, 1, 125, 249]),
        counter: *src.pick(&[0u16, 1, 255, 256, 65_535]),
        node: *src.pick(&[0u8, 1, 127, 128, 255]),
    }
}

fn gen_len(src: &mut Src) -> usize {
    match src.weighted(&[3, 3, 3, 1]) {
        0 => 0,
        1 => 1,
        2 => 2 + src.below(300),
        _ => 65_536,
    }
}

fn distinct_ids(src: &mut Src, n: usize) -> Vec<u64> {
    let mut set = BTreeSet::new();
    for _ in 0..n {
        set.insert(gen_id(src));
    }
    // generated order, not sorted order
    let v: Vec<u64> = set.into_iter().collect();
    let p = src.permutation(v.len());
    p.into_iter().map(|i| v[i]).collect()
}

impl Prop for C17 {
    type Case = Case;

    fn id(&self) -> &'static str {
        "C17"
    }

    fn part(&self) -> &'static str {
        if self.large {
            return match self.backend {
                Backend::Mem => "memstore-large-batches",
                Backend::SqliteMemory => "sqlite-memory-large-batches",
                Backend::SqliteFile => "sqlite-file-large-batches",
                Backend::Lmdb => "lmdb-large-batches",
            };
        }
        match self.backend {
            Backend::Mem => "memstore",
            Backend::SqliteMemory => "sqlite-memory",
            Backend::SqliteFile => "sqlite-file",
            Backend::Lmdb => "lmdb",
        }
    }

    fn width(&self) -> usize {
        40 * 14 + 4
    }

    fn breadcrumbs(&self) -> bool {
        true
    }

    fn process_isolated(&self) -> bool {
        // liblmdb keeps per-thread reader slots behind process-wide pthread keys: environments that are
        // opened and closed concurrently from many threads of ONE process crash inside liblmdb's thread
        // exit hook (not a datacake code path: datacake-lmdb never closes an environment). One
        // single-threaded process per shard keeps the reopen coverage without that artefact.
        self.backend == Backend::Lmdb
    }

    fn shrink_budget(&self) -> usize {
        600
    }

    fn gen(&self, src: &mut Src) -> Case {
        let persistent = matches!(self.backend, Backend::SqliteFile | Backend::Lmdb);
        if self.large {
            return gen_large(src, persistent);
        }
        let n = 1 + src.below(40);
        let n_ks = 1 + src.below(3);
        let mut calls = vec![];
        for _ in 0..n {
            let ks = src.below(n_ks);
            let c = match src.weighted(&[5, 3, 4, 3, 3, 3, 2, 3, 1, if persistent { 3 } else { 0 }]) {
                0 => Call::Put { ks, id: gen_id(src), stamp: gen_stamp(src), len: gen_len(src) },
                1 => {
                    let k = src.below(5);
                    let ids = distinct_ids(src, k);
                    let mut docs: Vec<(u64, Stamp, usize)> = ids.into_iter().map(|id| (id, gen_stamp(src), gen_len(src).min(400))).collect();
                    // a batch may name an id twice (the keyspace actor used to pass such batches on): entries apply
                    // in order, the last one wins
                    if !docs.is_empty() && src.chance(1, 4) {
                        let again = docs[src.below(docs.len())].0;
                        docs.push((again, gen_stamp(src), gen_len(src).min(400)));
                    }
                    Call::MultiPut { ks, docs }
                },
                2 => Call::Tombstone { ks, id: gen_id(src), stamp: gen_stamp(src) },
                3 => {
                    let k = src.below(5);
                    let ids = distinct_ids(src, k);
                    let mut docs: Vec<(u64, Stamp)> = ids.into_iter().map(|id| (id, gen_stamp(src))).collect();
                    if !docs.is_empty() && src.chance(1, 4) {
                        let again = docs[src.below(docs.len())].0;
                        docs.push((again, gen_stamp(src)));
                    }
                    Call::MultiTombstone { ks, docs }
                },
                4 => Call::RemoveTombstones { ks, picks: (0..src.below(4)).map(|_| src.word()).collect() },
                5 => Call::Get { ks, id: gen_id(src) },
                6 => {
                    let k = src.below(6);
                    Call::MultiGet { ks, ids: distinct_ids(src, k) }
                },
                7 => Call::IterMetadata { ks },
                8 => Call::KeyspaceList,
                _ => Call::Reopen,
            };
            calls.push(c);
        }
        Case { calls, sparse: src.chance(1, 3), full_check_mask: src.word() & src.word() }
    }

    fn run(&self, case: &Case) -> Outcome {
        let rt = tokio::runtime::Builder::new_current_thread().enable_all().build().unwrap();
        let backend = self.backend;
        let out = rt.block_on(async move {
            match backend {
                Backend::Mem => {
                    let mut s = MemBackend { store: Some(MemStore::default()) };
                    run(case, &mut s).await
                },
                Backend::SqliteMemory => {
                    let store = SqliteStorage::open_in_memory().await.map_err(harness_err)?;
                    let mut s = SqliteBackend { store: Some(store), path: None };
                    run(case, &mut s).await
                },
                Backend::SqliteFile => {
                    let dir = scratch_dir();
                    let path = format!("{dir}/db.sqlite");
                    let store = SqliteStorage::open(&path).await.map_err(harness_err)?;
                    let mut s = SqliteBackend { store: Some(store), path: Some(path) };
                    let r = run(case, &mut s).await;
                    drop(s);
                    let _ = std::fs::remove_dir_all(&dir);
                    r
                },
                Backend::Lmdb => {
                    let dir = scratch_dir();
                    let store = LmdbStorage::open(&dir).await.map_err(harness_err)?;
                    let mut s = LmdbBackend { store: Some(store), path: dir.clone() };
                    let r = run(case, &mut s).await;
                    s.close().await;
                    let _ = std::fs::remove_dir_all(&dir);
                    r
                },
            }
        });
        drop(rt);
        out
    }

    fn describe(&self, case: &Case) -> Value {
        json!({
            "backend": format!("{:?}", self.backend),
            "calls": case.calls.iter().map(|c| if self.large { brief(c) } else { format!("{:?}", c) }).collect::<Vec<_>>(),
            "full_read_back": if case.sparse { format!("only after calls whose bit is set in {:#x}, and at the end", case.full_check_mask) } else { "after every call".to_string() },
        })
    }

    fn rule(&self) -> &'static str {
        if self.large {
            return "2-8 Storage calls over 1-2 keyspaces, most of them bulk calls naming 100 .. 5000 ids (sizes on and around 1000 and \
                    4096; consecutive, strided or wrapping ids anywhere in the u64 range; one shared stamp or one per document): multi_put, \
                    mark_many_as_tombstone (on fresh ids or on the ids of the previous bulk), remove_tombstones of the first k tombstones, \
                    multi_get of a whole bulk, iter_metadata, single puts, close + reopen for file-backed stores; same model, same \
                    oracle as the base part (full read-back after a generated subset of the calls and at the end); non-trivial = a bulk \
                    of >= 1000 ids";
        }
        "1-40 Storage calls (put, multi_put and mark_many_as_tombstone with distinct ids or one id named twice, \
         mark_as_tombstone, remove_tombstones on ids that \
         are tombstones or absent, get, multi_get, iter_metadata, get_keyspace_list; for file-backed stores also close \
         + reopen at any point) over 1-3 keyspaces; ids from {0,1,2,3,2^63-1,2^63,2^64-2,2^64-1,random}, payloads \
         empty / 1 B / up to 300 B / 64 KiB, stamps from the extremes of every field; oracle: every read call of the sequence returns what a HashMap \
         reference model holds, and a full read-back -- after EVERY call in two thirds of the cases, only after a \
         generated subset of the calls and at the end in the others, so that reading cannot mask a state -- finds, \
         for every keyspace, iter_metadata (as a set), get of every known id and multi_get (as a set: id, stamp, \
         bytes) equal to the model; keyspace list (checked before, between and after the keyspace reads): no \
         duplicates, contains every keyspace holding an entry, contains only keyspaces that were referenced; non-trivial = a tombstone written to a keyspace with no \
         entries, or an id > i64::MAX, or a reopen after a write"
    }
}

fn harness_err<E: std::fmt::Display>(e: E) -> Fail {
    Fail { signature: "backend-open-failed".into(), message: format!("opening the backend failed: {e}") }
}

static SCRATCH: AtomicU64 = AtomicU64::new(0);

pub fn scratch_dir() -> String {
    let base = if std::path::Path::new("/dev/shm").is_dir() { "/dev/shm".to_string() } else { "/verif/harness/target".to_string() };
    let dir = format!("{base}/verif-scratch-{}/{}", std::process::id(), SCRATCH.fetch_add(1, Ordering::Relaxed));
    let _ = std::fs::remove_dir_all(&dir);
    std::fs::create_dir_all(&dir).expect("scratch dir");
    dir
}

pub fn cleanup_scratch() {
    let _ = std::fs::remove_dir_all(format!("/dev/shm/verif-scratch-{}", std::process::id()));
    let _ = std::fs::remove_dir_all(format!("/verif/harness/target/verif-scratch-{}", std::process::id()));
}

type Model = BTreeMap<usize, BTreeMap<u64, (Stamp, Option<Vec<u8>>)>>;

fn bytes(id: u64, stamp: Stamp, len: usize) -> Vec<u8> {
    crate::e2::payload(id, stamp, len)
}

fn ks_name(i: usize) -> String {
    ["alpha", "beta-2", "Gamma_\u{e9}/../k v"][i].to_string()
}

/// The operations the check needs from a backend; implemented per store so that close/reopen can differ.
#[async_trait::async_trait(?Send)]
trait Sut {
    type S: Storage;
    fn store(&self) -> &Self::S;
    async fn reopen(&mut self) -> Result<(), String>;
}

struct MemBackend {
    store: Option<MemStore>,
}

#[async_trait::async_trait(?Send)]
impl Sut for MemBackend {
    type S = MemStore;

    fn store(&self) -> &MemStore {
        self.store.as_ref().unwrap()
    }

    async fn reopen(&mut self) -> Result<(), String> {
        Ok(())
    }
}

struct SqliteBackend {
    store: Option<SqliteStorage>,
    path: Option<String>,
}

#[async_trait::async_trait(?Send)]
impl Sut for SqliteBackend {
    type S = SqliteStorage;

    fn store(&self) -> &SqliteStorage {
        self.store.as_ref().unwrap()
    }

    async fn reopen(&mut self) -> Result<(), String> {
        if let Some(path) = &self.path {
            drop(self.store.take());
            // the connection lives on a background thread which exits once every handle is gone
            tokio::time::sleep(std::time::Duration::from_millis(2)).await;
            self.store = Some(SqliteStorage::open(path).await.map_err(|e| e.to_string())?);
        }
        Ok(())
    }
}

struct LmdbBackend {
    store: Option<LmdbStorage>,
    path: String,
}

impl LmdbBackend {
    async fn close(&mut self) {
        if let Some(store) = self.store.take() {
            // liblmdb keeps a per-thread reader slot whose destructor runs when the backend's worker
            // thread exits and writes into the environment's lock table: the environment must not be
            // unmapped while that thread is still on its way out. datacake-lmdb offers no way to join
            // its worker, so: keep the environment alive through our own reference, drop the store
            // (the worker's channel closes, it exits), wait until the thread is gone (this part runs in
            // a single-threaded process of its own, so the thread count of the process tells), and
            // only then close the environment.
            let env = store.handle().env().clone();
            let before = thread_count();
            drop(store);
            for _ in 0..2_000 {
                if thread_count() < before {
                    break;
                }
                tokio::time::sleep(std::time::Duration::from_micros(200)).await;
            }
            let closing = env.prepare_for_closing();
            let _ = tokio::task::spawn_blocking(move || closing.wait()).await;
        }
    }
}

fn thread_count() -> usize {
    std::fs::read_dir("/proc/self/task").map(|d| d.count()).unwrap_or(0)
}

#[async_trait::async_trait(?Send)]
impl Sut for LmdbBackend {
    type S = LmdbStorage;

    fn store(&self) -> &LmdbStorage {
        self.store.as_ref().unwrap()
    }

    async fn reopen(&mut self) -> Result<(), String> {
        self.close().await;
        self.store = Some(LmdbStorage::open(&self.path).await.map_err(|e| e.to_string())?);
        Ok(())
    }
}

fn err<E: std::fmt::Display>(what: &str, i: usize, e: E) -> Fail {
    Fail { signature: "call-failed".into(), message: format!("call {i}: {what} returned an error: {e}") }
}

async fn compare<B: Sut>(b: &B, model: &Model, referenced: &BTreeSet<usize>, when: &str) -> Result<(), Fail> {
    let s = b.store();
    check_keyspace_list(s, model, referenced, when, "before anything else is read").await?;
    // only keyspaces that have been referenced are read: a backend may register a keyspace on first read
    for ks in referenced.iter().copied() {
        let name = ks_name(ks);
        let empty = BTreeMap::new();
        let m = model.get(&ks).unwrap_or(&empty);
        // metadata as a set
        let got: Vec<(u64, HLCTimestamp, bool)> = s.iter_metadata(&name).await.map_err(|e| err("iter_metadata", 0, e))?.collect();
        let mut got_map = BTreeMap::new();
        for (id, ts, tomb) in &got {
            ensure!(
                got_map.insert(*id, (Stamp::of(*ts), *tomb)).is_none(),
                "metadata-duplicate",
                "{when}: iter_metadata({name}) lists id {id} twice"
            );
        }
        let want: BTreeMap<u64, (Stamp, bool)> = m.iter().map(|(id, (s, d))| (*id, (*s, d.is_none()))).collect();
        ensure!(
            got_map == want,
            "metadata-differs",
            "{when}: iter_metadata({name}) = {:?}, reference model has {:?}",
            got_map,
            want
        );
        // every known id individually, plus some never-written ids
        let mut ids: Vec<u64> = m.keys().copied().collect();
        ids.extend_from_slice(IDS);
        ids.sort();
        ids.dedup();
        for id in &ids {
            let got = s.get(&name, *id).await.map_err(|e| err("get", 0, e))?;
            let want = m.get(id).and_then(|(st, d)| d.as_ref().map(|d| (*st, d.clone())));
            let got_t = got.as_ref().map(|d| (Stamp::of(d.last_updated()), d.data().to_vec()));
            ensure!(
                got.as_ref().map(|d| d.id() == *id).unwrap_or(true) && got_t == want,
                "get-differs",
                "{when}: get({name},{id}) = {:?}, reference model has {:?}",
                got_t.as_ref().map(|(s, d)| (s, d.len())),
                want.as_ref().map(|(s, d)| (s, d.len()))
            );
        }
        let res = s.multi_get(&name, ids.clone().into_iter()).await;
        let docs: Vec<Document> = match res {
            Ok(d) => d.collect(),
            Err(e) => {
                return Err(Fail {
                    signature: "multi-get-failed".into(),
                    message: format!("{when}: multi_get({name},{:?}) returned an error: {e}", ids),
                })
            },
        };
        let mut got_docs = BTreeMap::new();
        for d in docs {
            ensure!(
                got_docs.insert(d.id(), (Stamp::of(d.last_updated()), d.data().to_vec())).is_none(),
                "multi-get-duplicate",
                "{when}: multi_get({name}) returned id {} twice",
                d.id()
            );
        }
        let want_docs: BTreeMap<u64, (Stamp, Vec<u8>)> =
            m.iter().filter_map(|(id, (s, d))| d.as_ref().map(|d| (*id, (*s, d.clone())))).collect();
        ensure!(
            got_docs == want_docs,
            "multi-get-differs",
            "{when}: multi_get({name}) returned ids {:?}, reference model has live ids {:?}",
            got_docs.keys().collect::<Vec<_>>(),
            want_docs.keys().collect::<Vec<_>>()
        );
        check_keyspace_list(s, model, referenced, when, &format!("after reading keyspace {name}")).await?;
    }
    check_keyspace_list(s, model, referenced, when, "after reading every referenced keyspace").await
}

/// The keyspace list: no duplicates, every non-empty keyspace, nothing that was never used.  It is checked
/// before anything else is read, after each keyspace has been read and at the end, because reading a keyspace
/// may change what a backend knows about its keyspaces (LMDB opens database handles lazily).
async fn check_keyspace_list<S: Storage>(s: &S, model: &Model, referenced: &BTreeSet<usize>, when: &str, at: &str) -> Result<(), Fail> {
    let list = s.get_keyspace_list().await.map_err(|e| err("get_keyspace_list", 0, e))?;
    let set: BTreeSet<String> = list.iter().cloned().collect();
    ensure!(set.len() == list.len(), "keyspace-list-duplicate", "{when}, {at}: keyspace list has duplicates: {:?}", list);
    for (ks, m) in model {
        if !m.is_empty() {
            ensure!(
                set.contains(&ks_name(*ks)),
                "keyspace-missing-from-list",
                "{when}, {at}: keyspace {} holds {} entries but is not listed: {:?}",
                ks_name(*ks),
                m.len(),
                list
            );
        }
    }
    for name in &set {
        ensure!(
            referenced.iter().any(|k| ks_name(*k) == *name),
            "keyspace-invented",
            "{when}, {at}: keyspace list contains {name} which was never used"
        );
    }
    Ok(())
}

async fn run<B: Sut>(case: &Case, b: &mut B) -> Outcome {
    let mut model: Model = BTreeMap::new();
    let mut referenced = BTreeSet::new();
    let (mut tomb_on_empty, mut big_id, mut reopen_after_write, mut wrote, mut big_payload) = (false, false, false, false, false);
    for (i, call) in case.calls.iter().enumerate() {
        let when = format!("after call {i} ({})", brief(call));
        match call {
            Call::Put { ks, id, stamp, len } => {
                referenced.insert(*ks);
                let data = bytes(*id, *stamp, *len);
                // the contract has two entry points per write: the plain one and the one that takes the (optional)
                // context of a repair exchange — the latter is what the keyspace actor calls (seeded change `C17m`)
                if (i as u64).wrapping_add(*id) % 2 == 1 {
                    b.store().put_with_ctx(&ks_name(*ks), Document::new(*id, stamp.hlc(), data.clone()), None).await.map_err(|e| err("put_with_ctx", i, e))?;
                } else {
                    b.store().put(&ks_name(*ks), Document::new(*id, stamp.hlc(), data.clone())).await.map_err(|e| err("put", i, e))?;
                }
                model.entry(*ks).or_default().insert(*id, (*stamp, Some(data)));
                wrote = true;
                big_id |= *id > i64::MAX as u64;
                big_payload |= *len >= 65_536;
            },
            Call::MultiPut { ks, docs } => {
                referenced.insert(*ks);
                let d: Vec<Document> = docs.iter().map(|(id, st, len)| Document::new(*id, st.hlc(), bytes(*id, *st, *len))).collect();
                if (i + d.len()) % 2 == 1 {
                    b.store().multi_put_with_ctx(&ks_name(*ks), d.into_iter(), None).await.map_err(|e| err("multi_put_with_ctx", i, e))?;
                } else {
                    b.store().multi_put(&ks_name(*ks), d.into_iter()).await.map_err(|e| err("multi_put", i, e))?;
                }
                for (id, st, len) in docs {
                    model.entry(*ks).or_default().insert(*id, (*st, Some(bytes(*id, *st, *len))));
                    big_id |= *id > i64::MAX as u64;
                }
                wrote |= !docs.is_empty();
            },
            Call::Tombstone { ks, id, stamp } => {
                referenced.insert(*ks);
                if model.get(ks).map(|m| m.is_empty()).unwrap_or(true) {
                    tomb_on_empty = true;
                }
                b.store().mark_as_tombstone(&ks_name(*ks), *id, stamp.hlc()).await.map_err(|e| err("mark_as_tombstone", i, e))?;
                model.entry(*ks).or_default().insert(*id, (*stamp, None));
                wrote = true;
                big_id |= *id > i64::MAX as u64;
            },
            Call::MultiTombstone { ks, docs } => {
                referenced.insert(*ks);
                if !docs.is_empty() && model.get(ks).map(|m| m.is_empty()).unwrap_or(true) {
                    tomb_on_empty = true;
                }
                let d: Vec<DocumentMetadata> = docs.iter().map(|(id, st)| DocumentMetadata::new(*id, st.hlc())).collect();
                b.store().mark_many_as_tombstone(&ks_name(*ks), d.into_iter()).await.map_err(|e| err("mark_many_as_tombstone", i, e))?;
                for (id, st) in docs {
                    model.entry(*ks).or_default().insert(*id, (*st, None));
                    big_id |= *id > i64::MAX as u64;
                }
                wrote |= !docs.is_empty();
            },
            Call::RemoveTombstones { ks, picks } => {
                referenced.insert(*ks);
                // contract: only ids that are tombstones (or unknown)
                let tombs: Vec<u64> =
                    model.get(ks).map(|m| m.iter().filter(|(_, (_, d))| d.is_none()).map(|(id, _)| *id).collect()).unwrap_or_default();
                let mut ids = BTreeSet::new();
                for p in picks {
                    if !tombs.is_empty() && p % 4 != 0 {
                        ids.insert(tombs[(*p as usize / 4) % tombs.len()]);
                    } else {
                        let unknown = 0xDEAD_0000 + (p % 1000);
                        if !model.get(ks).map(|m| m.contains_key(&unknown)).unwrap_or(false) {
                            ids.insert(unknown);
                        }
                    }
                }
                b.store().remove_tombstones(&ks_name(*ks), ids.clone().into_iter()).await.map_err(|e| err("remove_tombstones", i, e))?;
                for id in ids {
                    if let Some(m) = model.get_mut(ks) {
                        m.remove(&id);
                    }
                }
            },
            Call::Get { ks, id } => {
                referenced.insert(*ks);
                let got = b.store().get(&ks_name(*ks), *id).await.map_err(|e| err("get", i, e))?;
                let want = model.get(ks).and_then(|m| m.get(id)).and_then(|(st, d)| d.as_ref().map(|d| (*st, d.clone())));
                let got_t = got.as_ref().map(|d| (Stamp::of(d.last_updated()), d.data().to_vec()));
                ensure!(
                    got.as_ref().map(|d| d.id() == *id).unwrap_or(true) && got_t == want,
                    "get-differs",
                    "{when}: get({},{id}) = {:?}, reference model has {:?}",
                    ks_name(*ks),
                    got_t.as_ref().map(|(s, d)| (s, d.len())),
                    want.as_ref().map(|(s, d)| (s, d.len()))
                );
            },
            Call::MultiGet { ks, ids } => {
                referenced.insert(*ks);
                let docs: Vec<Document> = b.store().multi_get(&ks_name(*ks), ids.clone().into_iter()).await.map_err(|e| err("multi_get", i, e))?.collect();
                let got: BTreeMap<u64, (Stamp, Vec<u8>)> = docs.iter().map(|d| (d.id(), (Stamp::of(d.last_updated()), d.data().to_vec()))).collect();
                ensure!(got.len() == docs.len(), "multi-get-duplicate", "{when}: multi_get returned an id twice");
                let want: BTreeMap<u64, (Stamp, Vec<u8>)> = ids
                    .iter()
                    .filter_map(|id| model.get(ks).and_then(|m| m.get(id)).and_then(|(st, d)| d.as_ref().map(|d| (*id, (*st, d.clone())))))
                    .collect();
                ensure!(
                    got == want,
                    "multi-get-differs",
                    "{when}: multi_get({},{:?}) returned ids {:?}, reference model has live ids {:?}",
                    ks_name(*ks),
                    ids,
                    got.keys().collect::<Vec<_>>(),
                    want.keys().collect::<Vec<_>>()
                );
            },
            Call::IterMetadata { ks } => {
                referenced.insert(*ks);
                let got: BTreeMap<u64, (Stamp, bool)> =
                    b.store().iter_metadata(&ks_name(*ks)).await.map_err(|e| err("iter_metadata", i, e))?.map(|(id, ts, t)| (id, (Stamp::of(ts), t))).collect();
                let want: BTreeMap<u64, (Stamp, bool)> =
                    model.get(ks).map(|m| m.iter().map(|(id, (s, d))| (*id, (*s, d.is_none()))).collect()).unwrap_or_default();
                ensure!(got == want, "metadata-differs", "{when}: iter_metadata({}) = {:?}, reference model has {:?}", ks_name(*ks), got, want);
            },
            Call::KeyspaceList => {
                check_keyspace_list(b.store(), &model, &referenced, &when, "as the call itself").await?;
            },
            Call::Reopen => {
                if wrote {
                    reopen_after_write = true;
                }
                b.reopen().await.map_err(|e| Fail { signature: "reopen-failed".into(), message: format!("call {i}: reopening failed: {e}") })?;
            },
        }
        if !case.sparse || (case.full_check_mask >> (i % 64)) & 1 == 1 {
            compare(b, &model, &referenced, &when).await?;
        }
    }
    // keyspaces never affect one another: the ones never touched are still empty
    let all: BTreeSet<usize> = (0..3).collect();
    compare(b, &model, &all, "at the end (all keyspaces)").await?;
    let mut labels = vec![];
    if case.sparse {
        labels.push("sparse_read_back");
    }
    if tomb_on_empty {
        labels.push("tombstone_on_empty_keyspace");
    }
    if big_id {
        labels.push("id>i64::MAX");
    }
    if reopen_after_write {
        labels.push("reopen_after_write");
    }
    if big_payload {
        labels.push("payload_64KiB");
    }
    let bulk = case.calls.iter().map(|c| match c {
        Call::MultiPut { docs, .. } => docs.len(),
        Call::MultiTombstone { docs, .. } => docs.len(),
        Call::MultiGet { ids, .. } => ids.len(),
        _ => 0,
    }).max().unwrap_or(0);
    if bulk >= 1_000 {
        labels.push("bulk>=1000");
    }
    let large = case.calls.iter().any(|c| matches!(c, Call::RemoveTombstones { picks, .. } if picks.len() >= 100)) || bulk >= 100;
    Ok(Pass { nontrivial: if large { bulk >= 1_000 } else { tomb_on_empty || big_id || reopen_after_write }, labels })
}

fn brief(c: &Call) -> String {
    let s = format!("{:?}", c);
    s.chars().take(160).collect()
}

pub fn parts() -> Vec<Box<dyn DynPart>> {
    vec![
        Box::new(Gen::new(C17 { backend: Backend::Mem, large: false }, 20_000, 500_000)),
        Box::new(Gen::new(C17 { backend: Backend::SqliteMemory, large: false }, 5_000, 150_000)),
        Box::new(Gen::new(C17 { backend: Backend::SqliteFile, large: false }, 3_000, 100_000)),
        Box::new(Gen::new(C17 { backend: Backend::Lmdb, large: false }, 5_000, 150_000)),
        Box::new(Gen::new(C17 { backend: Backend::Mem, large: true }, 800, 24_000)),
        Box::new(Gen::new(C17 { backend: Backend::SqliteMemory, large: true }, 300, 9_000)),
        Box::new(Gen::new(C17 { backend: Backend::SqliteFile, large: true }, 200, 6_000)),
        Box::new(Gen::new(C17 { backend: Backend::Lmdb, large: true }, 300, 9_000)),
    ]
}
