#![allow(dead_code)]
//! Library half of the harness: every property module, the registry of parts and the adapter for the
//! coverage-guided engine (/verif/fuzz). The binary `vp` (src/main.rs) is the command-line front end.

pub mod core;
pub mod model;
pub mod registry;

pub mod c01;
pub mod c01b;
pub mod c01c;
pub mod c02;
pub mod e3;
pub mod c03;
pub mod e2;
pub mod store;
pub mod c04;
pub mod c05;
pub mod c06;
pub mod c07;
pub mod c08;
pub mod c08c;
pub mod c09;
pub mod replicas;
pub mod c10;
pub mod c11;
pub mod c12;
pub mod c12e;
pub mod c13;
pub mod c14;
pub mod c15;
pub mod c16;
pub mod c17;
pub mod c18;
pub mod c19;
pub mod msgs;

pub mod fuzzing;

use crate::registry::DynPart;

pub fn parts_for(id: &str) -> Option<(&'static str, Vec<Box<dyn DynPart>>, Vec<String>)> {
    let none: Vec<String> = vec![];
    Some(match id {
        "C01" => ("C01", { let mut p = c01b::parts(); p.extend(c01::parts()); p.extend(c01c::parts()); p }, none),
        "C02" => ("C02", c02::parts_all(), none),
        "C03" => ("C03", c03::parts(), none),
        "C04" => ("C04", c04::parts(), none),
        "C05" => ("C05", c05::parts(), none),
        "C06" => ("C06", c06::parts_all(), none),
        "C07" => ("C07", c07::parts_all(), none),
        "C08" => ("C08", { let mut p = c08::parts(); p.extend(c08c::parts()); p }, none),
        "C09" => ("C09", c09::parts(), none),
        "C10" => ("C10", c10::parts(), none),
        "C11" => ("C11", c11::parts(), none),
        "C12" => ("C12", { let mut p = c12::parts(); p.extend(c12e::parts()); p }, none),
        "C13" => ("C13", c13::parts_all(), none),
        "C14" => ("C14", c14::parts(), none),
        "C15" => ("C15", c15::parts_all(), none),
        "C16" => ("C16", c16::parts(), none),
        "C17" => ("C17", c17::parts(), none),
        "C18" => ("C18", c18::parts_all(), none),
        "C19" => ("C19", c19::parts(), none),
        _ => return None,
    })
}

