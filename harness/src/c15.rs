//! C15 — replica selection yields enough distinct live peers or reports too few.
//! Part `selector` (E1): DCAwareSelector through the public trait, histories on the same cursors.

use std::borrow::Cow;
use std::collections::{BTreeMap, BTreeSet};
use std::net::SocketAddr;

use datacake_node::{Consistency, ConsistencyError, DCAwareSelector, NodeSelector, Nodes};
use serde_json::{json, Value};

use crate::core::{Fail, Outcome, Pass, Prop, Src};
use crate::ensure;
use crate::registry::{DynPart, Gen};

pub const LEVELS: [Consistency; 8] = [
    Consistency::None,
    Consistency::One,
    Consistency::Two,
    Consistency::Three,
    Consistency::Quorum,
    Consistency::LocalQuorum,
    Consistency::All,
    Consistency::EachQuorum,
];

pub fn addr(dc: usize, i: usize) -> SocketAddr {
    ([10, dc as u8, 0, i as u8 + 1], 7000).into()
}

/// dc name -> members (the local node is a member of its data centre, as in
/// `watch_membership_changes`, which builds the map from *all* members).
pub type Layout = BTreeMap<String, Vec<SocketAddr>>;

#[derive(Debug, Clone)]
pub struct Case {
    pub layout: Layout,
    pub local: SocketAddr,
    pub local_dc: String,
    pub selections: Vec<usize>,
    pub rng_seed: u64,
}

/// Data-centre names: operators choose them. Lower-case ASCII, mixed case, non-ASCII with a space, and the name a node
/// gets when none is configured.
pub fn dc_name(style: usize, i: usize) -> String {
    match style % 4 {
        0 => format!("dc-{i}"),
        1 => format!("EU-West-{i}"),
        2 => format!("Z\u{fc}rich S\u{dc}D {i}"),
        _ => {
            if i == 0 {
                datacake_node::DEFAULT_DATA_CENTER.to_string()
            } else {
                format!("Dc{i}")
            }
        },
    }
}

pub fn gen_layout(src: &mut Src, max_dcs: usize, max_per_dc: usize) -> (Layout, SocketAddr, String) {
    let n_dcs = 1 + src.below(max_dcs);
    let style = src.below(4);
    let mut layout = Layout::new();
    for dc in 0..n_dcs {
        let n = 1 + src.below(max_per_dc);
        let mut nodes: Vec<SocketAddr> = (0..n).map(|i| addr(dc, i)).collect();
        // membership maps are ordered by node id, addresses need not be: permute
        let p = src.permutation(n);
        nodes = p.into_iter().map(|i| nodes[i]).collect();
        layout.insert(dc_name(style, dc), nodes);
    }
    let ldc = src.below(n_dcs);
    let name = dc_name(style, ldc);
    let members = &layout[&name];
    let local = members[src.below(members.len())];
    (layout, local, name)
}

/// What the level requires, as (total others required, per-DC requirements).
pub fn required(level: Consistency, layout: &Layout, local_dc: &str) -> (usize, BTreeMap<String, usize>) {
    let total: usize = layout.values().map(|v| v.len()).sum();
    let mut per_dc = BTreeMap::new();
    let n = match level {
        Consistency::None => 0,
        Consistency::One => 1,
        Consistency::Two => 2,
        Consistency::Three => 3,
        Consistency::Quorum => total / 2,
        Consistency::LocalQuorum => {
            let m = layout.get(local_dc).map(|v| v.len()).unwrap_or(0);
            per_dc.insert(local_dc.to_string(), m / 2);
            m / 2
        },
        Consistency::All => total.saturating_sub(1),
        Consistency::EachQuorum => {
            let mut sum = 0;
            for (dc, nodes) in layout {
                let need = if dc == local_dc { nodes.len() / 2 } else { nodes.len() / 2 + 1 };
                per_dc.insert(dc.clone(), need);
                sum += need;
            }
            sum
        },
    };
    (n, per_dc)
}

/// The validity predicate of the property, both directions.
pub fn judge(
    level: Consistency,
    layout: &Layout,
    local: SocketAddr,
    local_dc: &str,
    result: &Result<Nodes, ConsistencyError>,
    ctx: &str,
) -> Result<(), Fail> {
    let others: BTreeSet<SocketAddr> = layout.values().flatten().copied().filter(|a| *a != local).collect();
    let (need, per_dc) = required(level, layout, local_dc);
    match result {
        Ok(nodes) => {
            let set: BTreeSet<SocketAddr> = nodes.iter().copied().collect();
            ensure!(set.len() == nodes.len(), "duplicate-node", "{ctx}: {:?} selected a node twice: {:?}", level, nodes);
            ensure!(!set.contains(&local), "local-selected", "{ctx}: {:?} selected the local node {local}: {:?}", level, nodes);
            ensure!(
                set.is_subset(&others),
                "dead-node-selected",
                "{ctx}: {:?} selected {:?} which are not live members (live others: {:?})",
                level,
                set.difference(&others).collect::<Vec<_>>(),
                others
            );
            ensure!(
                nodes.len() >= need,
                "too-few-selected",
                "{ctx}: {:?} needs {need} other nodes but {:?} were selected",
                level,
                nodes
            );
            if matches!(level, Consistency::One | Consistency::Two | Consistency::Three) {
                ensure!(nodes.len() == need, "not-exactly-n", "{ctx}: {:?} must select exactly {need}, got {:?}", level, nodes);
            }
            for (dc, dc_need) in &per_dc {
                let in_dc = layout[dc].iter().filter(|a| set.contains(a)).count();
                ensure!(
                    in_dc >= *dc_need,
                    "too-few-in-dc",
                    "{ctx}: {:?} needs {dc_need} nodes of {dc} but selected {in_dc}: {:?}",
                    level,
                    nodes
                );
            }
            if level == Consistency::All {
                ensure!(set == others, "all-incomplete", "{ctx}: All selected {:?}, live others are {:?}", set, others);
            }
        },
        Err(ConsistencyError::NotEnoughNodes { .. }) => {
            // legal only when fewer than the required number of other live nodes exist
            let mut enough = others.len() >= need;
            for (dc, dc_need) in &per_dc {
                let avail = layout[dc].iter().filter(|a| **a != local).count();
                enough &= avail >= *dc_need;
            }
            ensure!(
                !enough,
                "spurious-not-enough-nodes",
                "{ctx}: {:?} failed with NotEnoughNodes although {} other live nodes exist and {need} are required",
                level,
                others.len()
            );
        },
        Err(e) => {
            return Err(Fail { signature: "unexpected-error".into(), message: format!("{ctx}: {:?} failed with {e}", level) });
        },
    }
    Ok(())
}

pub struct Selector;

impl Prop for Selector {
    type Case = Case;

    fn id(&self) -> &'static str {
        "C15"
    }

    fn part(&self) -> &'static str {
        "selector"
    }

    fn width(&self) -> usize {
        64
    }

    fn gen(&self, src: &mut Src) -> Case {
        let (layout, local, local_dc) = gen_layout(src, 4, 4);
        let n = 1 + src.below(12);
        let selections = (0..n).map(|_| src.below(LEVELS.len())).collect();
        Case { layout, local, local_dc, selections, rng_seed: src.word() }
    }

    fn run(&self, case: &Case) -> Outcome {
        datacake_node::verif::set_rng_seed(Some(case.rng_seed));
        let mut selector = DCAwareSelector::default();
        let mut dcs = BTreeMap::new();
        let mut total = 0;
        for (name, nodes) in &case.layout {
            total += nodes.len();
            let n: Nodes = nodes.iter().copied().collect();
            // `NodeCycler` is not exported; `.into()` lets inference name it
            dcs.insert(Cow::Owned(name.clone()), n.into());
        }
        let mut cursor_moved = false;
        for (i, li) in case.selections.iter().enumerate() {
            let level = LEVELS[*li];
            let res = selector.select_nodes(case.local, &case.local_dc, total, &mut dcs, level);
            judge(level, &case.layout, case.local, &case.local_dc, &res, &format!("selection {i}"))?;
            if i > 0 && matches!(LEVELS[case.selections[i - 1]], Consistency::One | Consistency::Two | Consistency::Three) {
                cursor_moved = true;
            }
        }
        datacake_node::verif::set_rng_seed(None);
        let mut labels = vec![];
        if case.layout.len() >= 2 {
            labels.push("multi_dc");
        }
        if cursor_moved {
            labels.push("after_cursor_moved");
        }
        if case.layout[&case.local_dc].len() == 1 {
            labels.push("local_alone_in_dc");
        }
        Ok(Pass { nontrivial: cursor_moved, labels })
    }

    fn describe(&self, case: &Case) -> Value {
        json!({
            "layout": case.layout.iter().map(|(k, v)| (k.clone(), v.iter().map(|a| a.to_string()).collect::<Vec<_>>())).collect::<BTreeMap<_, _>>(),
            "local": case.local.to_string(),
            "local_dc": case.local_dc,
            "selections": case.selections.iter().map(|i| format!("{:?}", LEVELS[*i])).collect::<Vec<_>>(),
            "rng_seed": case.rng_seed,
        })
    }

    fn rule(&self) -> &'static str {
        "layouts of 1-4 data centres x 1-4 nodes (member order permuted, local node at any position of any DC), then \
         1-12 selections with mixed consistency levels on the *same* cursors through the public NodeSelector trait \
         (selector RNG seeded via hook H-rng); oracle (validity, both directions): Ok => no duplicates, local node \
         absent, only live members, count >= required (== n for One/Two/Three, per-DC for Local/EachQuorum, all \
         others for All); NotEnoughNodes => fewer than the required other nodes exist; non-trivial = a selection made \
         after a One/Two/Three selection moved the cursors"
    }
}

/// Exhaustive small scope (the statement's quantifier: all layouts up to 4 DCs x 4 nodes, all local node positions, all
/// levels, all sequences of prior selections up to a length bound): words [seed, n_dcs, size x 4, local dc, local position,
/// n selections, level x 3].
pub struct SelectorSmall;

fn small_space_with(seeds: &[u64], max_sel: usize) -> Vec<Vec<u64>> {
    let mut out = vec![];
    for seed in seeds {
        for k in 1..=4usize {
            for sizes in 0..4u64.pow(k as u32) {
                let sz: Vec<u64> = (0..4).map(|d| if d < k { 1 + (sizes / 4u64.pow(d as u32)) % 4 } else { 0 }).collect();
                for ldc in 0..k {
                    for lpos in 0..sz[ldc] {
                        for n in 1..=max_sel {
                            for sel in 0..8u64.pow(n as u32) {
                                let mut w = vec![*seed, k as u64];
                                w.extend(&sz);
                                w.extend([ldc as u64, lpos, n as u64]);
                                w.extend((0..3).map(|i| (sel / 8u64.pow(i as u32)) % 8));
                                out.push(w);
                            }
                        }
                    }
                }
            }
        }
    }
    out
}

pub fn small_space() -> Vec<Vec<u64>> {
    small_space_with(&[7], 3)
}

pub fn small_space_thorough() -> Vec<Vec<u64>> {
    small_space_with(&[7, 8, 9, 10, 11, 12, 13, 14], 3)
}

impl Prop for SelectorSmall {
    type Case = Case;

    fn id(&self) -> &'static str {
        "C15"
    }

    fn part(&self) -> &'static str {
        "selector-small-scope"
    }

    fn width(&self) -> usize {
        13
    }

    fn gen(&self, src: &mut Src) -> Case {
        let rng_seed = src.word();
        let k = src.word().clamp(1, 4) as usize;
        let sizes: Vec<usize> = (0..4).map(|_| src.word().min(4) as usize).collect();
        let mut layout = Layout::new();
        for dc in 0..k {
            layout.insert(dc_name(0, dc), (0..sizes[dc].max(1)).map(|i| addr(dc, i)).collect());
        }
        let ldc = (src.word() as usize).min(k - 1);
        let local_dc = dc_name(0, ldc);
        let lpos = (src.word() as usize).min(layout[&local_dc].len() - 1);
        let local = layout[&local_dc][lpos];
        let n = src.word().clamp(1, 3) as usize;
        let levels: Vec<usize> = (0..3).map(|_| (src.word() % 8) as usize).collect();
        Case { layout, local, local_dc, selections: levels[..n].to_vec(), rng_seed }
    }

    fn run(&self, case: &Case) -> Outcome {
        Selector.run(case)
    }

    fn describe(&self, case: &Case) -> Value {
        Selector.describe(case)
    }

    fn rule(&self) -> &'static str {
        "exhaustive: every layout of 1-4 data centres x 1-4 nodes, every position of the local node, every sequence of 1-3 \
         selections over all eight levels on the same cursors (so every level after every pair of prior selections), for one \
         (thorough: eight) seeds of the selector's RNG; same validity oracle as part selector"
    }
}

pub fn parts() -> Vec<Box<dyn DynPart>> {
    vec![Box::new(Gen::new(Selector, 1_500_000, 150_000_000))]
}

// ---------------------------------------------------------------------------------------
// Part `node` (E3, one real DatacakeNode): membership updates interleaved with selections
// through `DatacakeNode::select_nodes` (selector actor + its result cache).

#[derive(Debug, Clone)]
pub enum Step {
    /// other members: id -> data centre index
    Members(BTreeMap<u8, usize>),
    Select(usize),
    /// a selection (level) is in flight while the snapshot is published: (members, level, polls before the selection
    /// starts, polls before the snapshot is published)
    MembersDuringSelect(BTreeMap<u8, usize>, usize, u8, u8),
}

#[derive(Debug, Clone)]
pub struct NodeCase {
    pub steps: Vec<Step>,
    pub seed: u64,
}

pub struct NodePart;

fn node_addr(id: u8) -> SocketAddr {
    ([10, 2, 0, id], 7000).into()
}

impl Prop for NodePart {
    type Case = NodeCase;

    fn id(&self) -> &'static str {
        "C15"
    }

    fn part(&self) -> &'static str {
        "node"
    }

    fn width(&self) -> usize {
        96
    }

    fn shrink_budget(&self) -> usize {
        800
    }

    fn gen(&self, src: &mut Src) -> NodeCase {
        let n = 2 + src.below(14);
        let mut cur: BTreeMap<u8, usize> = BTreeMap::new();
        let mut steps = vec![];
        for _ in 0..n {
            if src.chance(2, 5) {
                match src.weighted(&[4, 3, 2, 1, 3, 2]) {
                    0 => {
                        // some nodes join
                        for _ in 0..1 + src.below(3) {
                            let id = 2 + src.below(8) as u8;
                            let dc = src.below(3);
                            cur.entry(id).or_insert(dc);
                        }
                    },
                    1 => {
                        let id = 2 + src.below(8) as u8;
                        cur.remove(&id);
                    },
                    2 => {
                        // a whole data centre disappears
                        let dc = src.below(3);
                        cur.retain(|_, d| *d != dc);
                    },
                    3 => cur.clear(),
                    4 => {
                        // one node is replaced by another one in the same update (member count unchanged)
                        if let Some((old, dc)) = cur.iter().nth(src.below(cur.len().max(1))).map(|(k, v)| (*k, *v)) {
                            let fresh = (2..30u8).find(|i| !cur.contains_key(i) && *i != old);
                            if let Some(f) = fresh {
                                cur.remove(&old);
                                cur.insert(f, if src.chance(1, 2) { dc } else { src.below(3) });
                            }
                        }
                    },
                    _ => {
                        // a node moves to another data centre (member count unchanged)
                        if let Some(id) = cur.keys().nth(src.below(cur.len().max(1))).copied() {
                            let dc = cur[&id];
                            cur.insert(id, (dc + 1 + src.below(2)) % 3);
                        }
                    },
                }
                if src.chance(1, 3) {
                    steps.push(Step::MembersDuringSelect(cur.clone(), src.below(LEVELS.len()), src.below(4) as u8, src.below(4) as u8));
                } else {
                    steps.push(Step::Members(cur.clone()));
                }
            } else {
                steps.push(Step::Select(src.below(LEVELS.len())));
            }
        }
        NodeCase { steps, seed: src.word() }
    }

    fn run(&self, case: &NodeCase) -> Outcome {
        crate::e3::sim(case.seed, 70_000_000, BTreeMap::new(), |_net| run_node(case))
    }

    fn describe(&self, case: &NodeCase) -> Value {
        json!(case
            .steps
            .iter()
            .map(|s| match s {
                Step::Members(m) => json!({"members(id->dc)": m}),
                Step::MembersDuringSelect(m, l, a, b) => json!({"members(id->dc)": m, "while_selecting": format!("{:?}", LEVELS[*l]), "polls_before_select": a, "polls_before_publish": b}),
                Step::Select(l) => json!({"select": format!("{:?}", LEVELS[*l])}),
            })
            .collect::<Vec<_>>())
    }

    fn rule(&self) -> &'static str {
        "one real DatacakeNode (id 1, data-centre names lower-case / mixed case / non-ASCII with a space / the unconfigured default): 2-15 steps, each either a membership snapshot over ids 2-9 in 3 data \
         centres (nodes join, a node leaves, a whole data centre leaves, everybody leaves, a node is replaced by another \
         one or moves to another data centre in ONE update so the member count stays the same) published via hook \
         H-members (one snapshot in three while a selection of a generated level is in flight, which may answer from either membership), or DatacakeNode::select_nodes with a generated level (selector actor, cursors and result cache \
         included); oracle: the same validity predicate as part `selector` (the local node = the advertised address; half of the cases \
         listen on a different address), judged against the snapshot current at \
         the time of the call; non-trivial = a selection after a snapshot that removed a node or a data centre"
    }
}

async fn run_node(case: &NodeCase) -> Outcome {
    use datacake_node::{ClusterMember, ConnectionConfig, DatacakeNodeBuilder};
    let me = node_addr(1);
    // half of the cases listen on another address than the one the node advertises (0.0.0.0:port plus a public
    // address is the documented way to deploy): "the local node" is the advertised address, as in the snapshots
    let listen: SocketAddr = if case.seed & 1 == 1 { ([10, 2, 9, 1], 7000).into() } else { me };
    let cfg = ConnectionConfig::new(listen, me, Vec::<String>::new());
    let style = ((case.seed >> 1) % 4) as usize;
    let dc0 = dc_name(style, 0);
    let builder = DatacakeNodeBuilder::<DCAwareSelector>::new(1, cfg);
    // style 3: the local data centre is the default one, configured by not configuring it
    let builder = if style == 3 { builder } else { builder.with_data_center(dc0.clone()) };
    let node = builder.connect().await.expect("connect");
    tokio::time::sleep(std::time::Duration::from_millis(10)).await;
    let mut layout: Layout = Layout::new();
    layout.insert(dc0.clone(), vec![me]);
    let mut removed_something = false;
    let mut after_removal = false;
    let mut prev: BTreeMap<u8, usize> = BTreeMap::new();
    for (i, step) in case.steps.iter().enumerate() {
        match step {
            Step::Members(m) => {
                let mut members: Vec<ClusterMember> =
                    m.iter().map(|(id, dc)| ClusterMember::new(*id, node_addr(*id), dc_name(style, *dc))).collect();
                members.push(ClusterMember::new(1, me, dc0.clone()));
                node.verif_set_members(members);
                tokio::time::sleep(std::time::Duration::from_millis(1)).await;
                layout = Layout::new();
                layout.entry(dc0.clone()).or_default().push(me);
                for (id, dc) in m {
                    layout.entry(dc_name(style, *dc)).or_default().push(node_addr(*id));
                }
                if prev.keys().any(|k| !m.contains_key(k)) {
                    removed_something = true;
                }
                prev = m.clone();
            },
            Step::MembersDuringSelect(m, l, ya, yb) => {
                let mut members: Vec<ClusterMember> =
                    m.iter().map(|(id, dc)| ClusterMember::new(*id, node_addr(*id), dc_name(style, *dc))).collect();
                members.push(ClusterMember::new(1, me, dc0.clone()));
                let old_layout = layout.clone();
                layout = Layout::new();
                layout.entry(dc0.clone()).or_default().push(me);
                for (id, dc) in m {
                    layout.entry(dc_name(style, *dc)).or_default().push(node_addr(*id));
                }
                let select = async {
                    for _ in 0..*ya {
                        tokio::task::yield_now().await;
                    }
                    node.select_nodes(LEVELS[*l]).await
                };
                let publish = async {
                    for _ in 0..*yb {
                        tokio::task::yield_now().await;
                    }
                    node.verif_set_members(members);
                    tokio::time::sleep(std::time::Duration::from_millis(1)).await;
                };
                let (res, _) = tokio::join!(select, publish);
                // the selection overlapped the update: it may answer from either membership
                if judge(LEVELS[*l], &old_layout, me, &dc0, &res, &format!("step {i} (old membership)")).is_err() {
                    judge(LEVELS[*l], &layout, me, &dc0, &res, &format!("step {i} (selection overlapping the update, judged against the new membership as well as the old one)"))?;
                }
                if prev.keys().any(|k| !m.contains_key(k)) {
                    removed_something = true;
                }
                prev = m.clone();
            },
            Step::Select(l) => {
                let res = node.select_nodes(LEVELS[*l]).await;
                judge(LEVELS[*l], &layout, me, &dc0, &res, &format!("step {i}"))?;
                if removed_something {
                    after_removal = true;
                }
            },
        }
    }
    node.shutdown().await;
    let mut labels = vec![];
    if after_removal {
        labels.push("selection_after_departure");
    }
    Ok(Pass { nontrivial: after_removal, labels })
}

pub fn parts_all() -> Vec<Box<dyn DynPart>> {
    vec![
        Box::new(Gen::new(Selector, 1_500_000, 150_000_000)),
        Box::new(Gen::listed2(SelectorSmall, small_space, small_space_thorough)),
        Box::new(Gen::new(NodePart, 60_000, 3_000_000)),
    ]
}
