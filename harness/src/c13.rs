//! C13 — a message is served exactly when its service is currently registered.

use std::collections::{BTreeMap, BTreeSet};
use std::net::SocketAddr;

use datacake_rpc::{Channel, ErrorCode, Handler, Request, RpcClient, RpcService, Server, ServiceRegistry, Status};
use rkyv::{Archive, Deserialize, Serialize};
use serde_json::{json, Value};

use crate::core::{Outcome, Pass, Prop, Src};
use crate::e3;
use crate::ensure;
use crate::registry::{DynPart, Gen};

#[repr(C)]
#[derive(Serialize, Deserialize, Archive, Debug, Clone, PartialEq)]
#[archive(check_bytes)]
pub struct MsgA(pub u32);
#[repr(C)]
#[derive(Serialize, Deserialize, Archive, Debug, Clone, PartialEq)]
#[archive(check_bytes)]
pub struct MsgB(pub u32);
#[repr(C)]
#[derive(Serialize, Deserialize, Archive, Debug, Clone, PartialEq)]
#[archive(check_bytes)]
pub struct MsgC(pub u32);

/// Reply: (service tag, message tag, echoed number)
#[repr(C)]
#[derive(Serialize, Deserialize, Archive, Debug, Clone, PartialEq)]
#[archive(check_bytes)]
pub struct Tag(pub u8, pub u8, pub u32);

pub struct S1;
pub struct S2;
pub struct S3;

impl RpcService for S1 {
    fn register_handlers(r: &mut ServiceRegistry<Self>) {
        r.add_handler::<MsgA>();
        r.add_handler::<MsgB>();
    }
}
impl RpcService for S2 {
    fn register_handlers(r: &mut ServiceRegistry<Self>) {
        r.add_handler::<MsgA>();
    }
}
impl RpcService for S3 {
    fn register_handlers(r: &mut ServiceRegistry<Self>) {
        r.add_handler::<MsgC>();
    }
}

macro_rules! handler {
    ($svc:ty, $msg:ty, $s:expr, $m:expr) => {
        #[datacake_rpc::async_trait]
        impl Handler<$msg> for $svc {
            type Reply = Tag;
            async fn on_message(&self, msg: Request<$msg>) -> Result<Tag, Status> {
                Ok(Tag($s, $m, msg.0.value()))
            }
        }
    };
}
handler!(S1, MsgA, 1, b'A');
handler!(S1, MsgB, 1, b'B');
handler!(S2, MsgA, 2, b'A');
handler!(S3, MsgC, 3, b'C');

#[derive(Debug, Clone)]
pub struct Case {
    /// symbol 0..5: add S1, add S2, add S3, remove S1, remove S2, remove S3
    pub seq: Vec<u8>,
}

fn sym_name(s: u8) -> String {
    format!("{} S{}", if s < 3 { "add" } else { "remove" }, s % 3 + 1)
}

async fn probe(addr: SocketAddr, registered: &BTreeSet<u8>, step: &str, n: u32) -> Result<(), crate::core::Fail> {
    let channel = Channel::connect(addr);
    let c1 = RpcClient::<S1>::new(channel.clone());
    let c2 = RpcClient::<S2>::new(channel.clone());
    let c3 = RpcClient::<S3>::new(channel);
    // (service, message) -> outcome
    let outcomes: Vec<(u8, u8, Result<Tag, Status>)> = vec![
        (1, b'A', c1.send(&MsgA(n)).await.map(|v| Tag(v.0, v.1, v.2.value()))),
        (1, b'B', c1.send(&MsgB(n)).await.map(|v| Tag(v.0, v.1, v.2.value()))),
        (2, b'A', c2.send(&MsgA(n)).await.map(|v| Tag(v.0, v.1, v.2.value()))),
        (3, b'C', c3.send(&MsgC(n)).await.map(|v| Tag(v.0, v.1, v.2.value()))),
    ];
    for (svc, msg, out) in outcomes {
        let want = registered.contains(&svc);
        match out {
            Ok(tag) => {
                ensure!(
                    want,
                    "served-while-unregistered",
                    "{step}: message {} of service S{svc} was served by {:?} although S{svc} is not registered (registered: {:?})",
                    msg as char,
                    tag,
                    registered
                );
                ensure!(
                    tag == Tag(svc, msg, n),
                    "served-by-wrong-handler",
                    "{step}: message {} sent to S{svc} was answered by {:?}",
                    msg as char,
                    tag
                );
            },
            Err(status) => {
                ensure!(
                    !want,
                    "refused-while-registered",
                    "{step}: message {} of service S{svc} was refused ({:?}) although S{svc} is registered (registered: {:?})",
                    msg as char,
                    status,
                    registered
                );
                ensure!(
                    status.code == ErrorCode::ServiceUnavailable,
                    "wrong-refusal-code",
                    "{step}: unregistered S{svc} refused with {:?} instead of ServiceUnavailable",
                    status
                );
            },
        }
    }
    Ok(())
}

async fn run(case: &Case) -> Outcome {
    let addr: SocketAddr = ([10, 3, 0, 1], 7000).into();
    let server = Server::listen(addr).await.expect("listen");
    let mut registered = BTreeSet::new();
    probe(addr, &registered, "before any registration", 0).await?;
    let mut removal_with_other = false;
    for (i, s) in case.seq.iter().enumerate() {
        match s {
            0 => server.add_service(S1),
            1 => server.add_service(S2),
            2 => server.add_service(S3),
            3 => server.remove_service(<S1 as RpcService>::service_name()),
            4 => server.remove_service(<S2 as RpcService>::service_name()),
            _ => server.remove_service(<S3 as RpcService>::service_name()),
        }
        if *s < 3 {
            registered.insert(s % 3 + 1);
        } else {
            if registered.iter().any(|r| *r != s % 3 + 1) {
                removal_with_other = true;
            }
            registered.remove(&(s % 3 + 1));
        }
        probe(addr, &registered, &format!("after step {i} ({})", sym_name(*s)), i as u32 + 1).await?;
    }
    datacake_rpc::verif::unregister(addr);
    server.shutdown();
    let mut labels = vec![];
    if removal_with_other {
        labels.push("remove_while_other_registered");
    }
    Ok(Pass { nontrivial: removal_with_other, labels })
}

pub struct C13 {
    pub exhaustive: bool,
}

impl Prop for C13 {
    type Case = Case;

    fn id(&self) -> &'static str {
        "C13"
    }

    fn part(&self) -> &'static str {
        if self.exhaustive {
            "all-sequences"
        } else {
            "long-sequences"
        }
    }

    fn width(&self) -> usize {
        16
    }

    fn gen(&self, src: &mut Src) -> Case {
        if self.exhaustive {
            // raw words: [len, s0, s1, ...]
            let n = src.word().min(8) as usize;
            Case { seq: (0..n).map(|_| (src.word() % 6) as u8).collect() }
        } else {
            let n = 1 + src.below(12);
            Case { seq: (0..n).map(|_| src.below(6) as u8).collect() }
        }
    }

    fn run(&self, case: &Case) -> Outcome {
        e3::sim(1, 70_000_000, BTreeMap::new(), |_net| run(case))
    }

    fn describe(&self, case: &Case) -> Value {
        json!(case.seq.iter().map(|s| sym_name(*s)).collect::<Vec<_>>())
    }

    fn rule(&self) -> &'static str {
        if self.exhaustive {
            "exhaustive: every sequence of add/remove over three services S1{A,B}, S2{A} (same message type as S1), \
             S3{C} of length 6 (quick: 46656 sequences, all shorter ones are prefixes) or 7 (thorough: 279936) on one \
             running server (in-process transport, hook H-rpc); after EVERY step all four (service,message) pairs \
             are probed with real RpcClients: Ok tagged by exactly that service iff registered, else \
             ServiceUnavailable; non-trivial = a removal while another service is registered"
        } else {
            "random add/remove sequences of length 1-12 over the same three services, same oracle"
        }
    }
}

fn all_sequences(len: usize) -> Vec<Vec<u64>> {
    let mut out = vec![];
    let total = 6u64.pow(len as u32);
    for mut x in 0..total {
        let mut words = vec![len as u64];
        for _ in 0..len {
            words.push(x % 6);
            x /= 6;
        }
        out.push(words);
    }
    out
}

fn quick_list() -> Vec<Vec<u64>> {
    all_sequences(6)
}

fn thorough_list() -> Vec<Vec<u64>> {
    all_sequences(7)
}

pub fn parts() -> Vec<Box<dyn DynPart>> {
    vec![
        Box::new(Gen::listed2(C13 { exhaustive: true }, quick_list, thorough_list)),
        Box::new(Gen::new(C13 { exhaustive: false }, 20_000, 500_000)),
    ]
}

// ---------------------------------------------------------------------------------------
// Part `many-services`: six services with one to four handlers each (17 handler keys whose hashes
// interleave), random add/remove sequences, every (service, message) pair probed after every step.

macro_rules! wide_msg {
    ($name:ident) => {
        #[repr(C)]
        #[derive(Serialize, Deserialize, Archive, Debug, Clone, PartialEq)]
        #[archive(check_bytes)]
        pub struct $name(pub u32);
    };
}
wide_msg!(M0);
wide_msg!(M1);
wide_msg!(M2);
wide_msg!(M3);

macro_rules! wide_service {
    ($svc:ident, $tag:expr, [$(($msg:ty, $mtag:expr)),+]) => {
        pub struct $svc;
        impl RpcService for $svc {
            fn register_handlers(r: &mut ServiceRegistry<Self>) {
                $( r.add_handler::<$msg>(); )+
            }
        }
        wide_service!(@handlers $svc, $tag, [$(($msg, $mtag)),+]);
    };
    // a service that names itself (`RpcService::service_name` is documented as overridable)
    ($svc:ident, $tag:expr, named $name:expr, [$(($msg:ty, $mtag:expr)),+]) => {
        pub struct $svc;
        impl RpcService for $svc {
            fn service_name() -> &'static str {
                $name
            }
            fn register_handlers(r: &mut ServiceRegistry<Self>) {
                $( r.add_handler::<$msg>(); )+
            }
        }
        wide_service!(@handlers $svc, $tag, [$(($msg, $mtag)),+]);
    };
    (@handlers $svc:ident, $tag:expr, [$(($msg:ty, $mtag:expr)),+]) => {
        $(
            #[datacake_rpc::async_trait]
            impl Handler<$msg> for $svc {
                type Reply = Tag;
                async fn on_message(&self, msg: Request<$msg>) -> Result<Tag, Status> {
                    Ok(Tag($tag, $mtag, msg.0.value()))
                }
            }
        )+
    };
}
// Names in the styles real services have (since the seeded change `C13m`): the type name (default), the type name of
// a generic type (what datacake's own ConsistencyService<S> / ReplicationService<S> get; `<` and `>` are rewritten
// in the request path), a generic nested in a generic whose rewritten form EXTENDS the rewritten form of another
// service, a name that is a proper prefix of another service's name, and a short custom name. All six rewritten
// names are distinct, so the six services never collide.
wide_service!(W0, 10, [(M0, 0), (M1, 1), (M2, 2), (M3, 3)]);
wide_service!(W1, 11, named "vp::c13::Store<vp::c13::Mem>", [(M0, 0)]);
wide_service!(W2, 12, named "vp::c13::Store<vp::c13::Mem<u8>>", [(M1, 1), (M2, 2)]);
wide_service!(W3, 13, named "vp::c13::W", [(M3, 3)]);
wide_service!(W4, 14, [(M0, 0), (M2, 2), (M3, 3)]);
wide_service!(W5, 15, named "w5", [(M1, 1)]);

pub struct Wide;

macro_rules! wide_probe {
    ($out:ident, $channel:expr, $svc:ty, $tag:expr, $msg:ident, $mtag:expr, $n:expr) => {
        $out.push(($tag, $mtag, RpcClient::<$svc>::new($channel.clone()).send(&$msg($n)).await.map(|v| Tag(v.0, v.1, v.2.value()))));
    };
}

async fn probe_wide(addr: SocketAddr, registered: &BTreeSet<u8>, step: &str, n: u32) -> Result<(), crate::core::Fail> {
    let channel = Channel::connect(addr);
    let mut out: Vec<(u8, u8, Result<Tag, Status>)> = vec![];
    wide_probe!(out, channel, W0, 10, M0, 0, n);
    wide_probe!(out, channel, W0, 10, M1, 1, n);
    wide_probe!(out, channel, W0, 10, M2, 2, n);
    wide_probe!(out, channel, W0, 10, M3, 3, n);
    wide_probe!(out, channel, W1, 11, M0, 0, n);
    wide_probe!(out, channel, W2, 12, M1, 1, n);
    wide_probe!(out, channel, W2, 12, M2, 2, n);
    wide_probe!(out, channel, W3, 13, M3, 3, n);
    wide_probe!(out, channel, W4, 14, M0, 0, n);
    wide_probe!(out, channel, W4, 14, M2, 2, n);
    wide_probe!(out, channel, W4, 14, M3, 3, n);
    wide_probe!(out, channel, W5, 15, M1, 1, n);
    for (svc_tag, msg_tag, res) in out {
        let want = registered.contains(&svc_tag);
        match res {
            Ok(tag) => {
                ensure!(want, "served-while-unregistered", "{step}: message M{msg_tag} of W{} served by {:?} although it is not registered (registered: {:?})", svc_tag - 10, tag, registered);
                ensure!(tag == Tag(svc_tag, msg_tag, n), "served-by-wrong-handler", "{step}: message M{msg_tag} sent to W{} answered by {:?}", svc_tag - 10, tag);
            },
            Err(status) => {
                ensure!(!want, "refused-while-registered", "{step}: message M{msg_tag} of W{} refused ({:?}) although it is registered (registered: {:?})", svc_tag - 10, status, registered);
                ensure!(status.code == ErrorCode::ServiceUnavailable, "wrong-refusal-code", "{step}: unregistered W{} refused with {:?}", svc_tag - 10, status);
            },
        }
    }
    Ok(())
}

fn apply_wide(server: &Server, add: bool, svc: u8) {
    match (add, svc) {
        (true, 0) => server.add_service(W0),
        (true, 1) => server.add_service(W1),
        (true, 2) => server.add_service(W2),
        (true, 3) => server.add_service(W3),
        (true, 4) => server.add_service(W4),
        (true, _) => server.add_service(W5),
        (false, 0) => server.remove_service(<W0 as RpcService>::service_name()),
        (false, 1) => server.remove_service(<W1 as RpcService>::service_name()),
        (false, 2) => server.remove_service(<W2 as RpcService>::service_name()),
        (false, 3) => server.remove_service(<W3 as RpcService>::service_name()),
        (false, 4) => server.remove_service(<W4 as RpcService>::service_name()),
        (false, _) => server.remove_service(<W5 as RpcService>::service_name()),
    }
}

async fn run_wide(case: &Case) -> Outcome {
    let addr: SocketAddr = ([10, 3, 0, 2], 7000).into();
    let server = Server::listen(addr).await.expect("listen");
    let mut registered: BTreeSet<u8> = BTreeSet::new();
    let mut removal_with_other = false;
    for (i, s) in case.seq.iter().enumerate() {
        let svc = s % 6;
        let add = *s < 6;
        match (add, svc) {
            (true, 0) => server.add_service(W0),
            (true, 1) => server.add_service(W1),
            (true, 2) => server.add_service(W2),
            (true, 3) => server.add_service(W3),
            (true, 4) => server.add_service(W4),
            (true, _) => server.add_service(W5),
            (false, 0) => server.remove_service(<W0 as RpcService>::service_name()),
            (false, 1) => server.remove_service(<W1 as RpcService>::service_name()),
            (false, 2) => server.remove_service(<W2 as RpcService>::service_name()),
            (false, 3) => server.remove_service(<W3 as RpcService>::service_name()),
            (false, 4) => server.remove_service(<W4 as RpcService>::service_name()),
            (false, _) => server.remove_service(<W5 as RpcService>::service_name()),
        }
        if add {
            registered.insert(10 + svc);
        } else {
            if registered.iter().any(|r| *r != 10 + svc) && registered.contains(&(10 + svc)) {
                removal_with_other = true;
            }
            registered.remove(&(10 + svc));
        }
        let step = format!("after step {i} ({} W{})", if add { "add" } else { "remove" }, svc);
        probe_wide(addr, &registered, &step, i as u32 + 1).await?;
    }
    datacake_rpc::verif::unregister(addr);
    server.shutdown();
    let mut labels = vec![];
    if removal_with_other {
        labels.push("remove_while_other_registered");
    }
    Ok(Pass { nontrivial: removal_with_other, labels })
}

impl Prop for Wide {
    type Case = Case;

    fn id(&self) -> &'static str {
        "C13"
    }

    fn part(&self) -> &'static str {
        "many-services"
    }

    fn width(&self) -> usize {
        20
    }

    fn gen(&self, src: &mut Src) -> Case {
        let n = 1 + src.below(16);
        Case { seq: (0..n).map(|_| src.below(12) as u8).collect() }
    }

    fn run(&self, case: &Case) -> Outcome {
        e3::sim(1, 70_000_000, BTreeMap::new(), |_net| run_wide(case))
    }

    fn describe(&self, case: &Case) -> Value {
        json!(case.seq.iter().map(|s| format!("{} W{}", if *s < 6 { "add" } else { "remove" }, s % 6)).collect::<Vec<_>>())
    }

    fn rule(&self) -> &'static str {
        "six services with 4,1,2,1,3,1 handlers over four shared message types (17 handler keys whose hashes interleave \
         across services), random add/remove sequences of length 1-16; after every step all twelve (service,message) \
         pairs are probed; same oracle; non-trivial = a registered service is removed while another is registered"
    }
}


// ---------------------------------------------------------------------------------------
// Part `concurrent-mutations`: the server's API takes `&self`, services are added and removed from several
// threads of a running node.  Threads own disjoint services, so whatever the interleaving the state after a
// round is known: every service is registered iff its owner's last operation on it was an add.

#[derive(Debug, Clone)]
pub struct ConcCase {
    /// per round, per thread: (add?, service) operations; thread t only touches services with svc % threads == t
    pub rounds: Vec<Vec<Vec<(bool, u8)>>>,
}

pub struct Concurrent;

impl Prop for Concurrent {
    type Case = ConcCase;

    fn id(&self) -> &'static str {
        "C13"
    }

    fn part(&self) -> &'static str {
        "concurrent-mutations"
    }

    fn width(&self) -> usize {
        30 * 3 * 4 * 2 + 8
    }

    fn shrink_budget(&self) -> usize {
        40
    }

    fn gen(&self, src: &mut Src) -> ConcCase {
        let threads = 2 + src.below(2);
        let n_rounds = 10 + src.below(21);
        let rounds = (0..n_rounds)
            .map(|_| {
                (0..threads)
                    .map(|t| {
                        let own: Vec<u8> = (0..6u8).filter(|s| *s as usize % threads == t).collect();
                        (0..1 + src.below(3)).map(|_| (src.chance(1, 2), own[src.below(own.len())])).collect()
                    })
                    .collect()
            })
            .collect();
        ConcCase { rounds }
    }

    fn run(&self, case: &ConcCase) -> Outcome {
        e3::sim(1, 70_000_000, Default::default(), |_net| async move {
            let addr: SocketAddr = ([10, 3, 0, 3], 7000).into();
            let server = Server::listen(addr).await.expect("listen");
            let mut registered: BTreeSet<u8> = BTreeSet::new();
            let mut overlapping = 0usize;
            for (r, round) in case.rounds.iter().enumerate() {
                let barrier = std::sync::Barrier::new(round.len());
                std::thread::scope(|scope| {
                    for ops in round {
                        let server = &server;
                        let barrier = &barrier;
                        scope.spawn(move || {
                            barrier.wait();
                            for (add, svc) in ops {
                                apply_wide(server, *add, *svc);
                            }
                        });
                    }
                });
                for ops in round {
                    for (add, svc) in ops {
                        if *add {
                            registered.insert(10 + svc);
                        } else {
                            registered.remove(&(10 + svc));
                        }
                    }
                }
                if round.iter().filter(|o| !o.is_empty()).count() >= 2 {
                    overlapping += 1;
                }
                let step = format!("after round {r} (threads ran {:?} concurrently)", round);
                probe_wide(addr, &registered, &step, r as u32 + 1).await?;
            }
            datacake_rpc::verif::unregister(addr);
            server.shutdown();
            Ok(Pass { nontrivial: overlapping >= 5, labels: vec![] })
        })
    }

    fn describe(&self, case: &ConcCase) -> Value {
        json!({ "rounds_of_per_thread_operations_(add?,service)": case.rounds })
    }

    fn rule(&self) -> &'static str {
        "the six services of part many-services; 10-30 rounds in which 2-3 OS threads, released together by a barrier, \
         each run 1-3 add/remove operations on services only they own, against one running server; after every round \
         all twelve (service,message) pairs are probed; oracle: a service is served iff its owner's last operation on it \
         was an add (the outcome does not depend on the interleaving because owners are disjoint), refusals are \
         unknown-service; OS schedules are sampled, not enumerated; non-trivial = >= 5 rounds with >= 2 active threads"
    }
}

// ---------------------------------------------------------------------------------------
// Part `sparse-probes`: the other parts probe every (service, message) pair in one fixed order after every step,
// so the last lookup before a step is always the same pair.  Here each step is followed by 0-3 generated probes
// (the same pair may be asked again and again), and everything is probed at the end.

#[derive(Debug, Clone)]
pub struct SparseCase {
    /// (symbol 0..11: add W0..W5 / remove W0..W5, probes after the step: indices into the twelve pairs)
    pub steps: Vec<(u8, Vec<u8>)>,
}

pub struct Sparse;

async fn probe_pair(addr: SocketAddr, idx: u8, n: u32) -> (u8, u8, Result<Tag, Status>) {
    let channel = Channel::connect(addr);
    let mut out: Vec<(u8, u8, Result<Tag, Status>)> = vec![];
    match idx {
        0 => { wide_probe!(out, channel, W0, 10, M0, 0, n); },
        1 => { wide_probe!(out, channel, W0, 10, M1, 1, n); },
        2 => { wide_probe!(out, channel, W0, 10, M2, 2, n); },
        3 => { wide_probe!(out, channel, W0, 10, M3, 3, n); },
        4 => { wide_probe!(out, channel, W1, 11, M0, 0, n); },
        5 => { wide_probe!(out, channel, W2, 12, M1, 1, n); },
        6 => { wide_probe!(out, channel, W2, 12, M2, 2, n); },
        7 => { wide_probe!(out, channel, W3, 13, M3, 3, n); },
        8 => { wide_probe!(out, channel, W4, 14, M0, 0, n); },
        9 => { wide_probe!(out, channel, W4, 14, M2, 2, n); },
        10 => { wide_probe!(out, channel, W4, 14, M3, 3, n); },
        _ => { wide_probe!(out, channel, W5, 15, M1, 1, n); },
    }
    out.pop().unwrap()
}

impl Prop for Sparse {
    type Case = SparseCase;

    fn id(&self) -> &'static str {
        "C13"
    }

    fn part(&self) -> &'static str {
        "sparse-probes"
    }

    fn width(&self) -> usize {
        16 * 6 + 4
    }

    fn gen(&self, src: &mut Src) -> SparseCase {
        let n = 1 + src.below(16);
        let mut last_probe = src.below(12) as u8;
        let steps = (0..n)
            .map(|_| {
                let sym = src.below(12) as u8;
                let probes = (0..src.below(4))
                    .map(|_| {
                        // half of the probes repeat the previous one, or ask for the service the step just touched
                        let p = match src.weighted(&[2, 1, 1]) {
                            0 => src.below(12) as u8,
                            1 => last_probe,
                            _ => [0u8, 4, 5, 7, 8, 11][(sym % 6) as usize],
                        };
                        last_probe = p;
                        p
                    })
                    .collect();
                (sym, probes)
            })
            .collect();
        SparseCase { steps }
    }

    fn run(&self, case: &SparseCase) -> Outcome {
        e3::sim(1, 70_000_000, Default::default(), |_net| async move {
            let addr: SocketAddr = ([10, 3, 0, 4], 7000).into();
            let server = Server::listen(addr).await.expect("listen");
            let mut registered: BTreeSet<u8> = BTreeSet::new();
            let mut probed_before_add = false;
            let mut last: Option<u8> = None;
            for (i, (sym, probes)) in case.steps.iter().enumerate() {
                let svc = sym % 6;
                let add = *sym < 6;
                if add && !registered.contains(&(10 + svc)) && last.map(|p| [0u8, 0, 0, 0, 1, 2, 2, 3, 4, 4, 4, 5][p as usize] == svc).unwrap_or(false) {
                    probed_before_add = true;
                }
                apply_wide(&server, add, svc);
                if add {
                    registered.insert(10 + svc);
                } else {
                    registered.remove(&(10 + svc));
                }
                for p in probes {
                    let n = i as u32 + 1;
                    let (svc_tag, msg_tag, res) = probe_pair(addr, *p, n).await;
                    last = Some(*p);
                    let step = format!("after step {i} ({} W{}), probe of pair {p}", if add { "add" } else { "remove" }, svc);
                    let want = registered.contains(&svc_tag);
                    match res {
                        Ok(tag) => {
                            ensure!(want, "served-while-unregistered", "{step}: message M{msg_tag} of W{} served by {:?} although it is not registered (registered: {:?})", svc_tag - 10, tag, registered);
                            ensure!(tag == Tag(svc_tag, msg_tag, n), "served-by-wrong-handler", "{step}: message M{msg_tag} sent to W{} answered by {:?}", svc_tag - 10, tag);
                        },
                        Err(status) => {
                            ensure!(!want, "refused-while-registered", "{step}: message M{msg_tag} of W{} refused ({:?}) although it is registered (registered: {:?})", svc_tag - 10, status, registered);
                            ensure!(status.code == ErrorCode::ServiceUnavailable, "wrong-refusal-code", "{step}: unregistered W{} refused with {:?}", svc_tag - 10, status);
                        },
                    }
                }
            }
            probe_wide(addr, &registered, "at the end (all pairs)", 1_000).await?;
            datacake_rpc::verif::unregister(addr);
            server.shutdown();
            let mut labels = vec![];
            if probed_before_add {
                labels.push("refused_probe_right_before_its_service_is_added");
            }
            Ok(Pass { nontrivial: probed_before_add, labels })
        })
    }

    fn describe(&self, case: &SparseCase) -> Value {
        json!({ "steps_(symbol 0-5 add W0-W5, 6-11 remove; probes = pair indices)": case.steps })
    }

    fn rule(&self) -> &'static str {
        "the six services of part many-services; 1-16 add/remove steps, each followed by 0-3 probes of generated \
         (service, message) pairs -- half of them repeat the previous probe or ask for the service the step just \
         touched --, and all twelve pairs at the end; same oracle; non-trivial = the last probe before an add was a \
         refused request for that very service"
    }
}

// ---------------------------------------------------------------------------------------
// Part `requests-in-flight` (after the seeded change `C13l`): handlers that take time. Services are added and removed
// while earlier requests are still being served; "removed" has to hold for every request that arrives afterwards,
// whatever is still in flight.

#[repr(C)]
#[derive(Serialize, Deserialize, Archive, Debug, Clone, PartialEq)]
#[archive(check_bytes)]
pub struct NapX(pub u32, pub u32);
#[repr(C)]
#[derive(Serialize, Deserialize, Archive, Debug, Clone, PartialEq)]
#[archive(check_bytes)]
pub struct NapY(pub u32, pub u32);

pub struct Slow1;
pub struct Slow2;

impl RpcService for Slow1 {
    fn register_handlers(r: &mut ServiceRegistry<Self>) {
        r.add_handler::<NapX>();
        r.add_handler::<NapY>();
    }
}
impl RpcService for Slow2 {
    fn register_handlers(r: &mut ServiceRegistry<Self>) {
        r.add_handler::<NapX>();
    }
}

macro_rules! slow_handler {
    ($svc:ty, $msg:ty, $s:expr, $m:expr) => {
        #[datacake_rpc::async_trait]
        impl Handler<$msg> for $svc {
            type Reply = Tag;
            async fn on_message(&self, msg: Request<$msg>) -> Result<Tag, Status> {
                let ms = msg.0.value();
                // what the harness says is registered at the moment the handler starts
                let registered_now = FLIGHT_REGISTERED.with(|r| r.borrow().contains(&$s));
                FLIGHT_STARTS.with(|l| l.borrow_mut().push((msg.1.value(), registered_now)));
                if ms > 0 {
                    tokio::time::sleep(std::time::Duration::from_millis(ms as u64)).await;
                }
                Ok(Tag($s, $m, msg.1.value()))
            }
        }
    };
}
thread_local! {
    static FLIGHT_REGISTERED: std::cell::RefCell<BTreeSet<u8>> = const { std::cell::RefCell::new(BTreeSet::new()) };
    static FLIGHT_STARTS: std::cell::RefCell<Vec<(u32, bool)>> = const { std::cell::RefCell::new(Vec::new()) };
}
slow_handler!(Slow1, NapX, 21, b'X');
slow_handler!(Slow1, NapY, 21, b'Y');
slow_handler!(Slow2, NapX, 22, b'X');

#[derive(Debug, Clone)]
pub enum FlightStep {
    Add(u8),
    Remove(u8),
    /// start a request to pair p (0 = Slow1/X, 1 = Slow1/Y, 2 = Slow2/X) whose handler takes `ms`
    Start(u8, u32),
    Advance(u32),
    Probe,
}

#[derive(Debug, Clone)]
pub struct FlightCase {
    pub steps: Vec<FlightStep>,
}

pub struct InFlight;

async fn nap_request(addr: SocketAddr, pair: u8, ms: u32, n: u32) -> Result<Tag, Status> {
    let channel = Channel::connect(addr);
    match pair {
        0 => RpcClient::<Slow1>::new(channel).send(&NapX(ms, n)).await.map(|v| Tag(v.0, v.1, v.2.value())),
        1 => RpcClient::<Slow1>::new(channel).send(&NapY(ms, n)).await.map(|v| Tag(v.0, v.1, v.2.value())),
        _ => RpcClient::<Slow2>::new(channel).send(&NapX(ms, n)).await.map(|v| Tag(v.0, v.1, v.2.value())),
    }
}

fn pair_tags(pair: u8) -> (u8, u8) {
    match pair {
        0 => (21, b'X'),
        1 => (21, b'Y'),
        _ => (22, b'X'),
    }
}

impl Prop for InFlight {
    type Case = FlightCase;

    fn id(&self) -> &'static str {
        "C13"
    }

    fn part(&self) -> &'static str {
        "requests-in-flight"
    }

    fn width(&self) -> usize {
        3 * 24 + 2
    }

    fn gen(&self, src: &mut Src) -> FlightCase {
        let n = 3 + src.below(20);
        let mut steps = vec![];
        for _ in 0..n {
            steps.push(match src.weighted(&[3, 3, 5, 3, 4]) {
                0 => FlightStep::Add(src.below(2) as u8),
                1 => FlightStep::Remove(src.below(2) as u8),
                2 => FlightStep::Start(src.below(3) as u8, *src.pick(&[0u32, 1, 5, 20, 100])),
                3 => FlightStep::Advance(*src.pick(&[1u32, 4, 5, 19, 21, 100])),
                _ => FlightStep::Probe,
            });
        }
        FlightCase { steps }
    }

    fn run(&self, case: &FlightCase) -> Outcome {
        use futures::stream::{FuturesUnordered, StreamExt};
        e3::sim(1, 70_000_000, Default::default(), |_net| async move {
            let addr: SocketAddr = ([10, 3, 0, 5], 7000).into();
            let server = Server::listen(addr).await.expect("listen");
            let mut registered: BTreeSet<u8> = BTreeSet::new();
            // (pair, n, outcome)
            type Done = (u8, u32, Result<Tag, Status>);
            let mut flying: FuturesUnordered<std::pin::Pin<Box<dyn std::future::Future<Output = Done>>>> = FuturesUnordered::new();
            let mut flying_to: Vec<(u32, u8)> = vec![];
            let mut finished: Vec<Done> = vec![];
            let mut probed_after_removal_in_flight = false;
            let mut removed_in_flight: BTreeSet<u8> = BTreeSet::new();
            // requests during whose life their service was unregistered at some moment (a refusal is then legitimate)
            let mut saw_unregistered: BTreeSet<u32> = BTreeSet::new();
            let mut n = 0u32;
            FLIGHT_REGISTERED.with(|r| r.borrow_mut().clear());
            FLIGHT_STARTS.with(|l| l.borrow_mut().clear());
            let check_starts = || -> Result<(), crate::core::Fail> {
                let bad = FLIGHT_STARTS.with(|l| l.borrow().iter().find(|(_, reg)| !*reg).copied());
                ensure!(bad.is_none(), "served-while-unregistered", "the handler of request {} started while its service was not registered", bad.unwrap().0);
                Ok(())
            };
            let check_done = |d: &Done, saw_unregistered: &BTreeSet<u32>| -> Result<(), crate::core::Fail> {
                let (pair, n, out) = d;
                let (svc, msg) = pair_tags(*pair);
                match out {
                    Ok(tag) => {
                        ensure!(*tag == Tag(svc, msg, *n), "served-by-wrong-handler", "request {n} for {}/{} was answered by {:?}", svc, msg as char, tag);
                    },
                    Err(status) => {
                        ensure!(
                            saw_unregistered.contains(n),
                            "refused-while-registered",
                            "request {n} for {svc}/{} failed ({:?}) although its service was registered during its whole life",
                            msg as char,
                            status
                        );
                    },
                }
                Ok(())
            };
            for (i, step) in case.steps.iter().enumerate() {
                match step {
                    FlightStep::Add(s) => {
                        if *s == 0 { server.add_service(Slow1) } else { server.add_service(Slow2) }
                        registered.insert(21 + s);
                        FLIGHT_REGISTERED.with(|r| r.borrow_mut().insert(21 + s));
                        removed_in_flight.remove(&(21 + s));
                    },
                    FlightStep::Remove(s) => {
                        if *s == 0 {
                            server.remove_service(<Slow1 as RpcService>::service_name())
                        } else {
                            server.remove_service(<Slow2 as RpcService>::service_name())
                        }
                        FLIGHT_REGISTERED.with(|r| r.borrow_mut().remove(&(21 + s)));
                        for (k, p) in &flying_to {
                            if pair_tags(*p).0 == 21 + s {
                                saw_unregistered.insert(*k);
                            }
                        }
                        if registered.remove(&(21 + s)) && flying_to.iter().any(|(_, p)| pair_tags(*p).0 == 21 + s) {
                            removed_in_flight.insert(21 + s);
                        }
                    },
                    FlightStep::Start(pair, ms) => {
                        n += 1;
                        let (svc, _) = pair_tags(*pair);
                        if !registered.contains(&svc) {
                            saw_unregistered.insert(n);
                        }
                        let (pair, ms, nn) = (*pair, *ms, n);
                        let mut fut: std::pin::Pin<Box<dyn std::future::Future<Output = Done>>> =
                            Box::pin(async move { (pair, nn, nap_request(addr, pair, ms, nn).await) });
                        // start sending; when exactly the request reaches the dispatcher is up to the transport
                        match futures::poll!(fut.as_mut()) {
                            std::task::Poll::Ready(d) => {
                                check_done(&d, &saw_unregistered)?;
                                finished.push(d);
                            },
                            std::task::Poll::Pending => {
                                flying_to.push((nn, pair));
                                flying.push(fut);
                            },
                        }
                    },
                    FlightStep::Advance(ms) => {
                        let sleep = tokio::time::sleep(std::time::Duration::from_millis(*ms as u64));
                        tokio::pin!(sleep);
                        loop {
                            tokio::select! {
                                biased;
                                Some(d) = flying.next(), if !flying.is_empty() => {
                                    check_done(&d, &saw_unregistered)?;
                                    flying_to.retain(|(k, _)| *k != d.1);
                                    finished.push(d);
                                },
                                _ = &mut sleep => break,
                            }
                        }
                        for s in removed_in_flight.clone() {
                            if !flying_to.iter().any(|(_, p)| pair_tags(*p).0 == s) {
                                removed_in_flight.remove(&s);
                            }
                        }
                    },
                    FlightStep::Probe => {
                        for pair in 0..3u8 {
                            n += 1;
                            let (svc, msg) = pair_tags(pair);
                            let out = nap_request(addr, pair, 0, n).await;
                            let want = registered.contains(&svc);
                            let inflight = flying_to.iter().filter(|(_, p)| pair_tags(*p).0 == svc).count();
                            if removed_in_flight.contains(&svc) && inflight > 0 {
                                probed_after_removal_in_flight = true;
                            }
                            match out {
                                Ok(tag) => {
                                    ensure!(want, "served-while-unregistered", "step {i}: probe of {svc}/{} served by {:?} although the service is not registered ({inflight} earlier requests to it still in flight; registered: {:?})", msg as char, tag, registered);
                                    ensure!(tag == Tag(svc, msg, n), "served-by-wrong-handler", "step {i}: probe of {svc}/{} answered by {:?}", msg as char, tag);
                                },
                                Err(status) => {
                                    ensure!(!want, "refused-while-registered", "step {i}: probe of {svc}/{} refused ({:?}) although the service is registered ({inflight} requests in flight; registered: {:?})", msg as char, status, registered);
                                    ensure!(status.code == ErrorCode::ServiceUnavailable, "wrong-refusal-code", "step {i}: unregistered {svc} refused with {:?}", status);
                                },
                            }
                        }
                    },
                }
                check_starts()?;
            }
            // drain
            while let Some(d) = flying.next().await {
                check_done(&d, &saw_unregistered)?;
                finished.push(d);
            }
            check_starts()?;
            datacake_rpc::verif::unregister(addr);
            server.shutdown();
            let mut labels = vec![];
            if probed_after_removal_in_flight {
                labels.push("probe_after_removal_with_requests_in_flight");
            }
            if finished.iter().any(|d| d.2.is_ok()) {
                labels.push("slow_request_completed");
            }
            Ok(Pass { nontrivial: probed_after_removal_in_flight, labels })
        })
    }

    fn describe(&self, case: &FlightCase) -> Value {
        json!(case.steps.iter().map(|s| format!("{s:?}")).collect::<Vec<_>>())
    }

    fn rule(&self) -> &'static str {
        "two services whose handlers take 0-100 simulated ms (Slow1{X,Y}, Slow2{X}); 3-22 steps: add / remove a service, start a request \
         (it reaches the server at once and stays in flight), advance time 1-100 ms, probe all three (service, message) pairs with \
         instant requests; oracle: a probe is served by exactly its service iff that service is registered NOW, else ServiceUnavailable, \
         whatever is still in flight; no handler ever STARTS while its service is unregistered (the handler looks it up when it starts); \
         a slow request is answered by its own service, and may fail only if its service was unregistered at some moment of its life; non-trivial = a probe of a service that was removed while an \
         earlier request to it is still being served"
    }
}

pub fn parts_all() -> Vec<Box<dyn DynPart>> {
    let mut p = parts();
    p.push(Box::new(Gen::new(Wide, 20_000, 500_000)));
    p.push(Box::new(Gen::new(Concurrent, 1_600, 50_000)));
    p.push(Box::new(Gen::new(Sparse, 60_000, 3_000_000)));
    p.push(Box::new(Gen::new(InFlight, 300_000, 10_000_000)));
    p
}
