//! Reference models and shared generators (independent of the code under test).

use std::collections::{BTreeMap, BTreeSet};
use std::time::Duration;

use datacake_crdt::{HLCTimestamp, Key, OrSWotSet};
use serde_json::{json, Value};

use crate::core::Src;

/// Field-wise timestamp used by the models: ordering is derived lexicographically on
/// (secs, frac, counter, node), independently of the packed representation.
#[derive(Debug, Clone, Copy, PartialEq, Eq, PartialOrd, Ord, Hash)]
pub struct Stamp {
    pub secs: u64,
    pub frac: u8,
    pub counter: u16,
    pub node: u8,
}

impl Stamp {
    pub fn hlc(&self) -> HLCTimestamp {
        HLCTimestamp::new(
            Duration::from_secs(self.secs) + Duration::from_millis(self.frac as u64 * 4),
            self.counter,
            self.node,
        )
    }

    pub fn of(ts: HLCTimestamp) -> Self {
        Stamp { secs: ts.seconds(), frac: ts.fractional(), counter: ts.counter(), node: ts.node() }
    }

    pub fn json(&self) -> Value {
        json!(format!("{}.{:03}/{}@{}", self.secs, self.frac as u32 * 4, self.counter, self.node))
    }

    pub fn millis(&self) -> u64 {
        self.secs * 1000 + self.frac as u64 * 4
    }
}

pub fn stamp_json(ts: HLCTimestamp) -> Value {
    Stamp::of(ts).json()
}

/// Draws stamps from a small grid so that ties on time and counter are frequent;
/// distinctness is by construction (counter bumped until unused).
pub struct StampGen {
    pub base: u64,
    pub window: u64,
    pub nodes: Vec<u8>,
    used: BTreeSet<Stamp>,
}

impl StampGen {
    pub fn new(base: u64, window: u64, nodes: Vec<u8>) -> Self {
        Self { base, window, nodes, used: BTreeSet::new() }
    }

    pub fn draw(&mut self, src: &mut Src) -> Stamp {
        let node = *src.pick(&self.nodes);
        self.draw_for(src, node)
    }

    pub fn draw_for(&mut self, src: &mut Src, node: u8) -> Stamp {
        // a quarter of the draws reuse (time, counter) of an earlier stamp, so that only the
        // node id (or nothing but the bump below) separates them
        if !self.used.is_empty() && src.chance(1, 4) {
            let i = src.below(self.used.len());
            let prev = *self.used.iter().nth(i).unwrap();
            let mut s = Stamp { node, ..prev };
            while !self.used.insert(s) {
                s = Self::bump(s);
            }
            return s;
        }
        // coarse grid: 8 time points across the window, or a fully random offset
        let secs = if src.chance(3, 4) {
            self.base + (self.window * src.below64(8)) / 8
        } else {
            self.base + src.below64(self.window + 1)
        };
        let frac = *src.pick(&[0u8, 0, 1, 125, 249]);
        let counter = *src.pick(&[0u16, 0, 1, 2, 65535]);
        let mut s = Stamp { secs, frac, counter, node };
        while !self.used.insert(s) {
            s = Self::bump(s);
        }
        s
    }

    /// deterministic step to the next stamp of the same node
    fn bump(mut s: Stamp) -> Stamp {
        if s.counter < 65535 {
            s.counter += 1;
        } else if s.frac < 249 {
            s.counter = 0;
            s.frac += 1;
        } else if s.secs < u32::MAX as u64 {
            s.counter = 0;
            s.frac = 0;
            s.secs += 1;
        } else {
            // the last representable stamp is taken (found by the coverage-guided engine: a base right below the end of
            // the 32-bit range): continue from the start of the previous second instead of leaving the valid domain
            s.counter = 0;
            s.frac = 0;
            s.secs -= 1;
        }
        s
    }
}

#[derive(Debug, Clone, Copy, PartialEq, Eq)]
pub struct SetOp {
    pub key: Key,
    pub stamp: Stamp,
    pub delete: bool,
}

impl SetOp {
    pub fn json(&self) -> Value {
        json!({"op": if self.delete {"del"} else {"ins"}, "key": self.key, "ts": self.stamp.json()})
    }
}

/// Last-writer-wins reference: per key the op with the greatest stamp.
pub fn lww(ops: impl IntoIterator<Item = SetOp>) -> BTreeMap<Key, SetOp> {
    let mut m: BTreeMap<Key, SetOp> = BTreeMap::new();
    for op in ops {
        match m.get(&op.key) {
            Some(cur) if cur.stamp >= op.stamp => {},
            _ => {
                m.insert(op.key, op);
            },
        }
    }
    m
}

pub fn lww_live(ops: impl IntoIterator<Item = SetOp>) -> BTreeMap<Key, Stamp> {
    lww(ops).into_iter().filter(|(_, o)| !o.delete).map(|(k, o)| (k, o.stamp)).collect()
}

/// Observable view of a set: live ids and tombstones with stamps, through the public API only
/// (an empty set diffs against it and therefore lists everything it holds).
#[derive(Debug, Clone, PartialEq, Eq, Default)]
pub struct SetView {
    pub live: BTreeMap<Key, Stamp>,
    pub dead: BTreeMap<Key, Stamp>,
}

impl SetView {
    pub fn json(&self) -> Value {
        json!({
            "live": self.live.iter().map(|(k, s)| json!([k, s.json()])).collect::<Vec<_>>(),
            "dead": self.dead.iter().map(|(k, s)| json!([k, s.json()])).collect::<Vec<_>>(),
        })
    }
}

pub fn view<const N: usize>(s: &OrSWotSet<N>) -> SetView {
    let (changes, removals) = OrSWotSet::<N>::default().diff(s);
    let mut v = SetView::default();
    for (k, ts) in changes {
        v.live.insert(k, Stamp::of(ts));
    }
    for (k, ts) in removals {
        v.dead.insert(k, Stamp::of(ts));
    }
    v
}

pub fn apply<const N: usize>(s: &mut OrSWotSet<N>, source: usize, op: &SetOp) -> bool {
    if op.delete {
        s.delete_with_source(source, op.key, op.stamp.hlc())
    } else {
        s.insert_with_source(source, op.key, op.stamp.hlc())
    }
}


/// Runs `f` under one of three wall clocks (hook H-clock): 0 = the real one (years after every generated stamp),
/// 1 = one hour after the datacake epoch (every generated stamp lies far in the future of this process), 2 = 60 000 000 s
/// after it (between the generators' bases). The replicated set never consults a wall clock: what a replica accepts,
/// lists in a difference or merges depends on the stamps alone, so every oracle has to hold under all three
/// (since the seeded change `C05n`, which compared peer stamps with the local wall clock).
pub fn with_wall<T>(mode: u8, f: impl FnOnce() -> T) -> T {
    let secs = match mode % 3 {
        0 => None,
        1 => Some(3_600u64),
        _ => Some(60_000_000u64),
    };
    if let Some(secs) = secs {
        datacake_crdt::verif::set_wall(Some(std::rc::Rc::new(move |_node| Some(std::time::Duration::from_secs(secs)))));
    }
    let out = f();
    if secs.is_some() {
        datacake_crdt::verif::set_wall(None);
    }
    out
}
