//! C12, part `inproc-end-to-end`: typed request / reply exchanges through the real `RpcClient`, the server's real
//! `handle_connection`, handler lookup, `RequestContents::from_body` on both sides and the status encoding, over the
//! in-process transport (hook H-rpc) — which, unlike turmoil's simulated TCP (socket buffer ~300 KB), carries values
//! of any size. "For every message value": 0 B .. 16 MiB, around every power of two where a body limit would sit.

use std::collections::BTreeMap;
use std::net::SocketAddr;
use std::sync::Arc;

use datacake_rpc::{Channel, ErrorCode, Handler, Request, RpcClient, RpcService, Server, ServiceRegistry, Status};
use parking_lot::Mutex;
use rkyv::{Archive, Deserialize, Serialize};
use serde_json::{json, Value};

use crate::core::{Outcome, Pass, Prop, Src};
use crate::ensure;
use crate::registry::{DynPart, Gen};

#[repr(C)]
#[derive(Serialize, Deserialize, Archive, Debug, Clone, PartialEq, Eq)]
#[archive(check_bytes)]
pub struct Carry {
    pub id: u64,
    pub data: Vec<u8>,
    pub text: String,
    pub reply_len: u32,
    /// 0 = answer, 1.. = fail with ErrorCode #n-1 and a message of `err_len` bytes
    pub fail_with: u8,
    pub err_len: u32,
}

#[repr(C)]
#[derive(Serialize, Deserialize, Archive, Debug, Clone, PartialEq, Eq)]
#[archive(check_bytes)]
pub struct Carried {
    pub id: u64,
    pub filler: Vec<u8>,
    pub echo_text: String,
}

fn code(i: u8) -> ErrorCode {
    match (i - 1) % 5 {
        0 => ErrorCode::ServiceUnavailable,
        1 => ErrorCode::InternalError,
        2 => ErrorCode::InvalidPayload,
        3 => ErrorCode::ConnectionError,
        _ => ErrorCode::Timeout,
    }
}

fn fnv(seed: u64, bytes: &[u8]) -> u64 {
    let mut h = seed ^ 0x9E37_79B9_7F4A_7C15;
    for b in bytes {
        h = (h ^ *b as u64).wrapping_mul(0x100_0000_01B3);
    }
    h
}

fn pattern(seed: u64, len: usize) -> Vec<u8> {
    // cheap, position-dependent, not periodic in a power of two
    (0..len).map(|i| ((i as u64).wrapping_mul(0x9E37_79B9).wrapping_add(seed) >> 7) as u8 ^ (i % 251) as u8).collect()
}

fn err_text(id: u64, len: usize) -> String {
    let alphabet = ['e', 'R', ' ', ':', '\u{e9}', '\u{4e2d}'];
    let mut s = String::with_capacity(len);
    let mut i = 0usize;
    while s.len() < len {
        s.push(alphabet[(i + id as usize) % alphabet.len()]);
        i += 1;
    }
    s
}

/// what the handler observed: id -> (data length, digest of data, digest of text)
type Seen = Arc<Mutex<Vec<(u64, usize, u64, u64)>>>;

pub struct Mirror {
    seen: Seen,
}

impl RpcService for Mirror {
    fn register_handlers(r: &mut ServiceRegistry<Self>) {
        r.add_handler::<Carry>();
    }
}

#[datacake_rpc::async_trait]
impl Handler<Carry> for Mirror {
    type Reply = Carried;

    async fn on_message(&self, msg: Request<Carry>) -> Result<Carried, Status> {
        let m = msg.deserialize_view().map_err(Status::internal)?;
        self.seen.lock().push((m.id, m.data.len(), fnv(m.id, &m.data), fnv(m.id, m.text.as_bytes())));
        if m.fail_with > 0 {
            return Err(Status { code: code(m.fail_with), message: err_text(m.id, m.err_len as usize) });
        }
        Ok(Carried { id: m.id, filler: pattern(m.id ^ 0xABCD, m.reply_len as usize), echo_text: m.text })
    }
}

#[derive(Debug, Clone)]
pub struct Xchg {
    pub data_len: usize,
    pub text_len: usize,
    pub reply_len: usize,
    pub fail_with: u8,
    pub err_len: usize,
    /// 0 = send, 1 = send_owned, 2 = context with a header
    pub route: u8,
}

#[derive(Debug, Clone)]
pub struct Case {
    pub xs: Vec<Xchg>,
    pub concurrent: bool,
}

pub struct EndToEnd;

fn gen_size(src: &mut Src) -> usize {
    match src.weighted(&[3, 6, 5, 3, 2, 1]) {
        0 => 0,
        1 => 1 + src.below(64),
        2 => 64 + src.below(8_000),
        3 => *src.pick(&[65_535usize, 65_536, 65_537, 100_000, 262_144, 300_000]),
        4 => {
            // around the powers of two where a "maximum body size" would sit
            let p = *src.pick(&[1usize << 20, 2 << 20, 4 << 20, 8 << 20]);
            (p + src.below(129)).saturating_sub(64 + *src.pick(&[0usize, 0, 4_096]))
        },
        _ => *src.pick(&[(5usize << 20) + 3, 12 << 20, 16 << 20]),
    }
}

impl Prop for EndToEnd {
    type Case = Case;

    fn id(&self) -> &'static str {
        "C12"
    }

    fn part(&self) -> &'static str {
        "inproc-end-to-end"
    }

    fn width(&self) -> usize {
        64
    }

    fn breadcrumbs(&self) -> bool {
        true
    }

    fn shrink_budget(&self) -> usize {
        200
    }

    fn gen(&self, src: &mut Src) -> Case {
        let n = 1 + src.below(4);
        let xs = (0..n)
            .map(|_| {
                let fail = src.chance(1, 4);
                Xchg {
                    data_len: gen_size(src),
                    text_len: if src.chance(1, 3) { gen_size(src).min(2 << 20) } else { src.below(20) },
                    reply_len: gen_size(src),
                    fail_with: if fail { 1 + src.below(5) as u8 } else { 0 },
                    err_len: if fail { gen_size(src).min(3 << 20) } else { 0 },
                    route: src.below(3) as u8,
                }
            })
            .collect();
        Case { xs, concurrent: src.chance(1, 3) }
    }

    fn run(&self, case: &Case) -> Outcome {
        crate::e3::sim(1, 70_000_000, BTreeMap::new(), |_net| run(case))
    }

    fn describe(&self, case: &Case) -> Value {
        json!({
            "concurrent": case.concurrent,
            "exchanges": case.xs.iter().map(|x| json!({
                "request_data_bytes": x.data_len, "request_text_bytes": x.text_len, "reply_filler_bytes": x.reply_len,
                "handler_fails_with": if x.fail_with > 0 { json!(format!("{:?}", code(x.fail_with))) } else { Value::Null },
                "error_message_bytes": x.err_len, "route": (["send", "send_owned", "context+header"][x.route as usize]),
            })).collect::<Vec<_>>(),
        })
    }

    fn rule(&self) -> &'static str {
        "1-4 typed exchanges (sequential or concurrent) through the real RpcClient (send / send_owned / context with a header), the \
         server's real connection handler, handler lookup and status encoding over the in-process transport; request data 0 B - 16 MiB \
         (around 64 KiB and around 1, 2, 4, 8 MiB +-64 B), request text up to 2 MiB, reply up to 16 MiB, one exchange in four answered with \
         an error of every ErrorCode and a message of up to 3 MiB; oracle: the handler observed exactly the bytes sent (length + digest of \
         data and text), the client received exactly the reply (id, every filler byte, the echoed text) or exactly the handler's code and \
         message, every request ran once; non-trivial = an exchange carrying >= 64 KiB in either direction or an error"
    }
}

async fn run(case: &Case) -> Outcome {
    let addr: SocketAddr = ([10, 6, 0, 1], 7000).into();
    let server = Server::listen(addr).await.expect("listen");
    let seen: Seen = Arc::new(Mutex::new(vec![]));
    server.add_service(Mirror { seen: seen.clone() });
    let client = RpcClient::<Mirror>::new(Channel::connect(addr));

    let mut futs = vec![];
    for (i, x) in case.xs.iter().enumerate() {
        let id = i as u64 + 1;
        let msg = Carry {
            id,
            data: pattern(id, x.data_len),
            text: err_text(id ^ 5, x.text_len),
            reply_len: x.reply_len as u32,
            fail_with: x.fail_with,
            err_len: x.err_len as u32,
        };
        let c = client.clone();
        let route = x.route;
        futs.push(async move {
            let res = match route {
                0 => c.send(&msg).await,
                1 => c.send_owned(msg.clone()).await,
                _ => c.create_rpc_context().set_header("x-verif", datacake_rpc::http::HeaderValue::from_static("1")).send(&msg).await,
            };
            // compare inside the view: converting 16 MiB to owned values is not the subject
            let res = res.map(|v| (v.id.value(), v.filler.as_slice() == pattern(id ^ 0xABCD, msg.reply_len as usize).as_slice(), v.filler.len(), v.echo_text.as_str() == msg.text.as_str()));
            (id, msg, res)
        });
    }
    let results = if case.concurrent {
        futures::future::join_all(futs).await
    } else {
        let mut out = vec![];
        for f in futs {
            out.push(f.await);
        }
        out
    };
    let mut big = false;
    let mut failed = false;
    for (x, (id, msg, res)) in case.xs.iter().zip(results) {
        big |= x.data_len >= 65_536 || x.reply_len >= 65_536 || x.text_len >= 65_536 || x.err_len >= 65_536;
        let observed: Vec<_> = seen.lock().iter().filter(|s| s.0 == id).cloned().collect();
        ensure!(observed.len() == 1, "handler-ran-not-once", "request {id} ({} data bytes): the handler ran {} times; client got {:?}", x.data_len, observed.len(), res.as_ref().map(|_| "Ok").map_err(|s| s.clone()));
        let o = observed[0];
        ensure!(
            o.1 == msg.data.len() && o.2 == fnv(id, &msg.data) && o.3 == fnv(id, msg.text.as_bytes()),
            "handler-observed-other-bytes",
            "request {id}: sent {} data bytes (digest {:#x}) and {} text bytes, the handler observed {} data bytes (digest {:#x}), text digest {}",
            msg.data.len(),
            fnv(id, &msg.data),
            msg.text.len(),
            o.1,
            o.2,
            if o.3 == fnv(id, msg.text.as_bytes()) { "equal" } else { "different" }
        );
        if x.fail_with == 0 {
            match res {
                Ok((rid, filler_ok, flen, text_ok)) => ensure!(
                    rid == id && filler_ok && flen == x.reply_len && text_ok,
                    "client-received-other-reply",
                    "request {id}: reply id {rid}, filler {flen} bytes (expected {}), filler bytes equal: {filler_ok}, echoed text equal: {text_ok}",
                    x.reply_len
                ),
                Err(status) => {
                    return Err(crate::core::Fail {
                        signature: "exchange-failed".into(),
                        message: format!("request {id} ({} data bytes, {} text bytes, reply of {} bytes) failed with {:?} {:?}", x.data_len, x.text_len, x.reply_len, status.code, &status.message.chars().take(160).collect::<String>()),
                    })
                },
            }
        } else {
            failed = true;
            let want = Status { code: code(x.fail_with), message: err_text(id, x.err_len) };
            match res {
                Ok(_) => {
                    return Err(crate::core::Fail { signature: "error-turned-into-reply".into(), message: format!("request {id}: the handler failed with {:?} but the client received a reply", want.code) })
                },
                Err(status) => ensure!(
                    status.code == want.code && status.message == want.message,
                    "status-not-propagated",
                    "request {id}: the handler failed with {:?} and a message of {} bytes, the client received {:?} with a message of {} bytes ({:?}...)",
                    want.code,
                    want.message.len(),
                    status.code,
                    status.message.len(),
                    status.message.chars().take(80).collect::<String>()
                ),
            }
        }
    }
    datacake_rpc::verif::unregister(addr);
    server.shutdown();
    let mut labels = vec![];
    if big {
        labels.push(">=64KiB");
    }
    if case.xs.iter().any(|x| x.data_len.max(x.reply_len) >= 4 << 20) {
        labels.push(">=4MiB");
    }
    if failed {
        labels.push("handler_error");
    }
    if case.concurrent && case.xs.len() > 1 {
        labels.push("concurrent");
    }
    Ok(Pass { nontrivial: big || failed, labels })
}


// ---------------------------------------------------------------------------------------
// Part `shared-pointers`: message values holding `Arc`s. The serializer keeps a map from allocation address to
// position in the buffer for them; values that share an allocation inside one message, the SAME live allocation sent
// again in the next message, and a freed address reused by a new allocation are all ordinary for callers.

#[repr(C)]
#[derive(Serialize, Deserialize, Archive, Debug, Clone, PartialEq, Eq)]
#[archive(check_bytes)]
pub struct Leaf {
    pub tag: u64,
    pub bytes: Vec<u8>,
}

#[repr(C)]
#[derive(Serialize, Deserialize, Archive, Debug, Clone, PartialEq, Eq)]
#[archive(check_bytes)]
pub struct Linked {
    pub id: u64,
    pub first: Arc<Leaf>,
    pub second: Arc<Leaf>,
    pub list: Vec<Arc<Leaf>>,
    pub label: Arc<String>,
}

pub struct Relay {
    seen: Arc<Mutex<Vec<(u64, Option<Linked>)>>>,
    /// leaves the service keeps alive and puts into its replies again and again
    pool: Vec<Arc<Leaf>>,
}

impl RpcService for Relay {
    fn register_handlers(r: &mut ServiceRegistry<Self>) {
        r.add_handler::<Linked>();
    }
}

#[datacake_rpc::async_trait]
impl Handler<Linked> for Relay {
    type Reply = Linked;

    async fn on_message(&self, msg: Request<Linked>) -> Result<Linked, Status> {
        let m = msg.deserialize_view().ok();
        let id = m.as_ref().map_or(0, |m| m.id);
        self.seen.lock().push((id, m));
        let a = self.pool[(id % self.pool.len() as u64) as usize].clone();
        let b = self.pool[((id / 3) % self.pool.len() as u64) as usize].clone();
        Ok(reply_for(id, a, b))
    }
}

fn leaf(tag: u64, len: usize) -> Leaf {
    Leaf { tag, bytes: pattern(tag, len) }
}

fn reply_for(id: u64, a: Arc<Leaf>, b: Arc<Leaf>) -> Linked {
    Linked { id, first: a.clone(), second: b.clone(), list: vec![b, a.clone(), a], label: Arc::new(format!("reply-{id}")) }
}

#[derive(Debug, Clone)]
pub struct SharedStep {
    /// which client-side leaf slots the message uses
    pub first: usize,
    pub second: usize,
    pub list: Vec<usize>,
    /// slots whose leaf is dropped and re-created (new content, possibly the old address) before this message
    pub renew: Vec<usize>,
    pub through_rpc: bool,
}

#[derive(Debug, Clone)]
pub struct SharedCase {
    pub leaf_lens: Vec<usize>,
    pub steps: Vec<SharedStep>,
}

pub struct SharedPtrs;

impl Prop for SharedPtrs {
    type Case = SharedCase;

    fn id(&self) -> &'static str {
        "C12"
    }

    fn part(&self) -> &'static str {
        "shared-pointers"
    }

    fn width(&self) -> usize {
        96
    }

    fn breadcrumbs(&self) -> bool {
        true
    }

    fn shrink_budget(&self) -> usize {
        400
    }

    fn gen(&self, src: &mut Src) -> SharedCase {
        let slots = 1 + src.below(4);
        let leaf_lens = (0..slots).map(|_| *src.pick(&[0usize, 1, 7, 8, 33, 500, 5_000])).collect();
        let n = 2 + src.below(5);
        let steps = (0..n)
            .map(|_| SharedStep {
                first: src.below(slots),
                second: src.below(slots),
                list: (0..src.below(5)).map(|_| src.below(slots)).collect(),
                renew: (0..slots).filter(|_| src.chance(1, 5)).collect(),
                through_rpc: src.chance(1, 2),
            })
            .collect();
        SharedCase { leaf_lens, steps }
    }

    fn run(&self, case: &SharedCase) -> Outcome {
        crate::e3::sim(1, 70_000_000, BTreeMap::new(), |_net| run_shared(case))
    }

    fn describe(&self, case: &SharedCase) -> Value {
        json!({
            "leaf_payload_bytes": case.leaf_lens,
            "messages": case.steps.iter().map(|s| json!({
                "first": s.first, "second": s.second, "list": s.list, "leaves_recreated_before": s.renew,
                "via": if s.through_rpc { "rpc" } else { "frame only" },
            })).collect::<Vec<_>>(),
        })
    }

    fn rule(&self) -> &'static str {
        "2-6 messages built from 1-4 reference-counted leaves (Arc) that the sender keeps alive between messages: a message names \
         one leaf several times (shared inside the message), later messages name the same live leaves again, and leaves are dropped \
         and re-created between messages (their address may be reused); each message is framed with to_view_bytes and read back with \
         DataView::using + deserialize_view, half of them also travel through the real client and server to a handler that replies with \
         leaves it keeps alive itself; oracle: every frame is accepted and deserialises to a value equal to the one sent, the handler \
         observed that value, the client received the reply the handler built; non-trivial = a live leaf is named by two different messages"
    }
}

async fn run_shared(case: &SharedCase) -> Outcome {
    use datacake_rpc::{to_view_bytes, DataView};
    let addr: SocketAddr = ([10, 6, 0, 2], 7000).into();
    let server = Server::listen(addr).await.expect("listen");
    let seen = Arc::new(Mutex::new(vec![]));
    let pool: Vec<Arc<Leaf>> = (0..3).map(|i| Arc::new(leaf(900 + i, 5 + 40 * i as usize))).collect();
    server.add_service(Relay { seen: seen.clone(), pool: pool.clone() });
    let client = RpcClient::<Relay>::new(Channel::connect(addr));

    let mut generation = 0u64;
    let mut leaves: Vec<Arc<Leaf>> = case.leaf_lens.iter().enumerate().map(|(i, l)| Arc::new(leaf(i as u64, *l))).collect();
    let mut used_before: std::collections::BTreeSet<usize> = Default::default();
    let mut reused_live = false;
    for (i, st) in case.steps.iter().enumerate() {
        for slot in &st.renew {
            generation += 1;
            // drop first, then allocate: the allocator is free to hand the old address out again
            leaves[*slot] = Arc::new(leaf(1_000 * generation + *slot as u64, 0));
            let fresh = Arc::new(leaf(1_000 * generation + *slot as u64, case.leaf_lens[*slot]));
            leaves[*slot] = fresh;
            used_before.remove(slot);
        }
        let id = i as u64 + 1;
        let msg = Linked {
            id,
            first: leaves[st.first].clone(),
            second: leaves[st.second].clone(),
            list: st.list.iter().map(|s| leaves[*s].clone()).collect(),
            label: Arc::new(format!("message-{id}")),
        };
        for s in [st.first, st.second].iter().chain(st.list.iter()) {
            if used_before.contains(s) {
                reused_live = true;
            }
        }
        for s in [st.first, st.second].iter().chain(st.list.iter()) {
            used_before.insert(*s);
        }
        // frame level
        let frame = to_view_bytes(&msg).map_err(|e| crate::core::Fail { signature: "serialise-failed".into(), message: format!("message {id}: to_view_bytes failed: {e}") })?;
        let mut copy = rkyv::AlignedVec::with_capacity(frame.len());
        copy.extend_from_slice(&frame);
        let back = std::panic::catch_unwind(std::panic::AssertUnwindSafe(|| DataView::<Linked>::using(copy).map(|v| v.deserialize_view())));
        match back {
            Ok(Ok(Ok(v))) => ensure!(v == msg, "roundtrip-differs", "message {id}: the value read back from its own frame differs from the value sent: sent {:?}, read {:?}", brief(&msg), brief(&v)),
            Ok(Ok(Err(_))) => return Err(crate::core::Fail { signature: "valid-frame-refused".into(), message: format!("message {id}: its frame was accepted but does not deserialise ({:?})", brief(&msg)) }),
            Ok(Err(_)) => return Err(crate::core::Fail { signature: "valid-frame-refused".into(), message: format!("message {id}: the frame to_view_bytes produced for {:?} is refused", brief(&msg)) }),
            Err(_) => return Err(crate::core::Fail { signature: "valid-frame-panics".into(), message: format!("message {id}: reading back the frame of {:?} panicked", brief(&msg)) }),
        }
        if st.through_rpc {
            let res = client.send(&msg).await;
            let observed = seen.lock().iter().rev().find(|(_, m)| m.as_ref().map_or(false, |m| m.id == id)).map(|(_, m)| m.clone().unwrap());
            ensure!(observed.as_ref() == Some(&msg), "handler-observed-other-value", "message {id}: sent {:?}, the handler observed {:?} (client got {:?})", brief(&msg), observed.as_ref().map(brief), res.as_ref().map(|_| "a reply").map_err(|s| s.clone()));
            let want = reply_for(id, pool[(id % 3) as usize].clone(), pool[((id / 3) % 3) as usize].clone());
            match res {
                Ok(view) => {
                    let got: Result<Linked, _> = view.deserialize_view();
                    ensure!(matches!(&got, Ok(g) if *g == want), "client-received-other-reply", "message {id}: the handler replied {:?}, the client received {:?}", brief(&want), got.as_ref().map(brief).map_err(|_| "an undecodable view"));
                },
                Err(status) => return Err(crate::core::Fail { signature: "exchange-failed".into(), message: format!("message {id} ({:?}) failed with {:?}", brief(&msg), status) }),
            }
        }
    }
    datacake_rpc::verif::unregister(addr);
    server.shutdown();
    let mut labels = vec![];
    if reused_live {
        labels.push("live_leaf_in_two_messages");
    }
    if case.steps.iter().any(|s| !s.renew.is_empty()) {
        labels.push("leaf_recreated");
    }
    Ok(Pass { nontrivial: reused_live, labels })
}

fn brief(m: &Linked) -> String {
    let l = |x: &Arc<Leaf>| format!("leaf#{}[{}B]", x.tag, x.bytes.len());
    format!("Linked{{id:{}, first:{}, second:{}, list:[{}], label:{:?}}}", m.id, l(&m.first), l(&m.second), m.list.iter().map(l).collect::<Vec<_>>().join(","), m.label)
}

// ---------------------------------------------------------------------------------------
// Part `tiny-replies` (after the seeded change `C12q`): "for every message value" includes values whose archived form is
// empty or a few bytes long -- an acknowledgement is a unit struct, and its whole frame is the 4-byte checksum trailer.
// Every end-to-end exchange so far carried one request / reply pair of at least 40 bytes.

use crate::msgs::{Six, Small, Unit};

macro_rules! ask {
    ($name:ident) => {
        #[repr(C)]
        #[derive(Serialize, Deserialize, Archive, Debug, Clone, PartialEq, Eq)]
        #[archive(check_bytes)]
        pub struct $name {
            pub id: u64,
            /// 0 = answer, 1.. = fail with ErrorCode #n-1
            pub fail_with: u8,
        }
    };
}
ask!(AskUnit);
ask!(AskSmall);
ask!(AskSix);

pub struct Tiny {
    /// (kind, id) of every request a handler saw; a zero-sized request carries no id and is logged with id 0
    seen: Arc<Mutex<Vec<(u8, u64)>>>,
}

impl RpcService for Tiny {
    fn register_handlers(r: &mut ServiceRegistry<Self>) {
        r.add_handler::<AskUnit>();
        r.add_handler::<AskSmall>();
        r.add_handler::<AskSix>();
        r.add_handler::<Unit>();
    }
}

fn small_of(id: u64) -> Small {
    Small { a: id as u8, flag: id % 2 == 1, b: (id >> 3) as u8 ^ 0x5A }
}

fn six_of(id: u64) -> Six {
    Six { bytes: [id as u8, 1, 2, 3, 4, (id * 7) as u8], tail: id as u16 ^ 0xBEEF, last: 9 }
}

fn tiny_status(kind: u8, id: u64, fail_with: u8) -> Status {
    Status { code: code(fail_with), message: format!("no-{kind}-{id}") }
}

#[datacake_rpc::async_trait]
impl Handler<AskUnit> for Tiny {
    type Reply = Unit;

    async fn on_message(&self, msg: Request<AskUnit>) -> Result<Unit, Status> {
        let (id, f) = (msg.id.value(), msg.fail_with);
        self.seen.lock().push((0, id));
        if f > 0 {
            return Err(tiny_status(0, id, f));
        }
        Ok(Unit)
    }
}

#[datacake_rpc::async_trait]
impl Handler<AskSmall> for Tiny {
    type Reply = Small;

    async fn on_message(&self, msg: Request<AskSmall>) -> Result<Small, Status> {
        let (id, f) = (msg.id.value(), msg.fail_with);
        self.seen.lock().push((1, id));
        if f > 0 {
            return Err(tiny_status(1, id, f));
        }
        Ok(small_of(id))
    }
}

#[datacake_rpc::async_trait]
impl Handler<AskSix> for Tiny {
    type Reply = Six;

    async fn on_message(&self, msg: Request<AskSix>) -> Result<Six, Status> {
        let (id, f) = (msg.id.value(), msg.fail_with);
        self.seen.lock().push((2, id));
        if f > 0 {
            return Err(tiny_status(2, id, f));
        }
        Ok(six_of(id))
    }
}

#[datacake_rpc::async_trait]
impl Handler<Unit> for Tiny {
    /// a zero-sized request answered with a zero-sized reply
    type Reply = Unit;

    async fn on_message(&self, _msg: Request<Unit>) -> Result<Unit, Status> {
        self.seen.lock().push((3, 0));
        Ok(Unit)
    }
}

#[derive(Debug, Clone)]
pub struct TinyCase {
    /// (kind 0..=3, fail_with, route)
    pub xs: Vec<(u8, u8, u8)>,
    pub concurrent: bool,
}

pub struct TinyReplies;

impl Prop for TinyReplies {
    type Case = TinyCase;

    fn id(&self) -> &'static str {
        "C12"
    }

    fn part(&self) -> &'static str {
        "tiny-replies"
    }

    fn width(&self) -> usize {
        32
    }

    fn gen(&self, src: &mut Src) -> TinyCase {
        let n = 1 + src.below(6);
        let xs = (0..n).map(|_| (src.below(4) as u8, if src.chance(1, 5) { 1 + src.below(5) as u8 } else { 0 }, src.below(3) as u8)).collect();
        TinyCase { xs, concurrent: src.chance(1, 3) }
    }

    fn run(&self, case: &TinyCase) -> Outcome {
        crate::e3::sim(1, 70_000_000, BTreeMap::new(), |_net| run_tiny(case))
    }

    fn describe(&self, case: &TinyCase) -> Value {
        json!({
            "concurrent": case.concurrent,
            "exchanges": case.xs.iter().map(|(k, f, r)| json!({
                "reply_type": (["unit struct (0 bytes)", "Small (3 bytes, alignment 1)", "Six (9 bytes -> 10, alignment 2)", "unit struct to a unit request"][*k as usize]),
                "handler_fails_with": if *f > 0 && *k < 3 { json!(format!("{:?}", code(*f))) } else { Value::Null },
                "route": (["send", "send_owned", "context+header"][*r as usize]),
            })).collect::<Vec<_>>(),
        })
    }

    fn rule(&self) -> &'static str {
        "1-6 typed exchanges (sequential or concurrent; send / send_owned / context with a header) with a service whose replies are a \
         unit struct (archived form of 0 bytes: the frame is the checksum trailer alone), a 3-byte struct of alignment 1 and a 10-byte \
         struct of alignment 2, one request type being a unit struct itself; one exchange in five answered with an error status; oracle: \
         the handler ran exactly once per request and saw its id, the client received exactly the reply value the handler computed for \
         that id, or exactly its code and message; non-trivial = a zero-sized reply was delivered"
    }
}

async fn run_tiny(case: &TinyCase) -> Outcome {
    let addr: SocketAddr = ([10, 6, 0, 2], 7000).into();
    let server = Server::listen(addr).await.expect("listen");
    let seen = Arc::new(Mutex::new(vec![]));
    server.add_service(Tiny { seen: seen.clone() });
    let client = RpcClient::<Tiny>::new(Channel::connect(addr));
    // what the client saw: Ok(description of the value) or the status
    let mut futs: Vec<std::pin::Pin<Box<dyn std::future::Future<Output = Result<String, Status>>>>> = vec![];
    for (i, (kind, fail_with, route)) in case.xs.iter().enumerate() {
        let (id, f, route, c) = (i as u64 + 1, *fail_with, *route, client.clone());
        macro_rules! go {
            ($msg:expr, $show:expr) => {{
                let msg = $msg;
                futs.push(Box::pin(async move {
                    let res = match route {
                        0 => c.send(&msg).await,
                        1 => c.send_owned(msg.clone()).await,
                        _ => c.create_rpc_context().set_header("x-verif", datacake_rpc::http::HeaderValue::from_static("1")).send(&msg).await,
                    };
                    res.map(|v| $show(v))
                }))
            }};
        }
        match kind {
            0 => go!(AskUnit { id, fail_with: f }, |v: datacake_rpc::DataView<Unit>| format!("{:?}", v.deserialize_view().ok())),
            1 => go!(AskSmall { id, fail_with: f }, |v: datacake_rpc::DataView<Small>| format!("{:?}", v.deserialize_view().ok())),
            2 => go!(AskSix { id, fail_with: f }, |v: datacake_rpc::DataView<Six>| format!("{:?}", v.deserialize_view().ok())),
            _ => go!(Unit, |v: datacake_rpc::DataView<Unit>| format!("{:?}", v.deserialize_view().ok())),
        }
    }
    let results = if case.concurrent {
        futures::future::join_all(futs).await
    } else {
        let mut out = vec![];
        for f in futs {
            out.push(f.await);
        }
        out
    };
    let mut zero = false;
    for (i, ((kind, fail_with, _), res)) in case.xs.iter().zip(results).enumerate() {
        let id = i as u64 + 1;
        let fails = *fail_with > 0 && *kind < 3;
        let want: Result<String, Status> = if fails {
            Err(tiny_status(*kind, id, *fail_with))
        } else {
            Ok(match kind {
                1 => format!("{:?}", Some(small_of(id))),
                2 => format!("{:?}", Some(six_of(id))),
                _ => format!("{:?}", Some(Unit)),
            })
        };
        ensure!(
            res == want,
            "tiny-reply-not-delivered",
            "exchange {i} (kind {kind}): the handler answered {:?}, the client observed {:?}",
            want,
            res
        );
        zero |= !fails && (*kind == 0 || *kind == 3);
    }
    let log = seen.lock().clone();
    for (i, (kind, _, _)) in case.xs.iter().enumerate() {
        if *kind < 3 {
            let n = log.iter().filter(|e| **e == (*kind, i as u64 + 1)).count();
            ensure!(n == 1, "handler-ran-not-once", "exchange {i} (kind {kind}): its handler ran {n} times");
        }
    }
    let units = case.xs.iter().filter(|x| x.0 == 3).count();
    ensure!(log.iter().filter(|e| e.0 == 3).count() == units, "handler-ran-not-once", "{units} unit requests were sent, the handler ran {} times", log.iter().filter(|e| e.0 == 3).count());
    datacake_rpc::verif::unregister(addr);
    server.shutdown();
    let mut labels = vec![];
    if zero {
        labels.push("zero_sized_reply");
    }
    if case.xs.iter().any(|x| x.0 == 3) {
        labels.push("zero_sized_request");
    }
    if case.concurrent && case.xs.len() > 1 {
        labels.push("concurrent");
    }
    Ok(Pass { nontrivial: zero, labels })
}

pub fn parts() -> Vec<Box<dyn DynPart>> {
    vec![
        Box::new(Gen::new(EndToEnd, 1_500, 100_000)),
        Box::new(Gen::new(SharedPtrs, 40_000, 2_000_000)),
        Box::new(Gen::new(TinyReplies, 40_000, 2_000_000)),
    ]
}
