#!/bin/sh
# usage: tools/sweep_seeded.sh [jobs] [name-prefix]   -> seeded/RESULTS-sweep.txt (one line per seeded change and check)
# Runs every seeded change (or those whose directory name starts with the prefix) against the quick check of the
# property it was written for, each on its own patched copy of /repo (tools/patched_run.sh), `jobs` at a time.
# Works from /verif and from a `vp run` snapshot (builds the harness there first).
SRC="$(cd "$(dirname "$0")/.." && pwd)"
JOBS="${1:-5}"; PREFIX="${2:-}"
(cd "$SRC/harness" && CARGO_NET_OFFLINE=true cargo build --release --offline >/dev/null 2>&1) || { echo "harness does not build"; exit 2; }
(cd "$SRC/harness-sim" && CARGO_NET_OFFLINE=true cargo build --release --offline >/dev/null 2>&1) || { echo "harness-sim does not build"; exit 2; }
cd "$SRC/seeded" || exit 2
OUT="$SRC/seeded/RESULTS-sweep.txt"; : > "$OUT"
for d in ${PREFIX}*/; do
    d=${d%/}
    [ -f "$d/patch.diff" ] || continue
    prop=$(python3 -c "import json;m=json.load(open('$d/meta.json'));print(' '.join(m.get('caught_by') or [m['property']]))")
    echo "$d $prop"
done | xargs -P "$JOBS" -L 1 sh -c 'd=$0; shift 0; "'"$SRC"'/tools/patched_run.sh" "'"$SRC"'/seeded/$d/patch.diff" "$@" 2>&1 | sed "s/^/$d  /" | cut -c1-300 >> "'"$OUT"'"'
sort -o "$OUT" "$OUT"
echo "caught: $(grep -c "rc=1" "$OUT")   not caught: $(grep -c "rc=0" "$OUT")   inconclusive: $(grep -c "rc=2" "$OUT")"
grep "rc=[02]" "$OUT"
