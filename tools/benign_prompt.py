#!/usr/bin/env python3
"""usage: tools/benign_prompt.py <tag> <area text>  -> prompt for a sub-agent that writes property-PRESERVING changes."""
import json, sys
tag, area = sys.argv[1], sys.argv[2]
import glob
base = tag.rstrip("0123456789")
earlier = []
for d in sorted(glob.glob("/verif/benign/%s*-*/meta.json" % base)):
    earlier.append("- " + json.load(open(d)).get("title", "")[:200])
earlier_txt = ("\nEarlier rounds already wrote the following changes in this area; do something DIFFERENT (other code sites, other kinds of change):\n" + "\n".join(earlier) + "\n") if earlier else ""
props = [json.loads(l) for l in open("/verif/properties.jsonl")]
wt = "/tmp/wtB-%s" % tag
plist = "\n\n".join("%s — %s\n%s" % (p["id"], p["title"], p["statement"]) for p in props)
print(f"""You are helping to evaluate a verification effort for the Rust project lnx-search/datacake (a toolkit for
leaderless, eventually consistent replicated stores). A set of checks claims to decide the 19 properties listed below.
A good check never raises an alarm on code for which the property still holds. Your job is to write realistic code
changes that ALTER OBSERVABLE-BUT-INCIDENTAL BEHAVIOUR of the library while PRESERVING every one of the 19 properties, so
that we can see whether the checks wrongly complain about them.

Your own scratch git worktree of the repository is at {wt} (detached HEAD). Work ONLY there; never touch /repo or
/verif (do not even read /verif). No network: always pass --offline to cargo and `export CARGO_TARGET_DIR={wt}/target`.
Code guarded by `#[cfg(datacake_verif)]` is test instrumentation: keep it compiling and semantically intact (a check is
allowed to use it), and keep every `pub` item's name and signature unchanged.

YOUR AREA: {area}
{earlier_txt}
Write FIVE independent changes (each applies on its own to a clean checkout) of the kind maintainers really make and
that a too-strict test could trip over, for example: a different but equally valid choice where the specification
leaves freedom (iteration order, which of several eligible nodes is chosen, tie-free internal ordering, batching
granularity, cache lifetimes, timing constants such as batch or poll intervals within sane limits), an optimisation
that skips redundant work (redundant storage calls, redundant messages, short-circuits that return the same answers), an
extra defensive call or retry, different error MESSAGES (same error kinds/codes) or log lines, a refactoring that moves
work between tasks or changes how many awaits / messages an operation takes, a different internal data structure, a
changed serialisation detail that still round-trips, stricter validation of inputs nobody may legally send. Aim for
variety, and for changes whose effect is actually visible to a black-box observer (not pure renames/comment edits).
For every change you must be able to argue, property by property where relevant, that all 19 properties still hold.
If in doubt whether a change preserves a property, discard it.

Each change must compile (whole workspace: `cargo build --offline`, and `cargo build --offline -p datacake-rpc --features simulation`
if you touched datacake-rpc) and pass the existing tests of every crate it touches (per package: `cargo test --offline -p <crate>`;
for datacake-eventual-consistency add `--features test-utils`; never `cargo test --workspace`).

THE 19 PROPERTIES
{plist}

DELIVERABLES in {wt}/SEEDED/ : for n = 1..5 a file benign-n.diff (`git diff` against the clean checkout, applies with
`git apply`) and benign-n.json = {{"title": "...", "what_changes_observably": "...", "why_every_property_still_holds": "...",
"files_touched": [...], "tests_run": [...]}}. Leave the worktree clean (no change applied) at the end. Do not commit.
Final answer: one line per change.""")
