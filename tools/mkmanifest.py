#!/usr/bin/env python3
"""Regenerates /verif/MANIFEST.json from the table below (kept in one place so the manifest is always valid)."""
import json, subprocess, sys

CHECKS = {
    "C04": dict(
        engine="E1-pure",
        technique="property-based testing (proptest-seeded choice sequences) + exhaustive small-scope enumeration against an LWW reference model",
        text="Randomised exploration (2M generated arrival orders per quick run, 200M thorough) plus exhaustive enumeration of all arrival sequences of <=3 ops in a small scope, each compared step by step with an independent last-writer-wins model; finds counterexamples, proves nothing.",
        note="Trusts the harness's 15-line LWW model and the field-wise Stamp ordering; stamps are drawn >= 1 h after the datacake epoch and inside a 3000 s window (the property's precondition).",
        ref="3 C04",
    ),
}

NOT_YET = "check not built yet in this round (see DESIGN.md section 10 for the build order)"

def main():
    props = [json.loads(l)["id"] for l in open("/verif/properties.jsonl")]
    hooks = json.load(open("/verif/tools/hooks.json"))
    checks = []
    for pid in props:
        if pid not in CHECKS:
            continue
        c = CHECKS[pid]
        checks.append({
            "property_id": pid,
            "quick_cmd": f"./check {pid} --tier quick",
            "thorough_cmd": f"./check {pid} --tier thorough",
            "evidence_file": f"/verif/evidence/{pid}.json",
            "replay_cmd_template": "./check --replay {path}",
            "engine": c["engine"],
            "level_claimed": {"category": "exploration", "text": c["text"], "design_ref": c["ref"]},
            "level_note": c["note"],
            "technique": c["technique"],
        })
    na = [{"property_id": p, "reason": NOT_YET} for p in props if p not in CHECKS]
    manifest = {
        "version": 1,
        "setup_cmd": "cd /verif/harness && CARGO_NET_OFFLINE=true cargo build --release --offline",
        "hooks": hooks,
        "engines": [
            {"name": "E1-pure", "path": "harness/src", "serves_properties": [p for p in props if CHECKS.get(p, {}).get("engine") == "E1-pure"], "kind_free_text": "direct synchronous calls into datacake-crdt / datacake-rpc / datacake-node types, cases decoded from proptest-generated choice sequences"},
        ],
        "checks": checks,
        "notes": "All checks: exit 0 held / exit 1 + VIOLATION line / exit 2 inconclusive (build failure or watchdog). Seeds: VERIF_SEED (0 remapped). known_findings.json lists recorded and fixed defects.",
        "not_applicable": na,
    }
    json.dump(manifest, open("/verif/MANIFEST.json", "w"), indent=1)
    print("wrote MANIFEST.json with", len(checks), "checks;", len(na), "not claimed")

main()
