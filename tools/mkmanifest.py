#!/usr/bin/env python3
"""Regenerates /verif/MANIFEST.json from the table below (kept in one place so the manifest is always valid)."""
import json, subprocess, sys

PBT = "property-based testing: proptest-seeded choice sequences decoded into cases, custom shrinker, explicit oracle"
CHECKS = {
    "C01": dict(engine="E2-actor+E3-cluster", technique=PBT + " (fault-injected in-process cluster of real nodes vs LWW reference model, message-fate scripts)",
        text="150k (quick) / 8M (thorough) histories on real keyspace actors where the harness owns every delivery (each direct and batched message lost, delayed so that it overtakes others, or duplicated; repair exchanges with their two halves interleaved with other traffic) and the history ends with exactly ONE round of pairwise exchanges in a generated order, plus 60k / 3M histories on 2-4 real nodes with the real distributor and poller over a lossy in-process network, one step in five issuing 2-3 operations concurrently; every node's documents are compared with the LWW model of the operations that were issued (an operation = a version first written by the node its stamp names), and the newest version of every id held anywhere must have been issued by its stamp's node.",
        note="RPC transport replaced by an in-process function call (hook H-rpc), membership injected (H-members), clocks follow paused tokio time plus skew (H-clock). Document fetches are never failed, only delayed/duplicated (the poller's std::time watchdog cannot be advanced by a paused-time simulation).", ref="3 C01"),
    "C06": dict(engine="E3-cluster", technique=PBT + " (consistency-level promise checked against per-node storage right after the call, generated non-acknowledging replicas)",
        text="100k (quick) / 3M (thorough) generated layouts x issuer x level x operation x replica behaviours on real nodes; the promise of the level is checked against storage immediately after the call returns, the error counts against the acknowledgements that came back, and later replication after healing (LWW convergence, no version that nobody issued); plus 40k / 1.5M histories in which earlier selections (filling the selector cache) are followed by a join and / or a leave and the operation is judged against the new membership 50 ms - 2.5 s later.",
        note="Same transport/membership/clock hooks as C01; storage failures are injected only outside repair cycles.", ref="3 C06"),
    "C13": dict(engine="E3-cluster", technique="exhaustive enumeration of add/remove sequences (bounded) + random longer sequences, model = set of registered names",
        text="All 46656 add/remove sequences of length 6 over three services (279936 of length 7 in the thorough tier), 20k random sequences up to length 12, and 20k random sequences over six services with 17 interleaving handler keys, each probed after every step with real clients against a real server state, plus 1600 cases of 10-30 rounds in which 2-3 OS threads add and remove services they own concurrently (sampled schedules), plus 60k sequences whose steps are followed by 0-3 generated probes instead of all pairs in a fixed order.",
        note="Server reached through the in-process transport (H-rpc): routing, handler lookup and status encoding are the real code, the socket layer is not exercised.", ref="3 C13"),
    "C16": dict(engine="E3-cluster", technique=PBT + " (model-based: per-delta exactness + sum of deltas vs final snapshot; known finding excluded by signature)",
        text="200k (quick) / 5M (thorough) generated snapshot sequences (joins, leaves, rejoins, address changes, addresses shared or handed over between ids), subscription moments and read patterns on one real node.",
        note="Snapshots are injected where chitchat would publish them (H-members). The recorded finding 'watch-latest-only' is excluded by its exact signature (every observed delta correct AND the subscriber missed a delta); any wrong delta is still a violation.", ref="3 C16"),
    "C19": dict(engine="E3-cluster", technique=PBT + " (differential: state received through the real service+client vs independently built reference set, probe grid of further operations)",
        text="60k (quick) / 3M (thorough) interleavings of writes and state requests on a store with write latency (a reply labelled with the final change stamp must carry the final state), plus 16 (quick) / 400 (thorough) states of 70 000 - 1 200 000 entries (1-20 MB on the wire), plus 6000 (quick) / 300k (thorough) sender states up to 20000 entries (live or tombstones) fetched with the real get_state path at the end and after generated build stages (ops, purges, bulk loads), compared on live ids, tombstones, stamps, will_apply probes and one further operation; 3000 reply frames with every bit flip / truncation refused.",
        note="The reference set is built by applying the same operations directly to an OrSWotSet of the harness (trusts the CRDT, which C03-C05 cover).", ref="3 C19"),
    "C11": dict(engine="E6-clock", technique=PBT + " (generated task scripts with barriers; schedule owned on a current-thread runtime, sampled on 4 workers)",
        text="60k generated multi-task scripts on a current-thread runtime where the interleaving is a function of the generated yields, plus 500 x 8 runs on a 4-worker runtime, plus 4000 crowds of 1050-2600 tasks (more callers than the clock's 1000-slot request queue); uniqueness, per-task monotonicity and register->get causality (program order and barrier chains) are checked on every run.",
        note="OS schedules on the multi-thread runtime are sampled, not enumerated. Remote counters near exhaustion are only generated on the paused runtime (the repaired clock waits for the wall clock).", ref="3 C11"),
    "C14": dict(engine="E4-turmoil", technique=PBT + " (generated fault scripts over seeded turmoil TCP + in-process reply-stall injection; per-request oracle on ids, digests, execution counts and elapsed simulated time)",
        text="20k (quick) / 600k (thorough) client scripts with partitions, holds, releases, repairs, slow handlers and concurrent requests over hyper/h2 on turmoil's simulated TCP, plus 20k scripts on the in-process transport where the fault sits between reply head and reply body; clients are built directly, cloned once or twice from a configured client or re-configured, and use send, send_owned or a context with headers.",
        note="turmoil 0.4.0 is used with one simulator fix (vendor/README.md). The turmoil client of the repository serialises requests per channel; faults act at segment granularity. Head/body stalls are only reachable through hook H-rpc.", ref="3 C14"),
    "C17": dict(engine="E5-storage", technique=PBT + " (model-based: every bundled backend vs a HashMap reference after every call, incl. close/reopen)",
        text="20k MemStore, 5k SQLite in-memory, 3k SQLite file and 5k LMDB call sequences per quick run (x30 thorough), every read call compared with the model, a full read-back (iter_metadata, get of every id, multi_get, keyspace list before / between / after the keyspace reads) after every call in two thirds of the cases and only after a generated subset of the calls in the others (so that reading cannot mask a state), and close/reopen at generated points.",
        note="Scratch databases live in /dev/shm (tmpfs): fsync durability against power loss is not examined, only close/reopen.", ref="3 C17"),
    "C02": dict(engine="E2-actor+E5-storage", technique=PBT + " (model-based: storage contents vs deserialised set after every request, injected storage faults)",
        text="Randomised request histories (300k quick / 10M thorough) against the real KeyspaceGroup actors on an inspectable fault-injecting store; set and store are compared after every request (in a third of the cases runs of 2-4 requests are issued together and judged when all are answered; in two cases out of five the store lands its writes 0-7 ms late, varying from call to call); plus 6k SQLite-file and 20k LMDB histories (x30 thorough) on the real backends without fault injection, compared after every request (metadata AND documents read back: a live id must be readable at its stamp, a tombstoned id must not; ids spread over the whole u64 range in half of the cases) and again after close / reopen / reload. Exploration: finds counterexamples, proves nothing.",
        note="Trusts ModelStore (harness Storage implementation that honours the BulkMutationError contract) and the view obtained through Serialize + diff-against-empty.", ref="3 C02"),
    "C03": dict(engine="E1-pure", technique=PBT + " (algebraic laws of merge on generated replica triples)",
        text="3M (quick) / 300M (thorough) generated replica triples satisfying the statement's precondition by construction; commutativity, associativity, idempotence, schedule independence and lookup agreement are checked on each.",
        note="Replicas are built from operations only (never purged): with purged tombstones the laws do not hold by design, which the statement does not claim (DESIGN.md 3 C03).", ref="3 C03"),
    "C04": dict(engine="E1-pure", technique=PBT + " + exhaustive small-scope enumeration against an LWW reference model",
        text="6M generated arrival orders (0-2 operations delivered twice) per quick run (600M thorough) plus exhaustive enumeration of all arrival sequences of <=3 ops in a small scope, each compared step by step with an independent last-writer-wins model.",
        note="Trusts the harness's LWW model and field-wise Stamp ordering; stamps are drawn >= 1 h after the datacake epoch and inside a 3000 s window (the property's precondition).", ref="3 C04"),
    "C05": dict(engine="E1-pure", technique=PBT + " (exactness oracle for diff + metamorphic 'apply the diff, nothing is left')",
        text="6M (quick) / 400M (thorough) generated replica pairs incl. purged ones and, one case in five, replicas with arbitrary gaps on an exact 1 h grid (stamps exactly on a cut-off); the diff is compared with an independently computed expectation and, inside the repair clause's precondition, applied the way the keyspace actor applies it.",
        note="The purge cut-off of a replica is observed through a will_apply probe on an unused key (the statement's 'purge cut-off for that origin').", ref="3 C05"),
    "C07": dict(engine="E2-actor+E3-cluster+E5-storage", technique=PBT + " (crash-point injection incl. inside a request, rebuilt state vs storage; node restart inside a running cluster; restarts on the real SQLite / LMDB backends)",
        text="100k (quick) / 5M (thorough) histories with a generated stop point between or inside requests (storage write done, set not updated), one or two restarts; the rebuilt set is compared with storage and with what was acknowledged. Plus 20k / 1M cluster histories in which one of 2-4 real nodes is stopped and restarted on its storage while the others keep working (rebuilt == storage, then LWW convergence), plus 6k SQLite-file and 20k LMDB histories of 1-3 node lives on the real backends (close, reopen, load_states_from_storage, rebuilt == iter_metadata, every rebuilt live id readable at its stamp and no tombstoned id readable, acknowledged entries survive as what they were - a live document does not come back as a tombstone of the same stamp; ids over the whole u64 range in half of the cases).",
        note="Process death is modelled by fencing the old storage handle (model store) or by dropping the runtime and every handle (real backends, stops between requests only); fsync durability of the bundled backends is outside (tmpfs). A tombstone the group's start-up purge may legitimately drop (older than the newest entry by the forgiveness period, gone from set and storage alike) is not counted as lost.", ref="3 C07"),
    "C08": dict(engine="E1-pure+E2-actor", technique=PBT + " (invariants around purge_old_deletes on generated hour-scale histories)",
        text="1M (quick) / 60M (thorough) single-replica histories spanning hours with purges at generated points (live set unchanged, only tombstones returned and removed, never a live id, stale operations from the deleting node refused ever after), plus 100k / 5M cluster timelines on real keyspace actors (timely deliveries by construction, direct and repair paths, clock skew) run twice, with and without purge calls: identical documents on every replica and equal to the LWW model; the store counts any attempt to purge a live id; in two timelines out of five the stores land their writes 0-7 ms late, varying from call to call.",
        note="Timeliness (delay + skew < forgiveness period) holds by construction of the timelines; the hourly purge task of a full node is not used, purge calls are generated instead.", ref="3 C08"),
    "C09": dict(engine="E1-pure", technique=PBT + " (stateful send/recv sequences with an injected wall clock, invariant after every call)",
        text="2M (quick) / 200M (thorough) sequences of up to 60 calls with stalls, backward jumps and drift-limit boundary values of the wall clock and of remote stamps.",
        note="Needs hook H-clock (injectable wall clock). The drift limit 4100 s is taken from the crate's documented constant.", ref="3 C09"),
    "C10": dict(engine="E1-pure", technique=PBT + " + exhaustive boundary grid (round-trips, order isomorphism, parser robustness) + coverage-guided libFuzzer campaign in the thorough tier",
        text="3M generated stamp pairs, the exhaustive 5600-value boundary grid (31M ordered pairs), a regression corpus and 4M generated strings per quick run (300M + 300M thorough).",
        note="from_u64 on words whose fractional byte is >= 250 is outside the claim.", ref="3 C10"),
    "C12": dict(engine="E1-pure+E4", technique=PBT + " (round-trip + exhaustive single-bit-flip / truncation / crafted-short-frame mutation of every generated frame; end-to-end scripts over simulated TCP; libFuzzer+ASan campaign in the thorough tier)",
        text="6000 generated messages per quick run (300k thorough), each expanded into all single-bit flips (frames <= 4 KiB), all truncations and crafted short frames with correct checksums (about 60M mutated frames per quick run), plus 300k (10M thorough) frames handed to RequestContents::from_body as hyper bodies of 1-12 chunks without an announced length (intact, bit-flipped, truncated, extended), plus 6000 end-to-end exchange scripts over hyper/h2 on simulated TCP (values up to 300 KB, handler errors, raw invalid frames in front of a typed handler).",
        note="Frame level (DataView::using); an independent CRC32 decides whether a damaged frame must be refused.", ref="3 C12"),
    "C15": dict(engine="E1-pure+E3-cluster", technique=PBT + " (validity predicate in both directions over selection histories on shared cursors)",
        text="1.5M (quick) / 150M (thorough) layouts x selection histories through the public NodeSelector trait, plus 60k / 3M histories on one real node where membership snapshots (joins, leaves, whole data centres leaving, same-count replacements and moves) alternate with DatacakeNode::select_nodes.",
        note="Needs hook H-rng for reproducible data-centre choice; the oracle holds for every RNG outcome.", ref="3 C15"),
    "C18": dict(engine="E2-actor+E3-cluster", technique=PBT + " (generated yield schedules on a current-thread runtime + sampled OS schedules on 4 workers; node restart under replication traffic with simulated storage latency)",
        text="200k generated schedules on a current-thread runtime (order fixed by generated yields; a quarter of the tasks is dropped at a generated suspension point) and 300 x 10 runs on a 4-worker runtime, plus 40k cases in which local first uses race the repair path's first sight of the same keyspace names, plus 60k cluster histories in which a node holding persisted keyspaces starts while its peers replicate to it at generated instants around the load of the persisted state (storage reads answer 0-9 simulated ms late); every entry the node's storage holds afterwards must be in the set a fresh lookup serialises, and a keyspace with an acknowledged mutation must be listed in the keyspace info peers poll.",
        note="Schedules are sampled, not enumerated; a race needing preemption inside a non-awaiting section would be missed.", ref="3 C18"),
}

NOT_YET = "check not built yet in this round (see DESIGN.md section 10 for the build order)"

def main():
    props = [json.loads(l)["id"] for l in open("/verif/properties.jsonl")]
    hooks = json.load(open("/verif/tools/hooks.json"))
    log = subprocess.run("git -C /repo log --format=%h::%s", shell=True, capture_output=True, text=True).stdout
    hooks["source_commits"] = [l.split("::")[0] for l in log.splitlines() if l.split("::")[1].startswith("verif hook")]
    checks = []
    for pid in props:
        if pid not in CHECKS:
            continue
        c = CHECKS[pid]
        checks.append({
            "property_id": pid,
            "quick_cmd": f"./check {pid} --tier quick",
            "thorough_cmd": f"./check {pid} --tier thorough",
            "evidence_file": f"/verif/evidence/{pid}.json",
            "replay_cmd_template": "./check --replay {path}",
            "engine": c["engine"],
            "level_claimed": {"category": "exploration", "text": c["text"], "design_ref": c["ref"]},
            "level_note": c["note"],
            "technique": c["technique"],
        })
    na = [{"property_id": p, "reason": NOT_YET} for p in props if p not in CHECKS]
    manifest = {
        "version": 1,
        "setup_cmd": "cd /verif/harness && CARGO_NET_OFFLINE=true cargo build --release --offline && cd /verif/harness-sim && CARGO_NET_OFFLINE=true cargo build --release --offline",
        "hooks": hooks,
        "engines": [
            {"name": "E1-pure", "path": "harness/src", "serves_properties": [p for p in props if CHECKS.get(p, {}).get("engine") == "E1-pure"], "kind_free_text": "direct synchronous calls into datacake-crdt / datacake-rpc / datacake-node types, cases decoded from proptest-generated choice sequences"},
            {"name": "E3-cluster", "path": "harness/src/e3.rs", "serves_properties": [p for p in props if CHECKS.get(p, {}).get("engine") == "E3-cluster"], "kind_free_text": "real DatacakeNode(s) + eventual-consistency extension / rpc Server inside one deterministic paused-time tokio runtime over the in-process transport hook"},
            {"name": "E4-turmoil", "path": "harness-sim/src", "serves_properties": ["C12", "C14"], "kind_free_text": "datacake-rpc with its `simulation` feature over hyper/h2 over seeded turmoil TCP (separate cargo workspace, patched simulator in vendor/)"},
            {"name": "E5-storage", "path": "harness/src/c17.rs", "serves_properties": ["C17"], "kind_free_text": "MemStore, SqliteStorage (memory + file) and LmdbStorage driven through the Storage trait on a real runtime, databases in /dev/shm"},
            {"name": "E6-clock", "path": "harness/src/c11.rs", "serves_properties": ["C11"], "kind_free_text": "datacake_node::Clock shared by generated task scripts on current-thread (paused) and 4-worker runtimes"},
            {"name": "E2-actor", "path": "harness/src/e2.rs", "serves_properties": [p for p in props if CHECKS.get(p, {}).get("engine") == "E2-actor"], "kind_free_text": "real KeyspaceGroup/KeyspaceActor/Clock on a paused-time current-thread tokio runtime over an inspectable fault-injecting Storage"},
        ],
        "checks": checks,
        "notes": "All checks: exit 0 held / exit 1 + VIOLATION line / exit 2 inconclusive (build failure or watchdog). Seeds: VERIF_SEED (0 remapped). known_findings.json lists recorded and fixed defects.",
        "not_applicable": na,
    }
    json.dump(manifest, open("/verif/MANIFEST.json", "w"), indent=1)
    print("wrote MANIFEST.json with", len(checks), "checks;", len(na), "not claimed")

main()
