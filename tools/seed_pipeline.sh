#!/bin/sh
# usage: tools/seed_pipeline.sh <round> <prop id> <name under seeded/> "<demo command>" "<tests command>[;;<tests command>...]" <check ids...>
# verify (both directions + existing tests) -> import into /verif/seeded/<name> -> run the named checks on a patched copy.
# Safe to run several at once. Output: /tmp/r<round>/<name>.txt
R="$1"; ID="$2"; N="$3"; DEMO="$4"; TESTS="$5"; shift 5
W=/tmp/wt$R-$ID; OUT=/tmp/r$R/$N.txt; mkdir -p /tmp/r$R
{
  IFS_OLD="$IFS"
  set -f
  # split tests on ';;'
  echo "$TESTS" | sed 's/;;/\n/g' > /tmp/r$R/$N.tests
  set --  "$@"
  ARGS=""
  V=$(python3 - "$W" "$DEMO" /tmp/r$R/$N.tests <<'PY'
import subprocess,sys
w,demo,tf=sys.argv[1:4]
tests=[l.strip() for l in open(tf) if l.strip()]
r=subprocess.run(["/verif/tools/verify_seed.sh",w,demo]+tests,capture_output=True,text=True)
print(r.stdout+r.stderr)
PY
)
  echo "$V"
  if echo "$V" | grep -q "NOT-CONFIRMED"; then echo "PIPELINE: demo not confirmed, stopping"; exit 1; fi
  if echo "$V" | grep "existing tests" | grep -qv "rc=0"; then echo "PIPELINE: existing tests fail with the patch, stopping"; exit 1; fi
  /verif/tools/import_seed.sh "$W" "$N" "$R" "demo fails with / passes without the change; existing tests of the touched crates pass with only patch.diff applied" | tail -1
  /verif/tools/patched_run.sh /verif/seeded/$N/patch.diff "$@"
} > "$OUT" 2>&1
