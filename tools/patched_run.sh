#!/bin/sh
# usage: tools/patched_run.sh <patch file> <check id> [more ids]      (env PR_TIER=quick|thorough, PR_KEEP=1)
# Runs checks against a PATCHED COPY of /repo without touching /repo or /verif: a scratch worktree of /repo's HEAD with
# the patch applied plus a scratch copy of /verif (incl. build output, so only the datacake crates and the harness are
# rebuilt) whose path dependencies point at that worktree. Several of these can run side by side. Everything is
# removed afterwards. Prints one "== <id> rc=<n>: <first lines>" per check.
set -u
PATCH="$(readlink -f "$1")"; shift
SRC="$(cd "$(dirname "$0")/.." && pwd)"   # /verif, or a snapshot of it (vp run)
W=$(mktemp -d /tmp/pr.XXXXXX)
if [ -z "${PR_KEEP:-}" ]; then
    trap 'git -C /repo worktree remove --force "$W/repo" >/dev/null 2>&1; rm -rf "$W"; git -C /repo worktree prune' EXIT INT TERM
else
    echo "keeping $W (remove with: git -C /repo worktree remove --force $W/repo; rm -rf $W)"
fi
git -C /repo worktree add --detach "$W/repo" HEAD >/dev/null 2>&1 || { echo "cannot create worktree"; exit 2; }
git -C "$W/repo" apply "$PATCH" || { echo "patch does not apply"; exit 2; }
mkdir -p "$W/verif"
rsync -a --exclude 'incremental' --exclude replays --exclude 'fuzz/target' --exclude 'fuzz/corpus*' --exclude .git --exclude seeded --exclude benign "$SRC/" "$W/verif/"
for f in "$W/verif/harness/Cargo.toml" "$W/verif/harness-sim/Cargo.toml" "$W/verif/fuzz/Cargo.toml"; do
    sed -i "s#path = \"/repo/#path = \"$W/repo/#g" "$f"
done
for id in "$@"; do
    "$W/verif/check" "$id" --tier "${PR_TIER:-quick}" > "$W/out-$id.txt" 2>&1; rc=$?
    echo "== $id rc=$rc: $(grep -E '^--- |^VIOLATION|INCONCLUSIVE|^KNOWN-FINDING' "$W/out-$id.txt" | head -4 | cut -c1-400 | tr '\n' ' ')"
    if [ -n "${PR_OUT:-}" ]; then mkdir -p "$PR_OUT"; cp "$W/out-$id.txt" "$PR_OUT/"; cp "$W"/verif/replays/* "$PR_OUT/" 2>/dev/null; fi
done
