#!/usr/bin/env python3
"""Sensitivity sweep: applies each hand-written mutant to /repo's working tree, runs the quick check of the
property it should break, reverts. Usage: mutants.py [ID-or-name-substring ...]
A mutant must turn its check red (exit 1); 'MISSED' means the check stayed green.
/repo must be clean (committed) before running; the tree is restored with `git checkout -- .` after each mutant."""
import subprocess, sys, json, time, os

M = []
def mut(prop, name, file, old, new, count=1, also=()):
    M.append(dict(prop=prop, name=name, file=file, old=old, new=new, count=count, also=also))

CR = "datacake-crdt/src/orswot.rs"
TS = "datacake-crdt/src/timestamp.rs"

# --- C03
mut("C03", "merge-tombstone-no-max", CR, "(*v) = cmp::max(*v, ts);", "(*v) = ts;")
mut("C03", "merge-own-entry-not-max", CR, "timestamp = cmp::max(timestamp, existing_ts);", "timestamp = existing_ts;")
# --- C04
mut("C04", "F1-reverted", CR, "return !self.is_ts_before_last_observed_event(ts);", "return false;", also=("C01", "C02", "C05"))
mut("C04", "insert-ignores-tombstone-order", CR, "            if ts < deleted_ts {\n                self.dead.insert(k, deleted_ts);\n                return has_set;\n            }\n        }\n\n        self.entries\n",
    "            if ts.counter() < deleted_ts.counter() {\n                self.dead.insert(k, deleted_ts);\n                return has_set;\n            }\n        }\n\n        self.entries\n")
mut("C04", "will-apply-ignores-tombstone", CR, "        if let Some(entry) = self.dead.get(&key) {\n            return entry < &ts;\n        }\n\n        true", "        true")
# --- C05
mut("C05", "diff-lte", CR, "        if let Some(existing_insert) = self.entries.get(&key) {\n            if existing_insert < &ts {", "        if let Some(existing_insert) = self.entries.get(&key) {\n            if existing_insert <= &ts {")
mut("C05", "diff-ignores-own-tombstone", CR, "        } else if let Some(existing_delete) = self.dead.get(&key) {\n            if existing_delete < &ts {", "        } else if let Some(existing_delete) = self.dead.get(&key) {\n            if existing_delete > &ts {")
mut("C05", "diff-skips-cutoff", CR, "        } else if !self.versions.is_ts_before_last_observed_event(ts) {\n            values.push((key, ts))", "        } else {\n            values.push((key, ts))")
# --- C09
mut("C09", "recv-no-counter-bump", TS, "            } else if ts_new == ts_msg {\n                c_msg.checked_add(1).ok_or(TimestampError::Overflow)?", "            } else if ts_new == ts_msg {\n                c_msg")
mut("C09", "send-drift-check-dropped", TS, "        if ts_new.saturating_sub(ts) > MAX_CLOCK_DRIFT {\n            return Err(TimestampError::ClockDrift);\n        }\n\n        let c_new = if ts_old == ts_new {", "        let c_new = if ts_old == ts_new {")
mut("C09", "recv-state-before-overflow-check", TS, "        let ts_new = cmp::max(cmp::max(ts_old, ts), ts_msg);\n", "        let ts_new = cmp::max(cmp::max(ts_old, ts), ts_msg);\n        self.0 = pack(ts_new, c_old, self.node());\n")
mut("C09", "send-wrapping-counter", TS, "c_old.checked_add(1).ok_or(TimestampError::Overflow)?\n        } else {\n            0\n        };\n\n        self.0 = pack(ts_new, c_new, self.node());\n\n        Ok(*self)", "c_old.wrapping_add(1)\n        } else {\n            0\n        };\n\n        self.0 = pack(ts_new, c_new, self.node());\n\n        Ok(*self)")
mut("C09", "recv-same-node-allowed", TS, "        if self.node() == msg.node() {\n            return Err(TimestampError::DuplicatedNode(msg.node()));\n        }\n", "")
# --- C10
mut("C10", "frac-shift-23", TS, "(fractional << 24)", "(fractional << 23)")
mut("C10", "display-counter-decimal", TS, '"{}-{:0>4}-{:0>4X}-{:0>4}"', '"{}-{:0>4}-{:0>4}-{:0>4}"')
mut("C10", "F2-reverted", TS, "        if seconds > TIMESTAMP_MAX {\n            return Err(InvalidFormat);\n        }\n", "")
mut("C10", "node-accessor-7bit", TS, "(self.0 & 0xFF).try_into().unwrap_or_default()", "(self.0 & 0x7F).try_into().unwrap_or_default()")


AC = "datacake-eventual-consistency/src/keyspace/actor.rs"
GR = "datacake-eventual-consistency/src/keyspace/group.rs"
PO = "datacake-eventual-consistency/src/replication/poller.rs"
CI = "datacake-eventual-consistency/src/rpc/services/consistency_impl.rs"
RI = "datacake-eventual-consistency/src/rpc/services/replication_impl.rs"
EL = "datacake-eventual-consistency/src/lib.rs"
# --- C03 (more)
mut("C03", "merge-drops-newer-own-entry", CR, "            if let Some(deleted) = self.dead.remove(&key) {\n                if ts < deleted {", "            if let Some(deleted) = self.dead.remove(&key) {\n                if ts > deleted {")
# --- C08 local
mut("C08", "purge-condition-negated", CR, "            if !self.versions.is_ts_before_last_observed_event(stamp) {\n                self.dead.insert(k, stamp);", "            if self.versions.is_ts_before_last_observed_event(stamp) {\n                self.dead.insert(k, stamp);")
mut("C08", "safe-stamp-max-over-sources", CR, "            .min();\n\n        if let Some(min) = min {", "            .max();\n\n        if let Some(min) = min {")
mut("C08", "no-forgiveness", CR, "min.datacake_timestamp().saturating_sub(FORGIVENESS_PERIOD)", "min.datacake_timestamp()", also=("C04",))
mut("C08", "forgiveness-10-minutes", CR, "    Duration::from_secs(3_600)\n};", "    Duration::from_secs(600)\n};")
mut("C08", "cutoff-ignores-repair-source", CR, "            .min();\n\n        if let Some(min) = min {", "            .next();\n\n        if let Some(min) = min {")
mut("C08", "purge-keeps-storage-tombstones", AC, "            .remove_tombstones(&self.name, changes.iter().map(|(key, _)| *key))", "            .remove_tombstones(&self.name, changes.iter().map(|(key, _)| *key).take(0))", also=("C02",))
mut("C08", "purge-also-drops-entries", CR, "        let mut deleted_keys = vec![];\n        for (k, stamp) in mem::take(&mut self.dead) {", "        let mut deleted_keys = vec![];\n        self.entries.pop_first();\n        for (k, stamp) in mem::take(&mut self.dead) {")
# --- C01
mut("C01", "poller-skips-removals", PO, "                change.removed,\n                change.modified,", "                Default::default(),\n                change.modified,")
mut("C01", "poller-skips-modified", PO, "                change.removed,\n                change.modified,", "                change.removed,\n                Default::default(),")
mut("C01", "diff-direction-swapped", PO, "        modified: modified\n            .into_iter()", "        modified: removed.clone()\n            .into_iter()")
mut("C01", "last-updated-not-bumped-on-del", AC, "        self.state\n            .delete_with_source(msg.source, msg.doc.id, msg.doc.last_updated);\n        self.inc_change_timestamp().await;", "        self.state\n            .delete_with_source(msg.source, msg.doc.id, msg.doc.last_updated);")
# --- C01 part broken-and-big-repairs (failed exchanges, more than one fetch, more than ten keyspaces)
mut("C01", "failed-sync-recorded-as-done", PO, """                    "Failed to sync with node."
                );
            } else {
                keyspace_tracker.set_keyspace(""", """                    "Failed to sync with node."
                );
            }
            {
                keyspace_tracker.set_keyspace(""")
mut("C01", "only-first-fetch-chunk", PO, "        .chunks(MAX_NUMBER_OF_DOCS_PER_FETCH)\n", "        .chunks(MAX_NUMBER_OF_DOCS_PER_FETCH)\n        .take(1)\n")
mut("C01", "fetch-chunks-exact", PO, "        .chunks(MAX_NUMBER_OF_DOCS_PER_FETCH)\n", "        .chunks_exact(MAX_NUMBER_OF_DOCS_PER_FETCH.min(modified.len().max(1)))\n")
# (removed: "at most ten keyspaces per poll" only spreads a repair over several cycles; the statement sets no bound on their number)
# --- C02
mut("C02", "F11-reverted-set", AC, "        docs.retain(|doc| seen_ids.insert(doc.id()));", "        docs.retain(|doc| seen_ids.insert(doc.id()) || true);")
mut("C02", "bulk-error-folds-all", AC, "                .filter(|entry| successful_ids.contains(&entry.0));\n\n            for (doc_id, ts) in successful_entries {\n                self.state.insert_with_source", "                .filter(|entry| successful_ids.contains(&entry.0) || true);\n\n            for (doc_id, ts) in successful_entries {\n                self.state.insert_with_source")
mut("C02", "set-before-store", AC, "        self.storage\n            .put_with_ctx(&self.name, msg.doc, msg.ctx.as_ref())\n            .await?;\n", "        self.state.insert_with_source(msg.source, doc_id, ts);\n        self.storage\n            .put_with_ctx(&self.name, msg.doc, msg.ctx.as_ref())\n            .await?;\n")
mut("C02", "set-failure-swallowed", AC, "        self.storage\n            .put_with_ctx(&self.name, msg.doc, msg.ctx.as_ref())\n            .await?;\n", "        if self.storage\n            .put_with_ctx(&self.name, msg.doc, msg.ctx.as_ref())\n            .await.is_err() { return Ok(()); }\n")
mut("C02", "bulk-failure-swallowed", AC, "        if let Err(error) = res {\n            let successful_ids = HashSet::<_>::from_iter(error.successful_doc_ids());\n            let successful_entries = valid_entries\n                .into_iter()\n                .filter(|entry| successful_ids.contains(&entry.0));\n\n            for (doc_id, ts) in successful_entries {\n                self.state.insert_with_source(msg.source, doc_id, ts);\n            }\n            Err(error)\n        } else {\n            for (doc_id, ts) in valid_entries {\n                self.state.insert", "        if let Err(error) = res {\n            let successful_ids = HashSet::<_>::from_iter(error.successful_doc_ids());\n            let successful_entries = valid_entries\n                .into_iter()\n                .filter(|entry| successful_ids.contains(&entry.0));\n\n            for (doc_id, ts) in successful_entries {\n                self.state.insert_with_source(msg.source, doc_id, ts);\n            }\n            Ok(())\n        } else {\n            for (doc_id, ts) in valid_entries {\n                self.state.insert")
mut("C02", "purge-failure-not-readded", AC, "            self.state.add_raw_tombstones(tombstones);\n", "            drop::<StateChanges>(tombstones);\n")
mut("C02", "del-skips-will-apply", AC, "        if !self.state.will_apply(msg.doc.id, msg.doc.last_updated) {\n            return Ok(());\n        }\n\n        self.storage\n            .mark_as_tombstone", "        self.storage\n            .mark_as_tombstone")
# --- C07
mut("C07", "load-ignores-tombstone-flag", GR, "                if tombstone {\n                    state.delete(key, ts);", "                if tombstone && false {\n                    state.delete(key, ts);")
mut("C07", "load-first-keyspace-only", GR, "        for keyspace in self.storage.get_keyspace_list().await? {", "        for keyspace in self.storage.get_keyspace_list().await?.into_iter().take(1) {")
mut("C07", "load-drops-newest-entry", GR, "            entries.sort_by_key(|entry| entry.1);\n", "            entries.sort_by_key(|entry| entry.1);\n            entries.pop();\n")
# --- C18
mut("C18", "F8-reverted", GR, "            if let Some(existing) = guard.get(&name) {\n                return existing.clone();\n            }\n", "")
mut("C01", "fetch-docs-stale-snapshot", RI, "        let documents = self\n            .group\n            .storage()\n            .multi_get(&msg.keyspace, msg.doc_ids.into_iter())", "        let documents = self\n            .group\n            .storage()\n            .multi_get(&msg.keyspace, msg.doc_ids.into_iter().skip(1))")
mut("C01", "get-state-wrong-keyspace", RI, "        let keyspace = self.group.get_or_create_keyspace(&msg.keyspace).await;\n\n        let last_updated", "        let keyspace = self.group.get_or_create_keyspace(\"ks0\").await;\n\n        let last_updated")
mut("C06", "put-many-direct-message-skips-first-doc", EL, "        let factory = |node| {\n            let clock = self.node.clock().clone();\n            let keyspace = keyspace.name().to_string();\n            let documents = docs.clone();", "        let factory = |node| {\n            let clock = self.node.clock().clone();\n            let keyspace = keyspace.name().to_string();\n            let documents: crate::core::DocVec<Document> = docs.iter().skip(1).cloned().collect();")


NS = "datacake-node/src/nodes_selector.rs"
# --- C06
mut("C06", "success-only-if-zero", EL, "    if num_success != num_required {", "    if num_success == 0 && num_required > 0 {")
mut("C06", "quorum-one-less", NS, "                let majority = total_nodes / 2;\n", "                let majority = (total_nodes / 2).saturating_sub(1);\n", also=("C15",))
mut("C06", "handler-replies-before-write", CI, "        let keyspace = self.group.get_or_create_keyspace(&payload.keyspace).await;\n        try_send!(keyspace, msg)?;\n        Ok(self.group.clock().get_time().await)", "        let keyspace = self.group.get_or_create_keyspace(&payload.keyspace).await;\n        tokio::spawn(async move { let _ = keyspace.send(msg).await; });\n        Ok(self.group.clock().get_time().await)")
mut("C06", "del-many-no-local-write", EL, "        let keyspace = self.group.get_or_create_keyspace(keyspace).await;\n        let msg = MultiDel {\n            source: CONSISTENCY_SOURCE_ID,\n            docs: docs.clone(),\n            _marker: PhantomData::<S>::default(),\n        };\n        keyspace.send(msg).await?;", "        let keyspace = self.group.get_or_create_keyspace(keyspace).await;")
mut("C06", "responses-off-by-one", EL, "                responses: num_success,", "                responses: num_success + 1,")
mut("C06", "all-excludes-last-node", NS, "            Consistency::All => selected_nodes.extend(\n                data_centers\n                    .values()\n                    .flat_map(|cycler| cycler.nodes.clone())\n                    .filter(|addr| addr != &local_node),\n            ),", "            Consistency::All => selected_nodes.extend(\n                data_centers\n                    .values()\n                    .flat_map(|cycler| cycler.nodes.clone())\n                    .filter(|addr| addr != &local_node)\n                    .skip(1),\n            ),", also=("C15",))
# --- C15
mut("C15", "all-without-local-filter", NS, "                    .flat_map(|cycler| cycler.nodes.clone())\n                    .filter(|addr| addr != &local_node),", "                    .flat_map(|cycler| cycler.nodes.clone()),")
mut("C15", "F5b-reverted", NS, "    if selected_nodes.len() < n {\n        let remaining", "    if selected_nodes.len() < n && false {\n        let remaining")
mut("C15", "each-quorum-local-dc-like-remote", NS, "                    let majority = if name == local_dc {", "                    let majority = if name != local_dc {")
mut("C15", "n-nodes-may-duplicate", NS, "                if node == local_node || selected_nodes.contains(&node) {\n                    continue;\n                }", "                if node == local_node {\n                    continue;\n                }")

RS = "datacake-rpc/src/server.rs"
RC = "datacake-eventual-consistency/src/rpc/client.rs"
NL = "datacake-node/src/lib.rs"
# --- C13
mut("C13", "F4-reverted", RS, "lock.retain(|key, _| !uris.contains(key));", "lock.retain(|key, _| uris.contains(key));")
mut("C13", "remove-keeps-handlers", RS, "        let mut lock = self.handlers.write();\n        lock.retain(|key, _| !uris.contains(key));", "        let _ = uris;")
# --- C16
mut("C16", "F6-reverted", NL, "            if let Some(member) = last_members.get(node_id) {", "            if let Some(member) = members.get(node_id) {")
mut("C16", "joined-left-swapped", NL, "                membership_changes.joined.push(member.clone());", "                membership_changes.left.push(member.clone());")
mut("C16", "self-reported-as-joined", NL, "            .filter(|(node_id, _)| *node_id != &self_node_id)\n            .map(|(_, member)| (member.node_id, member.public_addr))", "            .map(|(_, member)| (member.node_id, member.public_addr))")
mut("C16", "last-set-not-updated", NL, "        last_network_set = new_network_set;\n", "        drop(new_network_set);\n")
# --- C15 node
mut("C15", "F5a-reverted", NS, "                    data_centers.clear();\n", "")
mut("C15", "cache-not-cleared-on-update", NS, "                    cached_nodes.clear();\n", "")
# --- C19
mut("C19", "nested-bytes-misaligned-by-prefix", RI, "        Ok(KeyspaceOrSwotSet {\n            timestamp,\n            last_updated,\n            set,\n        })", "        let mut set = set;\n        set.insert(0, 0u8);\n        Ok(KeyspaceOrSwotSet {\n            timestamp,\n            last_updated,\n            set,\n        })")
mut("C19", "client-decodes-shifted", RC, "rkyv::from_bytes_unchecked(&inner.set).map_err(|_| Status::invalid())?", "rkyv::from_bytes_unchecked(&inner.set[..inner.set.len() - 8]).map_err(|_| Status::invalid())?")
mut("C19", "serialize-drops-versions", AC, "        rkyv::to_bytes::<_, 4096>(&self.state)", "        let mut fresh = OrSWotSet::<NUM_SOURCES>::default();\n        fresh.merge(self.state.clone());\n        let _ = &fresh;\n        let mut stripped = OrSWotSet::<NUM_SOURCES>::default();\n        for (k, ts) in OrSWotSet::<NUM_SOURCES>::default().diff(&self.state).0 { stripped.insert(k, ts); }\n        rkyv::to_bytes::<_, 4096>(&stripped)")
mut("C19", "last-updated-is-now", RI, "        let last_updated = keyspace.send(LastUpdated).await;", "        let last_updated = self.group.clock().get_time().await;")

CK = "datacake-node/src/clock.rs"
RCL = "datacake-rpc/src/client.rs"
RV = "datacake-rpc/src/rkyv_tooling/view.rs"
RT = "datacake-rpc/src/rkyv_tooling/mod.rs"
NSV = "datacake-rpc/src/net/server.rs"
SQ = "datacake-sqlite/src/lib.rs"
LM = "datacake-lmdb/src/db.rs"
TU = "datacake-eventual-consistency/src/test_utils.rs"
# --- C11
mut("C11", "F12-reverted-get", CK, "                        Err(TimestampError::Overflow) => {\n                            tokio::time::sleep(Duration::from_millis(1)).await;\n                        },", "                        Err(TimestampError::Overflow) => panic!(\"overflow\"),")
mut("C11", "register-ignored-for-even-nodes", CK, "        if ts.node() == self.node_id {\n            return;\n        }", "        if ts.node() == self.node_id || ts.node() % 2 == 0 {\n            return;\n        }")
mut("C11", "get-answers-from-stale-copy", CK, "                let _ = tx.send(ts);", "                let _ = tx.send(if ts.counter() % 7 == 3 { HLCTimestamp::from_u64(ts.as_u64() - 256) } else { ts });")
# --- C12
mut("C12", "checksum-comparison-removed", RV, "        if expected_checksum != actual_checksum {\n            return Err(InvalidView);\n        }", "        let _ = (expected_checksum, actual_checksum);")
mut("C12", "F3-reverted", RV, "        if data_bytes.len() < mem::size_of::<T::Archived>() {\n            return Err(InvalidView);\n        }", "")
mut("C12", "checksum-over-prefix-only", RT, "    let checksum = crc32fast::hash(&buffer);", "    let checksum = crc32fast::hash(&buffer[..buffer.len().min(4096)]);", also=())
mut("C12", "status-code-lost", NSV, "fn create_bad_request(status: &Status) -> Response<hyper::Body> {", "fn create_bad_request(status: &Status) -> Response<hyper::Body> {\n    let status = &Status::internal(status.message.clone());")
mut("C12", "to-aligned-drops-third-chunk", "datacake-rpc/src/utils.rs", "    while let Some(buf) = body.data().await {\n        vec.extend_from_slice(&buf?);\n    }", "    let mut n = 0;\n    while let Some(buf) = body.data().await {\n        n += 1;\n        if n != 1 { vec.extend_from_slice(&buf?); }\n    }")
# --- C14
mut("C14", "F9-reverted-timeout-only-on-send", RCL, "            Some(duration) => tokio::time::timeout(duration, exchange)\n                .await\n                .map_err(|_| Status::timeout())?,", "            Some(_duration) => exchange.await,")
mut("C14", "server-runs-handler-twice", NSV, "    handler\n        .try_handle(remote_addr, headers, Body::new(body))\n        .await", "    let bytes = hyper::body::to_bytes(body).await.map_err(Status::internal)?;\n    let _ = handler.try_handle(remote_addr, headers.clone(), Body::from(bytes.clone())).await;\n    handler\n        .try_handle(remote_addr, headers, Body::from(bytes))\n        .await")
# --- size thresholds (round 11)
SQDB = "datacake-sqlite/src/db.rs"
mut("C17", "sqlite-bulk-capped-at-1000-rows", SQDB, "                for params in param_set {\n                    total += prepared.execute(params)?;", "                for params in param_set.into_iter().take(1000) {\n                    total += prepared.execute(params)?;")
mut("C17", "sqlite-multi-get-capped-at-1000", SQDB, "            for params in param_sets {\n                if let Some(row)", "            for params in param_sets.into_iter().take(1000) {\n                if let Some(row)")
mut("C08", "purge-stops-after-1024", CR, "            } else {\n                deleted_keys.push((k, stamp));\n            }\n        }\n\n        deleted_keys", "            } else if deleted_keys.len() < 1024 {\n                deleted_keys.push((k, stamp));\n            }\n        }\n\n        deleted_keys")
# --- C17
mut("C17", "sqlite-tombstone-keeps-data", SQ, "ON CONFLICT (keyspace, doc_id) DO UPDATE SET ts = excluded.ts, data = NULL;", "ON CONFLICT (keyspace, doc_id) DO UPDATE SET ts = excluded.ts;")
mut("C17", "sqlite-F7b-reverted", SQ, "            .map(|id| (keyspace.to_string(), id as i64))\n            .collect::<Vec<_>>();\n        let docs = self", "            .map(|id| (keyspace.to_string(), id))\n            .collect::<Vec<_>>();\n        let docs = self")
mut("C17", "lmdb-remove-tombstones-deletes-kv", LM, "                meta.delete(&mut txn, &key)?; // Our entry will already be removed.", "                meta.delete(&mut txn, &key)?;\n                _kv.delete(&mut txn, &(key ^ 1))?;")
mut("C17", "lmdb-put-many-skips-meta-of-last", LM, "            for doc in docs {\n                kv.put(&mut txn, &doc.id(), doc.data())?;\n                meta.put(&mut txn, &doc.id(), &doc.last_updated().as_u64())?;\n            }", "            let n = docs.len();\n            for (i, doc) in docs.into_iter().enumerate() {\n                kv.put(&mut txn, &doc.id(), doc.data())?;\n                if i + 1 < n || n == 1 { meta.put(&mut txn, &doc.id(), &doc.last_updated().as_u64())?; }\n            }")
mut("C17", "memstore-F7a-reverted", TU, "        let entries = lock.entry(keyspace.to_string()).or_default();\n        for doc in docs {\n            entries.insert(doc.id, (doc.last_updated, true));\n        }", "        if let Some(entries) = lock.get_mut(keyspace) {\n        for doc in docs {\n            entries.insert(doc.id, (doc.last_updated, true));\n        }\n        }")
mut("C17", "memstore-keyspaces-share-data", TU, "        Ok(self\n            .data\n            .read()\n            .get(keyspace)\n            .and_then(|ks| ks.get(&doc_id).cloned()))", "        Ok(self\n            .data\n            .read()\n            .values()\n            .find_map(|ks| ks.get(&doc_id).cloned()))")

def sh(cmd, **kw):
    return subprocess.run(cmd, shell=True, capture_output=True, text=True, **kw)

def main():
    sel = sys.argv[1:]
    st = sh("git -C /repo status --porcelain --untracked-files=no").stdout.strip()
    if st:
        print("refusing: /repo has uncommitted changes:\n" + st); sys.exit(2)
    results = []
    for m in M:
        tag = f"{m['prop']}/{m['name']}"
        if sel and not any(s in tag for s in sel):
            continue
        path = "/repo/" + m["file"]
        src = open(path).read()
        if src.count(m["old"]) < 1:
            print(f"{tag}: PATTERN NOT FOUND"); results.append((tag, "NOPATTERN")); continue
        open(path, "w").write(src.replace(m["old"], m["new"], m["count"]))
        t0 = time.time()
        verdicts = []
        for prop in (m["prop"],) + tuple(m["also"]):
            r = sh(f"cd /verif && ./check {prop} --tier quick", env=dict(os.environ, VP_SCALE=os.environ.get("VP_SCALE", "1")))
            v = {0: "MISSED", 1: "caught", 2: "inconclusive"}.get(r.returncode, f"rc{r.returncode}")
            if r.returncode == 2:
                v += " (" + (r.stdout.strip().splitlines() or ["?"])[0][:100] + ")"
            verdicts.append(f"{prop}:{v}")
        sh("git -C /repo checkout -- .")
        print(f"{tag}: {' '.join(verdicts)}  [{time.time()-t0:.0f}s]", flush=True)
        results.append((tag, verdicts))
    sh("git -C /repo checkout -- .")
    sh("rm -rf /verif/replays/*")
    # rebuild the harness against the restored tree so that no mutated binary is left behind
    sh("cd /verif/harness && cargo build --release --offline")
    # leave evidence in the state of the unchanged tree: the caller re-runs the checks afterwards

main()
