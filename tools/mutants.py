#!/usr/bin/env python3
"""Sensitivity sweep: applies each hand-written mutant to /repo's working tree, runs the quick check of the
property it should break, reverts. Usage: mutants.py [ID-or-name-substring ...]
A mutant must turn its check red (exit 1); 'MISSED' means the check stayed green.
/repo must be clean (committed) before running; the tree is restored with `git checkout -- .` after each mutant."""
import subprocess, sys, json, time, os

M = []
def mut(prop, name, file, old, new, count=1, also=()):
    M.append(dict(prop=prop, name=name, file=file, old=old, new=new, count=count, also=also))

CR = "datacake-crdt/src/orswot.rs"
TS = "datacake-crdt/src/timestamp.rs"

# --- C03
mut("C03", "versions-merge-min", CR,
    "                        if &ts < entry.get() {\n                            continue;\n                        }\n",
    "                        if &ts > entry.get() {\n                            continue;\n                        }\n")
mut("C03", "merge-tombstone-no-max", CR, "(*v) = cmp::max(*v, ts);", "(*v) = ts;")
mut("C03", "merge-own-entry-not-max", CR, "timestamp = cmp::max(timestamp, existing_ts);", "timestamp = existing_ts;")
mut("C03", "merge-unsorted-log", CR, "entries_log.sort_by_key(|v| v.1);", "entries_log.sort_by_key(|v| v.0);")
# --- C04
mut("C04", "F1-reverted", CR, "return !self.is_ts_before_last_observed_event(ts);", "return false;")
mut("C04", "delete-wins-tie", CR, "if ts <= existing_ts {", "if ts < existing_ts {")
mut("C04", "insert-ignores-tombstone-order", CR, "            if ts < deleted_ts {\n                self.dead.insert(k, deleted_ts);\n                return has_set;\n            }\n        }\n\n        self.entries\n",
    "            if ts.counter() < deleted_ts.counter() {\n                self.dead.insert(k, deleted_ts);\n                return has_set;\n            }\n        }\n\n        self.entries\n")
mut("C04", "will-apply-ignores-tombstone", CR, "        if let Some(entry) = self.dead.get(&key) {\n            return entry < &ts;\n        }\n\n        true", "        true")
# --- C05
mut("C05", "diff-lte", CR, "        if let Some(existing_insert) = self.entries.get(&key) {\n            if existing_insert < &ts {", "        if let Some(existing_insert) = self.entries.get(&key) {\n            if existing_insert <= &ts {")
mut("C05", "diff-ignores-own-tombstone", CR, "        } else if let Some(existing_delete) = self.dead.get(&key) {\n            if existing_delete < &ts {", "        } else if let Some(existing_delete) = self.dead.get(&key) {\n            if existing_delete > &ts {")
mut("C05", "diff-skips-cutoff", CR, "        } else if !self.versions.is_ts_before_last_observed_event(ts) {\n            values.push((key, ts))", "        } else {\n            values.push((key, ts))")
# --- C09
mut("C09", "recv-no-counter-bump", TS, "            } else if ts_new == ts_msg {\n                c_msg.checked_add(1).ok_or(TimestampError::Overflow)?", "            } else if ts_new == ts_msg {\n                c_msg")
mut("C09", "send-drift-check-dropped", TS, "        if ts_new.saturating_sub(ts) > MAX_CLOCK_DRIFT {\n            return Err(TimestampError::ClockDrift);\n        }\n\n        let c_new = if ts_old == ts_new {", "        let c_new = if ts_old == ts_new {")
mut("C09", "recv-state-before-overflow-check", TS, "        let ts_new = cmp::max(cmp::max(ts_old, ts), ts_msg);\n", "        let ts_new = cmp::max(cmp::max(ts_old, ts), ts_msg);\n        self.0 = pack(ts_new, c_old, self.node());\n")
mut("C09", "send-wrapping-counter", TS, "c_old.checked_add(1).ok_or(TimestampError::Overflow)?\n        } else {\n            0\n        };\n\n        self.0 = pack(ts_new, c_new, self.node());\n\n        Ok(*self)", "c_old.wrapping_add(1)\n        } else {\n            0\n        };\n\n        self.0 = pack(ts_new, c_new, self.node());\n\n        Ok(*self)")
mut("C09", "recv-same-node-allowed", TS, "        if self.node() == msg.node() {\n            return Err(TimestampError::DuplicatedNode(msg.node()));\n        }\n", "")
# --- C10
mut("C10", "frac-shift-23", TS, "(fractional << 24)", "(fractional << 23)")
mut("C10", "display-counter-decimal", TS, '"{}-{:0>4}-{:0>4X}-{:0>4}"', '"{}-{:0>4}-{:0>4}-{:0>4}"')
mut("C10", "F2-reverted", TS, "        if seconds > TIMESTAMP_MAX {\n            return Err(InvalidFormat);\n        }\n", "")
mut("C10", "node-accessor-7bit", TS, "(self.0 & 0xFF).try_into().unwrap_or_default()", "(self.0 & 0x7F).try_into().unwrap_or_default()")

def sh(cmd, **kw):
    return subprocess.run(cmd, shell=True, capture_output=True, text=True, **kw)

def main():
    sel = sys.argv[1:]
    st = sh("git -C /repo status --porcelain --untracked-files=no").stdout.strip()
    if st:
        print("refusing: /repo has uncommitted changes:\n" + st); sys.exit(2)
    results = []
    for m in M:
        tag = f"{m['prop']}/{m['name']}"
        if sel and not any(s in tag for s in sel):
            continue
        path = "/repo/" + m["file"]
        src = open(path).read()
        if src.count(m["old"]) < 1:
            print(f"{tag}: PATTERN NOT FOUND"); results.append((tag, "NOPATTERN")); continue
        open(path, "w").write(src.replace(m["old"], m["new"], m["count"]))
        t0 = time.time()
        verdicts = []
        for prop in (m["prop"],) + tuple(m["also"]):
            r = sh(f"cd /verif && ./check {prop} --tier quick", env=dict(os.environ, VP_SCALE=os.environ.get("VP_SCALE", "1")))
            v = {0: "MISSED", 1: "caught", 2: "inconclusive"}.get(r.returncode, f"rc{r.returncode}")
            if r.returncode == 2:
                v += " (" + (r.stdout.strip().splitlines() or ["?"])[0][:100] + ")"
            verdicts.append(f"{prop}:{v}")
        sh("git -C /repo checkout -- .")
        print(f"{tag}: {' '.join(verdicts)}  [{time.time()-t0:.0f}s]", flush=True)
        results.append((tag, verdicts))
    sh("git -C /repo checkout -- .")
    sh("rm -rf /verif/replays/*")
    # leave evidence in the state of the unchanged tree: the caller re-runs the checks afterwards

main()
