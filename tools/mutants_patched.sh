#!/bin/sh
# usage: tools/mutants_patched.sh <name-substring> [more]   like mutants.py, but each selected mutant becomes a patch that is
# run on a patched COPY of /repo (tools/patched_run.sh), so /repo's working tree is never touched and runs can overlap.
SRC="$(cd "$(dirname "$0")/.." && pwd)"
for sel in "$@"; do
python3 - "$SRC" "$sel" <<'PY'
import sys, subprocess, os, re, tempfile
src, sel = sys.argv[1:3]
code = open(src + "/tools/mutants.py").read()
code = code[:code.index("def main():")]
ns = {}
exec(code, ns)
for m in ns["M"]:
    tag = f"{m['prop']}/{m['name']}"
    if sel not in tag: continue
    w = tempfile.mkdtemp(prefix="mutwt.", dir="/tmp")
    subprocess.run(f"git -C /repo worktree add --detach {w}/r HEAD", shell=True, capture_output=True)
    path = f"{w}/r/" + m["file"]; text = open(path).read()
    if m["old"] not in text:
        print(tag, "PATTERN NOT FOUND")
    else:
        open(path, "w").write(text.replace(m["old"], m["new"], m["count"]))
        diff = subprocess.run(f"git -C {w}/r diff", shell=True, capture_output=True, text=True).stdout
        pf = f"/tmp/mut-{m['name']}.diff"; open(pf, "w").write(diff)
        ids = " ".join((m["prop"],) + tuple(m["also"]))
        r = subprocess.run(f"{src}/tools/patched_run.sh {pf} {ids}", shell=True, capture_output=True, text=True)
        for l in r.stdout.splitlines():
            if l.startswith("=="): print(tag, re.sub(r"rc=1", "caught rc=1", re.sub(r"rc=0", "MISSED rc=0", l))[:260])
    subprocess.run(f"git -C /repo worktree remove --force {w}/r; rm -rf {w}; git -C /repo worktree prune", shell=True, capture_output=True)
PY
done
