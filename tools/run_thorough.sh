#!/bin/sh
# For `vp run --with-repo -- tools/run_thorough.sh <ID> [quick|thorough]`: runs a check from a snapshot of /verif
# against the snapshot of /repo ($VP_RUN_REPO), so that edits made to /repo meanwhile do not disturb it.
set -u
HERE="$(cd "$(dirname "$0")/.." && pwd)"
if [ -n "${VP_RUN_REPO:-}" ]; then
    for f in "$HERE/harness/Cargo.toml" "$HERE/harness-sim/Cargo.toml" "$HERE/fuzz/Cargo.toml"; do
        sed -i "s#path = \"/repo/#path = \"$VP_RUN_REPO/#g" "$f"
    done
fi
exec "$HERE/check" "$1" --tier "${2:-thorough}"
