#!/bin/sh
# usage: tools/benign_all.sh [name-prefix]  > benign/RESULTS.txt
# Runs, for every property-preserving change under /verif/benign, the checks listed in its meta.json against a patched
# COPY of /repo (tools/patched_run.sh). Every line must say rc=0: anything else is a false alarm of the check.
cd /verif/benign || exit 2
for d in ${1:-}*/; do
    d=${d%/}
    [ -f "$d/patch.diff" ] || continue
    ids=$(python3 -c "import json;print(' '.join(json.load(open('$d/meta.json'))['checks']))")
    PR_OUT=/tmp/benign-out/$d /verif/tools/patched_run.sh "$d/patch.diff" $ids 2>&1 | sed "s/^/$d  /" | cut -c1-420
done
