#!/bin/sh
# usage: tools/benign_changed.sh "<ids whose checks changed>" [jobs]  -> benign/RESULTS-changed.txt
# Like benign_all.sh, restricted to the named checks (those of a change's meta.json that are in the list), several changes at a time.
SRC="$(cd "$(dirname "$0")/.." && pwd)"
IDS="$1"; JOBS="${2:-3}"
OUT="$SRC/benign/RESULTS-changed.txt"; : > "$OUT"
cd "$SRC/benign" || exit 2
for d in */; do
    d=${d%/}
    [ -f "$d/patch.diff" ] || continue
    ids=$(python3 -c "import json,sys;w=sys.argv[1].split();print(' '.join(c for c in json.load(open('$d/meta.json'))['checks'] if c in w))" "$IDS")
    [ -n "$ids" ] && echo "$d $ids"
done | xargs -P "$JOBS" -L 1 sh -c 'd=$0; "'"$SRC"'/tools/patched_run.sh" "'"$SRC"'/benign/$d/patch.diff" "$@" 2>&1 | sed "s/^/$d  /" | cut -c1-420 >> "'"$OUT"'"'
sort -o "$OUT" "$OUT"
echo "rc=0: $(grep -c "rc=0" "$OUT")   other: $(grep -vc "rc=0" "$OUT")"
grep -v "rc=0" "$OUT"
