#!/bin/sh
# usage: tools/seeded.sh <dir under /verif/seeded> <check id> [more ids]
# Applies seeded/<dir>/patch.diff to /repo, runs the quick checks, restores /repo, rebuilds the harness.
set -u
D=/verif/seeded/$1; shift
if [ -n "$(git -C /repo status --porcelain --untracked-files=no)" ]; then echo "/repo not clean"; exit 2; fi
EV=$(mktemp -d /dev/shm/seeded-ev.XXXXXX); cp -a /verif/evidence/. "$EV"/
git -C /repo apply "$D/patch.diff" || { echo "patch does not apply"; exit 2; }
for id in "$@"; do
    /verif/check "$id" > "/tmp/seeded-$id.out" 2>&1; rc=$?
    echo "== $id rc=$rc: $(grep -E '^--- |^VIOLATION|INCONCLUSIVE' /tmp/seeded-$id.out | head -3 | cut -c1-400)"
done
git -C /repo checkout -- .
rm -rf /verif/replays/*
# evidence written while the change was applied does not describe /repo: put the previous files back
rm -rf /verif/evidence; mkdir -p /verif/evidence; cp -a "$EV"/. /verif/evidence/; rm -rf "$EV"
(cd /verif/harness && cargo build --release --offline >/dev/null 2>&1)
