#!/bin/sh
# usage: tools/import_benign.sh <area tag> "<check ids to run>"   (imports /tmp/wtB-<tag>/SEEDED/benign-n.{diff,json})
T="$1"; IDS="$2"; W=/tmp/wtB-$T
for n in 1 2 3 4 5 6; do
    [ -f "$W/SEEDED/benign-$n.diff" ] || continue
    D=/verif/benign/$T-$n; mkdir -p "$D"
    cp "$W/SEEDED/benign-$n.diff" "$D/patch.diff"
    python3 - "$W/SEEDED/benign-$n.json" "$D/meta.json" "$T" "$IDS" <<'PY'
import json,sys
src,dst,tag,ids=sys.argv[1:5]
m=json.load(open(src)); m["area"]=tag; m["checks"]=ids.split(); m["kind"]="property-preserving change written by an independent sub-agent (given only the 19 property texts)"
json.dump(m,open(dst,"w"),indent=1)
PY
    git -C /repo apply --check "$D/patch.diff" && echo "$D ok" || echo "$D DOES NOT APPLY"
done
git -C /repo worktree remove --force "$W" && echo "removed $W"
