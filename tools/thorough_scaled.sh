#!/bin/sh
# usage: tools/thorough_scaled.sh <scale> [ids...]   the THOROUGH command of every check on the unchanged tree with its generated
# case counts scaled (VP_SCALE; exhaustive lists and libFuzzer campaigns are not scaled). One line per check; anything but rc=0
# is a false alarm or an inconclusive run of the thorough tier.
SRC="$(cd "$(dirname "$0")/.." && pwd)"
SCALE="$1"; shift
IDS="${*:-C01 C02 C03 C04 C05 C06 C07 C08 C09 C10 C11 C12 C13 C14 C15 C16 C17 C18 C19}"
for id in $IDS; do
    t0=$(date +%s)
    out=$(VP_SCALE=$SCALE "$SRC/check" "$id" --tier thorough 2>&1); rc=$?
    echo "thorough x$SCALE $id rc=$rc $(( $(date +%s) - t0 ))s $(echo "$out" | grep -E "^C[0-9]+ tier" | cut -c1-120) $(echo "$out" | grep -E "^VIOLATION|INCONCLUSIVE" | head -2 | tr '\n' ' ' | cut -c1-300)"
    [ $rc -ne 0 ] && echo "$out" | grep -E "^--- failing" | cut -c1-800
    echo "$out" | grep "libfuzzer" | cut -c1-200
done
