#!/bin/sh
# usage: tools/import_seed.sh <worktree> <target dir name under /verif/seeded> <round> "<confirmation note>"
W="$1"; N="$2"; R="$3"; NOTE="$4"
D=/verif/seeded/$N; mkdir -p "$D"; cp -a "$W"/SEEDED/. "$D"/
python3 - "$D/meta.json" "$R" "$NOTE" <<'PY'
import json,sys
p,r,note=sys.argv[1:4]
m=json.load(open(p)); m["round"]=int(r); m["confirmed_by_me"]=note
json.dump(m,open(p,"w"),indent=1)
PY
git -C /repo worktree remove --force "$W" && echo "removed $W"
ls "$D"
