#!/bin/sh
# usage: tools/multiseed.sh "<seeds>" [ids...]   every quick check on the unchanged tree under several VERIF_SEED values;
# prints one line per run; anything but "rc=0" is a false alarm (or an inconclusive run) to look at.
SRC="$(cd "$(dirname "$0")/.." && pwd)"
SEEDS="$1"; shift
IDS="${*:-C01 C02 C03 C04 C05 C06 C07 C08 C09 C10 C11 C12 C13 C14 C15 C16 C17 C18 C19}"
for s in $SEEDS; do
    for id in $IDS; do
        out=$(VERIF_SEED=$s "$SRC/check" "$id" --tier quick 2>&1); rc=$?
        echo "seed=$s $id rc=$rc $(echo "$out" | grep -E "^VIOLATION|INCONCLUSIVE" | head -2 | tr '\n' ' ' | cut -c1-300)"
        [ $rc -ne 0 ] && echo "$out" | grep -E "^--- failing" | cut -c1-600
    done
done
