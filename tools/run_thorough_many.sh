#!/bin/sh
# For `vp run --with-repo --timeout 10h -- tools/run_thorough_many.sh <ID> <ID> ...`: runs the thorough tier of
# several checks one after the other from a snapshot of /verif against the snapshot of /repo.
set -u
HERE="$(cd "$(dirname "$0")/.." && pwd)"
if [ -n "${VP_RUN_REPO:-}" ]; then
    for f in "$HERE/harness/Cargo.toml" "$HERE/harness-sim/Cargo.toml" "$HERE/fuzz/Cargo.toml"; do
        sed -i "s#path = \"/repo/#path = \"$VP_RUN_REPO/#g" "$f"
    done
fi
rc=0
for id in "$@"; do
    echo "=== $id thorough"
    "$HERE/check" "$id" --tier thorough || rc=$?
done
exit $rc
