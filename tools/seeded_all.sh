#!/bin/sh
# usage: tools/seeded_all.sh > seeded/RESULTS.txt
# Re-runs every seeded change against the quick check of the property it was written for
# (plus the checks named in EXTRA below) and prints one line per change and check.
cd /verif/seeded || exit 2
for d in */; do
    d=${d%/}
    [ -f "$d/patch.diff" ] || continue
    prop=$(python3 -c "import json;print(json.load(open('$d/meta.json'))['property'])")
    ids=$prop
    case $d in
        C06b-*|C15c-*) ids="$prop C15";;
    esac
    ids=$(echo $ids | tr ' ' '\n' | sort -u | tr '\n' ' ')
    /verif/tools/seeded.sh "$d" $ids 2>&1 | sed "s/^/$d  /" | cut -c1-260
done
