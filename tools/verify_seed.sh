#!/bin/sh
# usage: tools/verify_seed.sh <worktree> "<demo command>" "<existing-tests command>" [more test commands]
# Confirms a seeded change in the agent's scratch worktree: the demonstration fails with the change and passes
# without it; then everything but the library change is removed from the worktree (demo files, hook-ups) and the
# existing tests of the touched crates are run with only patch.diff applied.
W="$1"; DEMO="$2"; shift 2
cd "$W" || exit 2
export CARGO_TARGET_DIR="$W/target" RUST_BACKTRACE=0 CARGO_NET_OFFLINE=true
git apply --check -R SEEDED/patch.diff 2>/dev/null || { echo "patch not applied in worktree?"; git apply SEEDED/patch.diff || exit 2; }
sh -c "$DEMO" > "$W/SEEDED/.vs-with.log" 2>&1; a=$?
git apply -R SEEDED/patch.diff || exit 2
sh -c "$DEMO" > "$W/SEEDED/.vs-without.log" 2>&1; b=$?
echo "demo with change: rc=$a   without: rc=$b   $( [ $a -ne 0 ] && [ $b -eq 0 ] && echo CONFIRMED || echo NOT-CONFIRMED )"
grep -E "^test .*(FAILED|ok)$|test result" "$W/SEEDED/.vs-with.log" | head -6
git checkout -- . && git clean -fdq -e target -e SEEDED; rm -f SEEDED/.vs-*.log
git apply SEEDED/patch.diff || { echo "patch.diff does not apply to a clean checkout"; exit 2; }
for t in "$@"; do
    sh -c "$t" > "$W/SEEDED/.vs-tests.log" 2>&1; c=$?
    echo "existing tests, only patch.diff applied [$t]: rc=$c"; grep -E "FAILED|failed" "$W/SEEDED/.vs-tests.log" | head -8
done
