#!/usr/bin/env python3
"""usage: tools/seed_launch.py <round> <prop id> <letter> [extra check ids...]
Reads /tmp/wt<round>-<id>/SEEDED/meta.json (written by the sub-agent), derives a directory name, the demonstration command and
the existing-test commands, and starts tools/seed_pipeline.sh for it in the background (output /tmp/r<round>/<name>.txt)."""
import json, re, subprocess, sys
rnd, pid, letter = sys.argv[1:4]
extra = sys.argv[4:]
w = "/tmp/wt%s-%s" % (rnd, pid)
m = json.load(open(w + "/SEEDED/meta.json"))
def clean(c):
    c = re.split(r"\s+\(", c)[0].strip()
    return c
demo = clean(m["demonstration"]["command"])
tests = [clean(t) for t in m.get("existing_tests_run", []) if t.strip().startswith("cargo")]
tests = [t for t in tests if "cargo test" in t] or ["true"]
slug = re.sub(r"[^a-z0-9]+", "-", m["summary"].lower())[:60].strip("-")
name = "%s%s-%s" % (pid, letter, slug)
print(name); print(" demo:", demo); print(" tests:", tests)
subprocess.Popen(["/verif/tools/seed_pipeline.sh", rnd, pid, name, demo, ";;".join(tests), pid] + extra,
                 stdout=subprocess.DEVNULL, stderr=subprocess.DEVNULL, start_new_session=True)
