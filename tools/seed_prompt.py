#!/usr/bin/env python3
"""usage: tools/seed_prompt.py <round> <property id>  -> prints the prompt handed to an independent sub-agent.
The prompt holds the property's text, the agent's own scratch worktree and one line per idea earlier agents
used for this property (so that a new agent looks elsewhere). Nothing else from /verif is given."""
import json, sys, os, glob, re
rnd, pid = sys.argv[1], sys.argv[2]
props = {json.loads(l)["id"]: json.loads(l) for l in open("/verif/properties.jsonl")}
p = props[pid]
earlier = []
for d in sorted(glob.glob("/verif/seeded/%s*/meta.json" % pid)):
    m = json.load(open(d))
    if m.get("property") != pid: continue
    s = re.sub(r"\s+", " ", m.get("summary", ""))[:330]
    n = re.sub(r"\s+", " ", str(m.get("needs_to_manifest", "")))[:200]
    earlier.append("- %s … NEEDS: %s" % (s, n))
wt = "/tmp/wt%s-%s" % (rnd, pid)
print(f"""You are helping to evaluate a verification effort for the Rust project lnx-search/datacake (a toolkit for
leaderless, eventually consistent replicated stores). Your job is to play the role of a developer who introduces a
subtle regression.

Your own scratch git worktree of the repository is at {wt} (detached HEAD). Work ONLY there; never touch /repo or
/verif (do not even read /verif). The sandbox has no network: always pass --offline to cargo and use
`export CARGO_TARGET_DIR={wt}/target` so build output stays inside your worktree. Code guarded by
`#[cfg(datacake_verif)]` is test instrumentation: leave it alone and do not rely on it.

THE PROPERTY (id {pid}): {p['title']}
{p['statement']}
It is meant to hold: {p['quantifier']['text']}.

TASK. Produce ONE change to the library code of datacake (not to its tests) that BREAKS this property, while
 (a) the workspace still compiles,
 (b) the existing tests of every crate you touch still pass (run them per package, e.g.
     `cargo test --offline -p datacake-crdt`; for datacake-eventual-consistency use `--features test-utils`;
     never use `cargo test --workspace`, feature unification breaks unrelated tests there),
 (c) the change looks like something a maintainer could plausibly write (an optimisation, a refactoring, a "fix", a
     clean-up) — not sabotage, no magic constants special-casing one input, and
 (d) it needs SOMETHING SPECIFIC to manifest: a particular interleaving, a crash or fault at a particular point, a
     multi-step sequence of operations, an unusual input or boundary value, a particular configuration, or two
     cooperating sites that each look fine alone. Ordinary use (the happy path the existing tests walk) must not expose it.

Earlier rounds already used the following ideas for this property. Do something DIFFERENT: a different code site or a
different triggering condition, preferably a part of the behaviour behind the property nobody has touched yet:
{chr(10).join(earlier) if earlier else '- (none yet)'}

DELIVERABLES, all inside {wt}/SEEDED/ :
 1. patch.diff   — `git diff` of the library change ONLY (no demo code in it); must apply with `git apply` to a clean checkout.
 2. a demonstration: a test file or small program (plus, if needed, a demo_hookup.diff that mounts it) which FAILS with
    the change applied and PASSES without it. Run it in both directions yourself, several times if it involves
    concurrency, and report the exact commands and outcomes. Prefer a demonstration that is deterministic.
 3. HOWTO.txt    — exact commands to run the demonstration in both directions, and which existing tests you ran.
 4. meta.json    — {{"property": "{pid}", "summary": "<what the change does and why it breaks the property>",
    "needs_to_manifest": "<the specific condition>", "files_touched": [...], "demonstration": {{"command": "...",
    "with_change": "...", "without_change": "..."}}, "existing_tests_run": ["..."]}}
Leave the worktree with the library change APPLIED and the demonstration present. Do not commit anything.
In your final answer give a five-line summary: the idea, the trigger, the files touched, and the demo results in both directions.""")
