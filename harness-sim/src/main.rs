//! `vp-sim check <ID> --tier T --out <parts.json>`: the turmoil-based parts (engine E4). Results are
//! written as "external parts" which the main harness merges into the property's evidence file.
#![allow(dead_code)]

#[path = "../../harness/src/core.rs"]
mod core;
#[path = "../../harness/src/registry.rs"]
mod registry;

mod rpc_sim;

use std::process::exit;

use crate::core::{install_quiet_panic_hook, load_known_findings, RunCfg};
use crate::registry::DynPart;

fn parts_for(id: &str) -> Option<(&'static str, Vec<Box<dyn DynPart>>)> {
    Some(match id {
        "C14" => ("C14", rpc_sim::parts_c14()),
        "C12" => ("C12", rpc_sim::parts_c12()),
        _ => return None,
    })
}

fn main() {
    let args: Vec<String> = std::env::args().collect();
    if args.len() < 3 {
        eprintln!("usage: vp-sim check <ID> [--tier T] [--out file] | vp-sim replay <file>");
        exit(2)
    }
    if std::env::var("VP_LOUD_PANICS").is_err() {
        install_quiet_panic_hook();
    }
    match args[1].as_str() {
        "check" if !args.iter().any(|a| a == "--worker") => exit(crate::core::supervise(&args)),
        "replay" if !args.iter().any(|a| a == "--worker") => exit(crate::core::supervise_replay(&args)),
        "check" => {
            let id = args[2].as_str();
            let mut tier = std::env::var("VERIF_TIER").unwrap_or_else(|_| "quick".into());
            let mut out: Option<String> = None;
            let mut i = 3;
            while i < args.len() {
                match args[i].as_str() {
                    "--tier" => {
                        tier = args[i + 1].clone();
                        i += 2;
                    },
                    "--out" => {
                        out = Some(args[i + 1].clone());
                        i += 2;
                    },
                    _ => i += 1,
                }
            }
            if tier != "thorough" {
                tier = "quick".into();
            }
            let seed = std::env::var("VERIF_SEED").ok().and_then(|s| s.trim().parse::<i128>().ok()).map(|v| v as u64).unwrap_or(0);
            let seed = if seed == 0 { 0x5EED_DA7A_CA4E } else { seed };
            let threads = std::env::var("VP_THREADS")
                .ok()
                .and_then(|s| s.parse().ok())
                .unwrap_or_else(|| std::thread::available_parallelism().map(|n| n.get()).unwrap_or(8));
            let cfg = RunCfg { seed, tier, threads };
            let Some((sid, parts)) = parts_for(id) else {
                eprintln!("vp-sim: no simulation parts for {id}");
                exit(2)
            };
            let known = load_known_findings();
            let started = std::time::Instant::now();
            let mut results = vec![];
            let mut failed = false;
            for p in &parts {
                let r = p.run(&cfg, &known);
                failed |= r.failure.is_some();
                results.push(r);
                if failed {
                    break;
                }
            }
            let json = crate::core::external_parts_json(sid, &cfg, &results, "sim", started.elapsed().as_secs_f64());
            if let Some(path) = out {
                std::fs::write(&path, serde_json::to_string_pretty(&json).unwrap()).expect("write parts file");
            }
            exit(if failed { 1 } else { 0 })
        },
        "replay" => {
            let v: serde_json::Value = serde_json::from_str(&std::fs::read_to_string(&args[2]).expect("read")).expect("json");
            let id = v["property"].as_str().unwrap_or("");
            let part = v["part"].as_str().unwrap_or("");
            let choices: Vec<u64> = v["choices"].as_array().map(|a| a.iter().filter_map(|x| x.as_u64()).collect()).unwrap_or_default();
            let Some((sid, parts)) = parts_for(id) else { exit(2) };
            let Some(p) = parts.iter().find(|p| p.part() == part) else { exit(2) };
            let (out, case) = p.replay(&choices);
            println!("{}", serde_json::to_string_pretty(&case).unwrap());
            match out {
                Ok(pass) => {
                    println!("replay {sid}/{part}: property holds on this case (labels {:?})", pass.labels);
                    exit(0)
                },
                Err(f) => {
                    println!("replay {sid}/{part}: [{}] {}", f.signature, f.message);
                    println!("VIOLATION property={sid} replay={}", args[2]);
                    exit(1)
                },
            }
        },
        _ => exit(2),
    }
}
