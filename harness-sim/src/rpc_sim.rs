//! Engine E4: datacake-rpc over hyper/h2 over turmoil's simulated TCP (the repository's own `simulation`
//! feature), with the simulator fix described in /verif/vendor/README.md.

use std::net::{IpAddr, Ipv4Addr, SocketAddr};
use std::sync::Arc;
use std::time::Duration;

use datacake_rpc::{Body, Channel, ErrorCode, Handler, Request, RpcClient, RpcService, Server, ServiceRegistry, Status};
use parking_lot::Mutex;
use rand::SeedableRng;
use rkyv::{Archive, Deserialize, Serialize};
use serde_json::{json, Value};
use turmoil::{lookup, Builder};

use crate::core::{Fail, Outcome, Pass, Prop, Src};
use crate::ensure;
use crate::registry::{DynPart, Gen};

const PORT: u16 = 9999;
const CAP: usize = 48 * 1024;

fn server_addr() -> SocketAddr {
    (lookup("server"), PORT).into()
}

#[repr(C)]
#[derive(Serialize, Deserialize, Archive, Debug, Clone, PartialEq)]
#[archive(check_bytes)]
pub struct Ping {
    pub id: u64,
    pub payload: Vec<u8>,
    pub reply_len: u32,
    pub handler_delay_ms: u32,
    /// 0 = reply normally, otherwise fail with this error code (1..=5) and `text`
    pub fail_with: u8,
    pub text: String,
}

#[repr(C)]
#[derive(Serialize, Deserialize, Archive, Debug, Clone, PartialEq)]
#[archive(check_bytes)]
pub struct Pong {
    pub id: u64,
    pub digest: u64,
    pub echoed: Vec<u8>,
    pub filler: Vec<u8>,
}

pub fn digest(id: u64, payload: &[u8]) -> u64 {
    let mut h = id ^ 0x9E37_79B9_7F4A_7C15;
    for b in payload {
        h = (h ^ *b as u64).wrapping_mul(0x100_0000_01B3);
    }
    h
}

fn code_of(n: u8) -> ErrorCode {
    match n {
        1 => ErrorCode::ServiceUnavailable,
        2 => ErrorCode::InternalError,
        3 => ErrorCode::InvalidPayload,
        4 => ErrorCode::ConnectionError,
        _ => ErrorCode::Timeout,
    }
}

#[derive(Default)]
pub struct Log {
    /// (id, digest of the payload the handler observed, payload length)
    pub seen: Vec<(u64, u64, usize)>,
}

pub struct Echo {
    pub log: Arc<Mutex<Log>>,
}

impl RpcService for Echo {
    fn service_name() -> &'static str {
        "echo"
    }

    fn register_handlers(r: &mut ServiceRegistry<Self>) {
        r.add_handler::<Ping>();
    }
}

#[datacake_rpc::async_trait]
impl Handler<Ping> for Echo {
    type Reply = Pong;

    fn path() -> &'static str {
        "ping"
    }

    async fn on_message(&self, msg: Request<Ping>) -> Result<Pong, Status> {
        let m = msg.deserialize_view().map_err(Status::internal)?;
        self.log.lock().seen.push((m.id, digest(m.id, &m.payload), m.payload.len()));
        if m.handler_delay_ms > 0 {
            tokio::time::sleep(Duration::from_millis(m.handler_delay_ms as u64)).await;
        }
        if m.fail_with != 0 {
            return Err(Status { code: code_of(m.fail_with), message: m.text });
        }
        Ok(Pong {
            id: m.id,
            digest: digest(m.id, &m.payload),
            echoed: m.payload.clone(),
            filler: vec![(m.id % 251) as u8; m.reply_len as usize],
        })
    }
}

/// Twin of `Echo` with the same service name and path that sends raw bodies (never registered on the
/// server): lets a client put arbitrary bytes in front of the typed handler.
pub struct RawEcho;

impl RpcService for RawEcho {
    fn service_name() -> &'static str {
        "echo"
    }

    fn register_handlers(_r: &mut ServiceRegistry<Self>) {}
}

#[datacake_rpc::async_trait]
impl Handler<Body> for RawEcho {
    type Reply = Body;

    fn path() -> &'static str {
        "ping"
    }

    async fn on_message(&self, _msg: Request<Body>) -> Result<Body, Status> {
        unreachable!()
    }
}

fn listen_addr() -> SocketAddr {
    (IpAddr::from(Ipv4Addr::UNSPECIFIED), PORT).into()
}

fn new_sim(seed: u64) -> turmoil::Sim<'static> {
    Builder::new()
        .simulation_duration(Duration::from_secs(900))
        .tick_duration(Duration::from_millis(1))
        .min_message_latency(Duration::from_millis(1))
        .max_message_latency(Duration::from_millis(5))
        .build_with_rng(Box::new(rand::rngs::SmallRng::seed_from_u64(seed)))
}

fn start_server(sim: &mut turmoil::Sim<'static>, log: Arc<Mutex<Log>>) {
    sim.host("server", move || {
        let log = log.clone();
        async move {
            let server = Server::listen(listen_addr()).await?;
            server.add_service(Echo { log });
            loop {
                tokio::time::sleep(Duration::from_secs(3600)).await;
            }
            #[allow(unreachable_code)]
            Ok(())
        }
    });
}

// ---------------------------------------------------------------------------------------
// C14

#[derive(Debug, Clone)]
pub enum Ev {
    /// `client_form`: 0 = `new` + `set_timeout`, 1 = clone of a configured client, 2 = clone of a clone, 3 = sibling handles of
    /// the same channel (a clone, a `new_client`) are given much longer timeouts after this one was configured
    /// `fail_with`: 0 = the handler replies normally, 1..=5 = it does its work and then replies with an error status of that
    /// code (service unavailable, internal, invalid payload, connection, timeout) and a message naming the request
    Send { n: usize, payload_len: usize, reply_len: usize, handler_delay_ms: u32, fresh_channel: bool, client_form: u8, fail_with: u8 },
    Partition,
    Repair,
    Hold,
    Release,
    Sleep(u64),
    Join,
    /// the caller of the k-th request that is still running gives up: its task is aborted (a `select!`, an outer timeout, a
    /// dropped connection on the caller's side); nothing is learnt about that request, everything else must be unaffected
    Cancel(usize),
}

#[derive(Debug, Clone)]
pub struct NetCase {
    pub timeout_ms: u64,
    pub events: Vec<Ev>,
    pub seed: u64,
}

pub struct NetFaults;

#[derive(Debug, Clone)]
struct Done {
    id: u64,
    payload_digest: u64,
    reply_len: usize,
    result: Result<(u64, u64, usize), (u8, String)>,
    elapsed: Duration,
    started_during_fault: bool,
    fail_with: u8,
}

fn code_num(c: &ErrorCode) -> u8 {
    match c {
        ErrorCode::ServiceUnavailable => 1,
        ErrorCode::InternalError => 2,
        ErrorCode::InvalidPayload => 3,
        ErrorCode::ConnectionError => 4,
        ErrorCode::Timeout => 5,
    }
}

impl Prop for NetFaults {
    type Case = NetCase;

    fn id(&self) -> &'static str {
        "C14"
    }

    fn part(&self) -> &'static str {
        "turmoil-network-faults"
    }

    fn width(&self) -> usize {
        25 * 8 + 4
    }

    fn shrink_budget(&self) -> usize {
        300
    }

    fn breadcrumbs(&self) -> bool {
        true
    }

    fn gen(&self, src: &mut Src) -> NetCase {
        let timeout_ms = *src.pick(&[500u64, 2_000, 5_000, 500, 2_000, 0]);
        let n = 3 + src.below(23);
        let mut events = vec![];
        for _ in 0..n {
            events.push(match src.weighted(&[6, 2, 2, 2, 2, 5, 1, 2]) {
                7 => Ev::Cancel(src.below(4)),
                0 => Ev::Send {
                    n: 1 + src.below(4),
                    payload_len: *src.pick(&[0usize, 10, 1_000, 17_000, 40_000, CAP]),
                    reply_len: *src.pick(&[0usize, 10, 1_000, 17_000, 40_000, CAP]),
                    handler_delay_ms: *src.pick(&[0u32, 0, 0, 3, 100, 700, 2_500, 6_000]),
                    fresh_channel: src.chance(1, 3),
                    client_form: src.weighted(&[2, 2, 1, 1]) as u8,
                    fail_with: *src.pick(&[0u8, 0, 0, 0, 0, 1, 1, 2, 3, 4, 5]),
                },
                1 => Ev::Partition,
                2 => Ev::Repair,
                3 => Ev::Hold,
                4 => Ev::Release,
                5 => Ev::Sleep(*src.pick(&[1u64, 2, 3, 5, 10, 100, 600, 2_100, 5_100])),
                _ => Ev::Join,
            });
        }
        NetCase { timeout_ms, events, seed: src.word() }
    }

    fn run(&self, case: &NetCase) -> Outcome {
        run_net(case)
    }

    fn describe(&self, case: &NetCase) -> Value {
        json!({
            "client_timeout_ms": case.timeout_ms,
            "events": case.events.iter().map(|e| format!("{:?}", e)).collect::<Vec<_>>(),
            "turmoil_seed": case.seed,
        })
    }

    fn rule(&self) -> &'static str {
        "datacake-rpc client and server over hyper/h2 over turmoil's simulated TCP (1 ms tick, 1-5 ms latency, seeded); \
         client script of 3-25 events: send 1-4 concurrent requests (payload / reply 0 B - 48 KiB, handler delay 0 - 6 s, one send in two with a handler that does its work and then replies with an error status of any of the five codes, \
         shared or fresh channel, client built directly, cloned once / twice from a configured one, or with sibling handles of the same channel that get longer timeouts afterwards), partition, repair, hold, release, sleep 1 ms - 5.1 s, join, \
         a caller giving up on a running request (its task is aborted); client timeout T in \
         {0,0.5,2,5 s}; the script ends with release + repair + join; oracle: every request ends as Ok(reply with its own id, \
         the digest of its own payload and the requested length), as the error status its own handler replied with (code and message), or Err(ConnectionError|Timeout) within T + 10 ms of \
         simulated time; the handler log holds every id at most once and every id whose client saw Ok, with the digest of \
         the payload that was sent; no host panics; non-trivial = a fault event strictly between a send and its completion"
    }
}

fn run_net(case: &NetCase) -> Outcome {
    let mut sim = new_sim(case.seed);
    let log = Arc::new(Mutex::new(Log::default()));
    start_server(&mut sim, log.clone());
    let done: Arc<Mutex<Vec<Done>>> = Arc::new(Mutex::new(vec![]));
    let fault_during_flight = Arc::new(Mutex::new(false));
    let cancelled: Arc<Mutex<Vec<u64>>> = Arc::new(Mutex::new(vec![]));
    let cancelled2 = cancelled.clone();

    let events = case.events.clone();
    let t = Duration::from_millis(case.timeout_ms);
    let done2 = done.clone();
    let fdf = fault_during_flight.clone();
    sim.client("client", async move {
        let shared = Channel::connect(server_addr());
        let mut next_id = 1u64;
        let mut handles: Vec<(u64, tokio::task::JoinHandle<()>)> = vec![];
        let mut faulty = false; // a partition or hold is in force
        let mut all = events;
        all.extend([Ev::Release, Ev::Repair, Ev::Join]);
        for ev in all {
            match ev {
                Ev::Send { n, payload_len, reply_len, handler_delay_ms, fresh_channel, client_form, fail_with } => {
                    for _ in 0..n {
                        let id = next_id;
                        next_id += 1;
                        let channel = if fresh_channel { Channel::connect(server_addr()) } else { shared.clone() };
                        let done = done2.clone();
                        let started_during_fault = faulty;
                        handles.push((id, tokio::spawn(async move {
                            let mut base = RpcClient::<Echo>::new(channel);
                            base.set_timeout(t);
                            let client = match client_form {
                                0 => base,
                                1 => base.clone(),
                                2 => {
                                    let c = base.clone();
                                    drop(base);
                                    c.clone()
                                },
                                _ => {
                                    // sibling handles of the same channel are given much longer timeouts afterwards
                                    let mut sibling = base.clone();
                                    sibling.set_timeout(t * 10 + Duration::from_secs(30));
                                    let mut other = base.new_client::<Echo>();
                                    other.set_timeout(t * 10 + Duration::from_secs(60));
                                    base
                                },
                            };
                            let payload: Vec<u8> = (0..payload_len).map(|i| (i as u64).wrapping_mul(id + 7) as u8).collect();
                            let text = if fail_with != 0 { format!("refused-{id}") } else { String::new() };
                            let msg = Ping { id, payload: payload.clone(), reply_len: reply_len as u32, handler_delay_ms, fail_with, text };
                            let started = tokio::time::Instant::now();
                            let res = client.send(&msg).await;
                            let elapsed = started.elapsed();
                            let result = match res {
                                Ok(v) => Ok((v.id, v.digest, v.filler.len())),
                                Err(s) => Err((code_num(&s.code), s.message)),
                            };
                            done.lock().push(Done { id, payload_digest: digest(id, &payload), reply_len, result, elapsed, started_during_fault, fail_with });
                        })));
                    }
                },
                Ev::Partition => {
                    if handles.iter().any(|(_, h)| !h.is_finished()) {
                        *fdf.lock() = true;
                    }
                    turmoil::partition("client", "server");
                    faulty = true;
                },
                Ev::Repair => {
                    turmoil::repair("client", "server");
                    faulty = false;
                },
                Ev::Hold => {
                    if handles.iter().any(|(_, h)| !h.is_finished()) {
                        *fdf.lock() = true;
                    }
                    turmoil::hold("client", "server");
                    faulty = true;
                },
                Ev::Release => {
                    turmoil::release("client", "server");
                },
                Ev::Sleep(ms) => tokio::time::sleep(Duration::from_millis(ms)).await,
                Ev::Join => {
                    for (_, h) in handles.drain(..) {
                        let _ = h.await;
                    }
                },
                Ev::Cancel(k) => {
                    // no await between the test and the abort: a task that is not finished has not reported
                    // (an aborted task reports `is_finished` only once the runtime has dropped it)
                    let already: Vec<u64> = cancelled2.lock().clone();
                    let running: Vec<usize> = (0..handles.len()).filter(|i| !handles[*i].1.is_finished() && !already.contains(&handles[*i].0)).collect();
                    if !running.is_empty() {
                        let (id, h) = &handles[running[k % running.len()]];
                        h.abort();
                        cancelled2.lock().push(*id);
                    }
                },
            }
        }
        Ok(())
    });

    let res = sim.run();
    if let Err(e) = res {
        let text = e.to_string();
        let sig = if text.contains("Ran for") { "request-never-completed" } else { "host-failed" };
        return Err(Fail { signature: sig.into(), message: format!("simulation ended with: {text}") });
    }
    let done = done.lock().clone();
    let log = log.lock();
    let t = Duration::from_millis(case.timeout_ms);
    let mut errors = 0;
    for d in &done {
        ensure!(
            d.elapsed <= t + Duration::from_millis(10),
            "timeout-exceeded",
            "request {} took {:?} with a client timeout of {:?} (result {:?})",
            d.id,
            d.elapsed,
            t,
            d.result.as_ref().map(|_| "Ok")
        );
        let executions = log.seen.iter().filter(|(id, _, _)| *id == d.id).count();
        ensure!(executions <= 1, "executed-twice", "request {} was executed {executions} times by the handler", d.id);
        for (id, dg, _) in log.seen.iter().filter(|(id, _, _)| *id == d.id) {
            ensure!(*dg == d.payload_digest, "handler-saw-other-bytes", "handler observed a different payload for request {id}");
        }
        match &d.result {
            Ok((rid, dg, flen)) => {
                ensure!(
                    d.fail_with == 0,
                    "reply-the-handler-never-computed",
                    "request {} was answered Ok although its handler replied with an error status (code {})",
                    d.id,
                    d.fail_with
                );
                ensure!(
                    *rid == d.id && *dg == d.payload_digest && *flen == d.reply_len,
                    "reply-of-another-request",
                    "request {} received reply id={rid} digest={dg:#x} len={flen}; expected digest {:#x} len {}",
                    d.id,
                    d.payload_digest,
                    d.reply_len
                );
                ensure!(executions == 1, "reply-without-execution", "request {} got a reply but the handler log does not contain it", d.id);
            },
            Err((code, msg)) => {
                errors += 1;
                if d.fail_with != 0 && *code == d.fail_with {
                    // the reply the handler computed for this very request: its code and its message
                    if *code != 4 && *code != 5 {
                        ensure!(
                            *msg == format!("refused-{}", d.id),
                            "reply-of-another-request",
                            "request {} received the error reply {msg:?} (code {code}); its handler replied \"refused-{}\"",
                            d.id,
                            d.id
                        );
                        ensure!(executions == 1, "reply-without-execution", "request {} got its handler's error reply but the handler log does not contain it", d.id);
                    }
                    continue;
                }
                ensure!(
                    *code == 4 || *code == 5,
                    "wrong-error-kind",
                    "request {} failed with code {code} ({msg}); only connection / timeout errors are allowed",
                    d.id
                );
            },
        }
    }
    let sent: usize = case.events.iter().map(|e| if let Ev::Send { n, .. } = e { *n } else { 0 }).sum();
    let cancelled = cancelled.lock().clone();
    ensure!(
        done.len() + cancelled.len() == sent,
        "request-never-completed",
        "{sent} requests were sent, {} were given up by their callers, but only {} completed",
        cancelled.len(),
        done.len()
    );
    // a request whose caller gave up is still executed at most once, and nobody else received its reply (checked above:
    // every reply carries the id of its own request)
    for id in &cancelled {
        ensure!(!done.iter().any(|d| d.id == *id), "cancelled-request-reported", "request {id} was cancelled and reported a result as well");
        let executions = log.seen.iter().filter(|(i, _, _)| i == id).count();
        ensure!(executions <= 1, "executed-twice", "request {id} (given up by its caller) was executed {executions} times by the handler");
    }
    let mut labels = vec![];
    let fdf = *fault_during_flight.lock();
    if fdf {
        labels.push("fault_while_in_flight");
    }
    if errors > 0 {
        labels.push("some_request_failed");
    }
    if !cancelled.is_empty() {
        labels.push("caller_gave_up_on_a_request");
    }
    if done.iter().any(|d| d.result.is_ok() && d.started_during_fault) {
        labels.push("ok_after_starting_under_fault");
    }
    Ok(Pass { nontrivial: fdf, labels })
}

pub fn parts_c14() -> Vec<Box<dyn DynPart>> {
    vec![Box::new(Gen::new(NetFaults, 20_000, 600_000))]
}

// ---------------------------------------------------------------------------------------
// C12 end to end

#[derive(Debug, Clone)]
pub enum Exchange {
    /// typed request, handler echoes
    Echo { payload_len: usize, reply_len: usize, pattern: u8 },
    /// handler fails with (code, message)
    Fail { code: u8, message_len: usize },
    /// raw frame in front of the typed handler
    Raw { kind: u8, len: usize, noise: u64 },
}

#[derive(Debug, Clone)]
pub struct E2eCase {
    pub exchanges: Vec<Exchange>,
    pub seed: u64,
}

pub struct EndToEnd;

impl Prop for EndToEnd {
    type Case = E2eCase;

    fn id(&self) -> &'static str {
        "C12"
    }

    fn part(&self) -> &'static str {
        "turmoil-end-to-end"
    }

    fn width(&self) -> usize {
        40
    }

    fn shrink_budget(&self) -> usize {
        300
    }

    fn breadcrumbs(&self) -> bool {
        true
    }

    fn gen(&self, src: &mut Src) -> E2eCase {
        let n = 1 + src.below(8);
        let sizes = [0usize, 1, 100, 4_000, 16_000, 16_500, 33_000, 40_000, CAP, 70_000, 300_000];
        let exchanges = (0..n)
            .map(|_| match src.weighted(&[5, 3, 4]) {
                0 => Exchange::Echo { payload_len: *src.pick(&sizes), reply_len: *src.pick(&sizes), pattern: src.word() as u8 },
                1 => Exchange::Fail { code: 1 + src.below(5) as u8, message_len: *src.pick(&[0usize, 1, 40, 5_000, 40_000]) },
                _ => Exchange::Raw { kind: src.below(6) as u8, len: *src.pick(&[0usize, 1, 3, 4, 5, 8, 40, 300, 20_000]), noise: src.word() },
            })
            .collect();
        E2eCase { exchanges, seed: src.word() }
    }

    fn run(&self, case: &E2eCase) -> Outcome {
        run_e2e(case)
    }

    fn describe(&self, case: &E2eCase) -> Value {
        json!({"exchanges": case.exchanges.iter().map(|e| format!("{:?}", e)).collect::<Vec<_>>(), "turmoil_seed": case.seed})
    }

    fn rule(&self) -> &'static str {
        "1-8 exchanges between a real client and server over hyper/h2 over turmoil TCP: typed echo requests (payload / \
         reply 0 B - 300 KB, so bodies arrive in one, two or many chunks), handler errors with every ErrorCode and \
         messages up to 40 KB, and raw frames sent in front of the typed handler through a twin service (empty, 1-5 \
         bytes, all zero, correct checksum over a short body, valid frame with a flipped bit or truncated); oracle: the \
         handler observed exactly the payload sent, the client received exactly the handler's reply, a handler error \
         arrives with the same code and message, every raw frame is refused with InvalidPayload, never reaches the \
         handler and does not panic the server; non-trivial = a multi-chunk body or a raw frame"
    }
}

#[derive(Debug, Clone)]
enum Obs {
    Echo { id: u64, sent: u64, sent_len: usize, reply_len: usize, got: Result<(u64, u64, u64, usize), (u8, String)> },
    Fail { id: u64, code: u8, message: String, got: Result<(), (u8, String)> },
    Raw { what: String, got: Result<usize, (u8, String)>, handler_calls_delta: usize },
}

fn run_e2e(case: &E2eCase) -> Outcome {
    let mut sim = new_sim(case.seed);
    let log = Arc::new(Mutex::new(Log::default()));
    start_server(&mut sim, log.clone());
    let obs: Arc<Mutex<Vec<Obs>>> = Arc::new(Mutex::new(vec![]));
    let obs2 = obs.clone();
    let log2 = log.clone();
    let exchanges = case.exchanges.clone();
    sim.client("client", async move {
        let channel = Channel::connect(server_addr());
        let mut client = RpcClient::<Echo>::new(channel.clone());
        client.set_timeout(Duration::from_secs(30));
        let mut raw = RpcClient::<RawEcho>::new(channel);
        raw.set_timeout(Duration::from_secs(30));
        for (i, ex) in exchanges.iter().enumerate() {
            let id = i as u64 + 1;
            match ex {
                Exchange::Echo { payload_len, reply_len, pattern } => {
                    let payload: Vec<u8> = (0..*payload_len).map(|j| (j as u8).wrapping_mul(31).wrapping_add(*pattern)).collect();
                    let msg = Ping { id, payload: payload.clone(), reply_len: *reply_len as u32, handler_delay_ms: 0, fail_with: 0, text: String::new() };
                    let got = match client.send(&msg).await {
                        Ok(v) => Ok((v.id, v.digest, digest(id, &v.echoed), v.filler.len())),
                        Err(s) => Err((code_num(&s.code), s.message)),
                    };
                    obs2.lock().push(Obs::Echo { id, sent: digest(id, &payload), sent_len: *payload_len, reply_len: *reply_len, got });
                },
                Exchange::Fail { code, message_len } => {
                    let message: String = (0..*message_len).map(|j| char::from(b'a' + (j % 26) as u8)).collect();
                    let msg = Ping { id, payload: vec![], reply_len: 0, handler_delay_ms: 0, fail_with: *code, text: message.clone() };
                    let got = match client.send(&msg).await {
                        Ok(_) => Ok(()),
                        Err(s) => Err((code_num(&s.code), s.message)),
                    };
                    obs2.lock().push(Obs::Fail { id, code: *code, message, got });
                },
                Exchange::Raw { kind, len, noise } => {
                    let valid = datacake_rpc::to_view_bytes(&Ping { id: 77, payload: vec![1, 2, 3], reply_len: 0, handler_delay_ms: 0, fail_with: 0, text: "x".into() })
                        .unwrap()
                        .to_vec();
                    let with_crc = |body: Vec<u8>| {
                        let mut f = body.clone();
                        f.extend_from_slice(&crc32fast::hash(&body).to_le_bytes());
                        f
                    };
                    let (what, bytes): (String, Vec<u8>) = match kind {
                        0 => (format!("{len} zero bytes"), vec![0u8; (*len).min(64)]),
                        1 => (format!("{len} bytes of noise"), (0..*len).map(|j| (noise >> (j % 8 * 8)) as u8 ^ j as u8).collect()),
                        2 => {
                            let n = (*len).min(std::mem::size_of::<rkyv::Archived<Ping>>() - 1);
                            (format!("{n}-byte body (shorter than the archived root) with a correct checksum"), with_crc(vec![0xAB; n]))
                        },
                        3 => {
                            let mut f = valid.clone();
                            let bit = (*noise as usize) % (f.len() * 8);
                            f[bit / 8] ^= 1 << (bit % 8);
                            (format!("valid frame with bit {bit} flipped"), f)
                        },
                        4 => {
                            let n = (*noise as usize) % valid.len();
                            (format!("valid frame truncated to {n} bytes"), valid[..n].to_vec())
                        },
                        _ => ("empty body".to_string(), vec![]),
                    };
                    let before = log2.lock().seen.len();
                    let got = match raw.send_owned(Body::from(bytes)).await {
                        Ok(_) => Ok(0usize),
                        Err(s) => Err((code_num(&s.code), s.message)),
                    };
                    let after = log2.lock().seen.len();
                    obs2.lock().push(Obs::Raw { what, got, handler_calls_delta: after - before });
                },
            }
        }
        Ok(())
    });
    if let Err(e) = sim.run() {
        return Err(Fail { signature: "host-failed".into(), message: format!("simulation ended with: {e}") });
    }
    let obs = obs.lock().clone();
    let log = log.lock();
    let (mut multi_chunk, mut raw_seen) = (false, false);
    for o in &obs {
        match o {
            Obs::Echo { id, sent, sent_len, reply_len, got } => {
                if *sent_len > 16_384 || *reply_len > 16_384 {
                    multi_chunk = true;
                }
                let seen: Vec<_> = log.seen.iter().filter(|(i, _, _)| i == id).collect();
                ensure!(
                    seen.len() == 1 && seen[0].1 == *sent && seen[0].2 == *sent_len,
                    "handler-saw-other-bytes",
                    "request {id} ({sent_len} B): handler log {:?}, digest sent {sent:#x}",
                    seen
                );
                match got {
                    Ok((rid, dg, echoed_dg, flen)) => ensure!(
                        rid == id && dg == sent && echoed_dg == sent && flen == reply_len,
                        "client-saw-other-bytes",
                        "request {id}: client received id={rid} digest={dg:#x} echoed={echoed_dg:#x} filler={flen}; sent digest {sent:#x}, asked for {reply_len}"
                    ),
                    Err((c, m)) => {
                        return Err(Fail { signature: "echo-failed".into(), message: format!("echo request {id} ({sent_len} B payload, {reply_len} B reply) failed: code {c}: {m}") })
                    },
                }
            },
            Obs::Fail { id, code, message, got } => {
                ensure!(
                    matches!(got, Err((c, m)) if c == code && m == message),
                    "status-not-propagated",
                    "request {id}: handler failed with code {code} and a {}-byte message, client saw {:?}",
                    message.len(),
                    got.as_ref().map_err(|(c, m)| (c, m.len()))
                );
            },
            Obs::Raw { what, got, handler_calls_delta } => {
                raw_seen = true;
                ensure!(*handler_calls_delta == 0, "handler-ran-on-invalid-frame", "raw frame ({what}) reached the handler");
                ensure!(
                    matches!(got, Err((3, _))),
                    "invalid-frame-not-refused",
                    "raw frame ({what}) was answered with {:?} instead of InvalidPayload",
                    got.as_ref().map_err(|(c, m)| (c, m.chars().take(80).collect::<String>()))
                );
            },
        }
    }
    let mut labels = vec![];
    if multi_chunk {
        labels.push("multi_chunk_body");
    }
    if raw_seen {
        labels.push("raw_frame");
    }
    Ok(Pass { nontrivial: multi_chunk || raw_seen, labels })
}

pub fn parts_c12() -> Vec<Box<dyn DynPart>> {
    vec![Box::new(Gen::new(EndToEnd, 6_000, 200_000))]
}
