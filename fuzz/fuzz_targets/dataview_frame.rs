//! C12 (coverage-guided, ASan): frames handed to DataView::using.
//!   mode 0: the bytes are the frame as is            -> must not panic; accepted only with a matching trailer
//!   mode 1: the bytes are a body, the harness appends the correct CRC32 trailer
//!                                                     -> accepted iff the body is at least as long as the archived root
//!   mode 2: the bytes are decoded into a value (arbitrary), framed with to_view_bytes
//!                                                     -> round-trips; one fuzzer-chosen bit flip is refused
//! An out-of-bounds read inside `using` is an ASan report, a panic or a failed assertion is the violation.
//! Accepted frames of modes 0/1 are NOT dereferenced beyond the root: the property does not claim that long,
//! checksum-valid but structurally bogus frames are refused.
#![no_main]

use arbitrary::{Arbitrary, Unstructured};
use datacake_rpc::{to_view_bytes, DataView, Status};
use libfuzzer_sys::fuzz_target;
use rkyv::{AlignedVec, Archive, Deserialize, Serialize};

#[repr(C)]
#[derive(Serialize, Deserialize, Archive, Debug, Clone, PartialEq)]
#[archive(check_bytes)]
pub struct Blob {
    pub id: u64,
    pub data: Vec<u8>,
    pub name: String,
    pub opt: Option<u32>,
}

#[repr(C)]
#[derive(Serialize, Deserialize, Archive, Debug, Clone, PartialEq)]
#[archive(check_bytes)]
pub struct Fixed {
    pub a: u32,
    pub b: u64,
    pub buf: [u8; 12],
}

fn aligned(b: &[u8]) -> AlignedVec {
    let mut v = AlignedVec::with_capacity(b.len());
    v.extend_from_slice(b);
    v
}

fn trailer_matches(frame: &[u8]) -> bool {
    frame.len() >= 4 && crc32fast::hash(&frame[..frame.len() - 4]).to_le_bytes() == frame[frame.len() - 4..]
}

macro_rules! probe {
    ($ty:ty, $frame:expr) => {{
        let frame: &[u8] = $frame;
        let root = std::mem::size_of::<rkyv::Archived<$ty>>();
        let align = std::mem::align_of::<rkyv::Archived<$ty>>();
        // A checksum-valid frame whose body length puts the root at a misaligned offset is the "structurally
        // bogus but checksum-valid" class the property does not speak about (the unchecked cast inside `using`
        // is then a misaligned reference, which rkyv's debug assertion turns into a panic).  The fuzzer reaches
        // it by moving a valid seed frame of one type under the mode byte of another type: leave it alone.
        if trailer_matches(frame) && frame.len() >= root + 4 && (frame.len() - 4 - root) % align != 0 {
            return;
        }
        let accepted = DataView::<$ty>::using(aligned(frame)).is_ok();
        if accepted {
            assert!(trailer_matches(frame), "frame with a wrong checksum accepted");
            assert!(frame.len() >= root + 4, "frame shorter than the archived root accepted");
        } else {
            assert!(!(trailer_matches(frame) && frame.len() >= root + 4), "well-formed frame refused");
        }
    }};
}

/// A body with a correct trailer. Bodies at least as long as the archived root are cut so that the root stays
/// aligned: a checksum-valid body whose length breaks the root's alignment is the "structurally bogus but
/// checksum-valid" class the property does not speak about (the unchecked cast is then a misaligned reference).
macro_rules! probe_with_trailer {
    ($ty:ty, $body:expr) => {{
        let body: &[u8] = $body;
        let root = std::mem::size_of::<rkyv::Archived<$ty>>();
        let align = std::mem::align_of::<rkyv::Archived<$ty>>();
        let len = if body.len() >= root { root + (body.len() - root) / align * align } else { body.len() };
        let mut f = body[..len].to_vec();
        f.extend_from_slice(&crc32fast::hash(&body[..len]).to_le_bytes());
        probe!($ty, &f);
    }};
}

fuzz_target!(|data: &[u8]| {
    let Some((mode, rest)) = data.split_first() else { return };
    match mode % 6 {
        0 => probe!(Blob, rest),
        1 => probe!(Fixed, rest),
        2 => probe!(Status, rest),
        3 => {
            probe_with_trailer!(Blob, rest);
            probe_with_trailer!(Fixed, rest);
            probe_with_trailer!(Status, rest);
        },
        _ => {
            let mut u = Unstructured::new(rest);
            let Ok(id) = u64::arbitrary(&mut u) else { return };
            let Ok(bit) = u32::arbitrary(&mut u) else { return };
            let Ok(opt) = Option::<u32>::arbitrary(&mut u) else { return };
            let Ok(name) = String::arbitrary(&mut u) else { return };
            let data_bytes = u.take_rest().to_vec();
            let value = Blob { id, data: data_bytes, name, opt };
            let frame = to_view_bytes(&value).expect("serialise");
            let view = DataView::<Blob>::using(aligned(&frame)).expect("own frame must be accepted");
            let back: Blob = view.deserialize_view().expect("deserialise");
            assert_eq!(back, value);
            assert_eq!(view.id, value.id);
            assert_eq!(view.data.as_slice(), value.data.as_slice());
            let mut damaged = frame.to_vec();
            let b = bit as usize % (damaged.len() * 8);
            damaged[b / 8] ^= 1 << (b % 8);
            assert!(DataView::<Blob>::using(aligned(&damaged)).is_err(), "bit flip accepted");
        },
    }
});
