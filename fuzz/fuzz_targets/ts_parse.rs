//! C10 (coverage-guided): HLCTimestamp::from_str on arbitrary text never panics, and whatever it
//! accepts prints to a string that parses back to the same timestamp. The oracle is in the target:
//! a panic or a failed assertion is the violation.
#![no_main]

use std::str::FromStr;

use datacake_crdt::{HLCTimestamp, TIMESTAMP_MAX};
use libfuzzer_sys::fuzz_target;

fuzz_target!(|data: &[u8]| {
    let text = String::from_utf8_lossy(data);
    if let Ok(ts) = HLCTimestamp::from_str(&text) {
        assert!(ts.seconds() <= TIMESTAMP_MAX);
        let printed = ts.to_string();
        let again = HLCTimestamp::from_str(&printed).expect("printed timestamp must parse");
        assert_eq!(again, ts, "{text:?} -> {printed:?}");
        assert_eq!(HLCTimestamp::from_u64(ts.as_u64()), ts);
    }
});
