//! Coverage-guided engine for ANY part of the harness (VP_FUZZ_ID / VP_FUZZ_PART name it): libFuzzer's bytes become
//! the part's choice sequence, the part's own generator builds the case and the part's own oracle decides it
//! (see /verif/harness/src/fuzzing.rs). A violation is shrunk, written as an ordinary replay file for
//! `./check --replay`, announced with a VIOLATION line and ends the campaign.
#![no_main]

use libfuzzer_sys::fuzz_target;

thread_local! {
    static TARGET: vp::fuzzing::Target = vp::fuzzing::Target::from_env();
}

fuzz_target!(|data: &[u8]| {
    TARGET.with(|t| t.one(data));
});
